// Package regexsem encodes Go's regexp matching semantics (leftmost-first,
// Perl-like priorities, capture groups) for a subject string of bounded
// symbolic length as SMT terms, so that two patterns can be compared for
// *match equivalence*: same found/not found, same leftmost match extent and
// same extents of all capture groups, for every subject up to the bound.
package regexsem

import (
	"fmt"
	"regexp/syntax"
	"strings"
)

// Builder accumulates definitions (named intermediate results) and emits SMT-LIB2.
type Builder struct {
	L     int // maximal subject length
	defs  []string
	n     int
	chars []string // c0..c{L-1}
}

func NewBuilder(L int) *Builder {
	b := &Builder{L: L}
	for i := 0; i < L; i++ {
		b.chars = append(b.chars, fmt.Sprintf("c%d", i))
	}
	return b
}

// res is a symbolic match result: ok and a vector of ints (end, cap0s, cap0e, ...).
type res struct {
	ok   string
	vals []string
}

func (b *Builder) fresh(sort, term string) string {
	b.n++
	name := fmt.Sprintf("t%d", b.n)
	b.defs = append(b.defs, fmt.Sprintf("(define-fun %s () %s %s)", name, sort, term))
	return name
}

func (b *Builder) fail(width int) res {
	r := res{ok: "false"}
	for i := 0; i < width; i++ {
		r.vals = append(r.vals, "(- 1)")
	}
	return r
}

func (b *Builder) ite(c string, x, y res) res {
	if c == "true" {
		return x
	}
	if c == "false" {
		return y
	}
	r := res{ok: b.fresh("Bool", fmt.Sprintf("(ite %s %s %s)", c, x.ok, y.ok))}
	for i := range x.vals {
		if x.vals[i] == y.vals[i] {
			r.vals = append(r.vals, x.vals[i])
		} else {
			r.vals = append(r.vals, b.fresh("Int", fmt.Sprintf("(ite %s %s %s)", c, x.vals[i], y.vals[i])))
		}
	}
	return r
}

// orElse: x if x.ok else y (priority order).
func (b *Builder) orElse(x, y res) res {
	if x.ok == "false" {
		return y
	}
	if x.ok == "true" {
		return x
	}
	return b.ite(x.ok, x, y)
}

type cont func(j int, caps []string) res

func (b *Builder) charCond(i int, pred func(c string) string) string {
	if i >= b.L {
		return "false"
	}
	return fmt.Sprintf("(and (< %d n) %s)", i, pred(b.chars[i]))
}

func isWordTerm(c string) string {
	return fmt.Sprintf("(or (and (>= %s 48) (<= %s 57)) (and (>= %s 65) (<= %s 90)) (and (>= %s 97) (<= %s 122)) (= %s 95))", c, c, c, c, c, c, c)
}

// wordAt: is there a word character at position i (false outside the subject).
func (b *Builder) wordAt(i int) string {
	if i < 0 || i >= b.L {
		return "false"
	}
	return fmt.Sprintf("(and (< %d n) %s)", i, isWordTerm(b.chars[i]))
}

func copyCaps(c []string) []string { return append([]string(nil), c...) }

// m encodes matching re at concrete position i with capture registers caps.
func (b *Builder) m(re *syntax.Regexp, i int, caps []string, k cont, width int) res {
	if i > b.L {
		return b.fail(width)
	}
	switch re.Op {
	case syntax.OpNoMatch:
		return b.fail(width)
	case syntax.OpEmptyMatch:
		return k(i, caps)
	case syntax.OpLiteral:
		// consume runes one by one
		var step func(idx, pos int) res
		step = func(idx, pos int) res {
			if idx == len(re.Rune) {
				return k(pos, caps)
			}
			r := re.Rune[idx]
			cond := b.charCond(pos, func(c string) string {
				if re.Flags&syntax.FoldCase != 0 {
					lo, up := strings.ToLower(string(r)), strings.ToUpper(string(r))
					if lo != up && r < 128 {
						return fmt.Sprintf("(or (= %s %d) (= %s %d))", c, lo[0], c, up[0])
					}
				}
				if r > 255 {
					return "false"
				}
				return fmt.Sprintf("(= %s %d)", c, r)
			})
			if cond == "false" {
				return b.fail(width)
			}
			return b.ite(cond, step(idx+1, pos+1), b.fail(width))
		}
		return step(0, i)
	case syntax.OpCharClass, syntax.OpAnyCharNotNL, syntax.OpAnyChar:
		cond := b.charCond(i, func(c string) string {
			switch re.Op {
			case syntax.OpAnyChar:
				return "true"
			case syntax.OpAnyCharNotNL:
				return fmt.Sprintf("(not (= %s 10))", c)
			}
			var parts []string
			for q := 0; q+1 < len(re.Rune); q += 2 {
				lo, hi := re.Rune[q], re.Rune[q+1]
				if lo > 255 {
					continue
				}
				if hi > 255 {
					hi = 255
				}
				if lo == hi {
					parts = append(parts, fmt.Sprintf("(= %s %d)", c, lo))
				} else {
					parts = append(parts, fmt.Sprintf("(and (>= %s %d) (<= %s %d))", c, lo, c, hi))
				}
			}
			switch len(parts) {
			case 0:
				return "false"
			case 1:
				return parts[0]
			}
			return "(or " + strings.Join(parts, " ") + ")"
		})
		if cond == "false" {
			return b.fail(width)
		}
		return b.ite(cond, k(i+1, caps), b.fail(width))
	case syntax.OpBeginText:
		if i == 0 {
			return k(i, caps)
		}
		return b.fail(width)
	case syntax.OpEndText:
		return b.ite(fmt.Sprintf("(= n %d)", i), k(i, caps), b.fail(width))
	case syntax.OpBeginLine:
		if i == 0 {
			return k(i, caps)
		}
		cond := b.charCond(i-1, func(c string) string { return fmt.Sprintf("(= %s 10)", c) })
		return b.ite(cond, k(i, caps), b.fail(width))
	case syntax.OpEndLine:
		cond := fmt.Sprintf("(or (= n %d) %s)", i, b.charCond(i, func(c string) string { return fmt.Sprintf("(= %s 10)", c) }))
		return b.ite(cond, k(i, caps), b.fail(width))
	case syntax.OpWordBoundary, syntax.OpNoWordBoundary:
		cond := fmt.Sprintf("(xor %s %s)", b.wordAt(i-1), b.wordAt(i))
		if re.Op == syntax.OpNoWordBoundary {
			cond = "(not " + cond + ")"
		}
		return b.ite(cond, k(i, caps), b.fail(width))
	case syntax.OpCapture:
		g := re.Cap
		c2 := copyCaps(caps)
		c2[2*g] = fmt.Sprint(i)
		return b.m(re.Sub[0], i, c2, func(j int, c3 []string) res {
			c4 := copyCaps(c3)
			c4[2*g+1] = fmt.Sprint(j)
			return k(j, c4)
		}, width)
	case syntax.OpConcat:
		var seq func(idx, pos int, c []string) res
		seq = func(idx, pos int, c []string) res {
			if idx == len(re.Sub) {
				return k(pos, c)
			}
			return b.m(re.Sub[idx], pos, c, func(j int, c2 []string) res { return seq(idx+1, j, c2) }, width)
		}
		return seq(0, i, caps)
	case syntax.OpAlternate:
		r := b.fail(width)
		for q := len(re.Sub) - 1; q >= 0; q-- {
			r = b.orElse(b.m(re.Sub[q], i, caps, k, width), r)
		}
		return r
	case syntax.OpQuest:
		take := b.m(re.Sub[0], i, caps, k, width)
		skip := k(i, caps)
		if re.Flags&syntax.NonGreedy != 0 {
			return b.orElse(skip, take)
		}
		return b.orElse(take, skip)
	case syntax.OpStar, syntax.OpPlus, syntax.OpRepeat:
		min, max := 0, -1
		switch re.Op {
		case syntax.OpPlus:
			min = 1
		case syntax.OpRepeat:
			min, max = re.Min, re.Max
		}
		lazy := re.Flags&syntax.NonGreedy != 0
		var loop func(count, pos int, c []string) res
		loop = func(count, pos int, c []string) res {
			if count < min {
				// mandatory iteration (may be empty-width)
				return b.m(re.Sub[0], pos, c, func(j int, c2 []string) res { return loop(count+1, j, c2) }, width)
			}
			stop := k(pos, c)
			if max >= 0 && count >= max {
				return stop
			}
			more := b.m(re.Sub[0], pos, c, func(j int, c2 []string) res {
				if j == pos {
					return b.fail(width) // an empty iteration cannot make progress
				}
				return loop(count+1, j, c2)
			}, width)
			if lazy {
				return b.orElse(stop, more)
			}
			return b.orElse(more, stop)
		}
		return loop(0, i, caps)
	}
	panic(fmt.Sprintf("regexsem: unsupported op %v", re.Op))
}

// Find encodes regexp.FindStringSubmatchIndex: result vector is
// [start, end, cap1s, cap1e, ...] with ok=false for no match.
func (b *Builder) Find(re *syntax.Regexp, ncap int) (ok string, vals []string) {
	width := 2 + 2*ncap
	total := b.fail(width)
	for start := b.L; start >= 0; start-- {
		caps := make([]string, 2+2*ncap)
		for q := range caps {
			caps[q] = "(- 1)"
		}
		caps[0] = fmt.Sprint(start)
		r := b.m(re, start, caps, func(j int, c []string) res {
			c2 := copyCaps(c)
			c2[1] = fmt.Sprint(j)
			return res{ok: "true", vals: c2}
		}, width)
		guard := fmt.Sprintf("(<= %d n)", start)
		r = b.ite(guard, r, b.fail(width))
		total = b.orElse(r, total)
	}
	return total.ok, total.vals
}

// Query builds the SMT-LIB script asking for a subject (length <= L, bytes)
// on which patterns A and B give different FindStringSubmatchIndex results.
func Query(a, bPat string, L int) (string, error) {
	ra, err := syntax.Parse(a, syntax.Perl)
	if err != nil {
		return "", err
	}
	rb, err := syntax.Parse(bPat, syntax.Perl)
	if err != nil {
		return "", err
	}
	na, nb := ra.MaxCap(), rb.MaxCap()
	if na != nb {
		return "", fmt.Errorf("different number of capture groups: %d vs %d", na, nb)
	}
	b := NewBuilder(L)
	okA, vA := b.Find(ra, na)
	okB, vB := b.Find(rb, nb)
	var s strings.Builder
	s.WriteString("(set-logic ALL)\n(declare-const n Int)\n")
	fmt.Fprintf(&s, "(assert (and (>= n 0) (<= n %d)))\n", L)
	for _, c := range b.chars {
		fmt.Fprintf(&s, "(declare-const %s Int)\n(assert (and (>= %s 0) (<= %s 255)))\n", c, c, c)
	}
	for _, d := range b.defs {
		s.WriteString(d + "\n")
	}
	var diffs []string
	diffs = append(diffs, fmt.Sprintf("(xor %s %s)", okA, okB))
	for i := range vA {
		if vA[i] != vB[i] {
			diffs = append(diffs, fmt.Sprintf("(and %s %s (not (= %s %s)))", okA, okB, vA[i], vB[i]))
		}
	}
	fmt.Fprintf(&s, "(assert (or %s))\n(check-sat)\n(get-value (n %s))\n", strings.Join(diffs, " "), strings.Join(b.chars, " "))
	return s.String(), nil
}
