package main

// The realiser turns the solver/structure model of a lazily initialised AST
// into real, type-correct Go programs: build the go/ast tree from the model,
// print it, declare its free identifiers from a menu, keep the candidates
// go/types accepts, and run the real checker on them natively. It is replay
// infrastructure: what it cannot realise stays an unconfirmed candidate.

import (
	"bytes"
	"encoding/json"
	"fmt"
	"go/ast"
	"go/format"
	"go/importer"
	"go/parser"
	"go/token"
	"go/types"
	"os"
	"os/exec"
	"path/filepath"
	"reflect"
	"sort"
	"strconv"
	"strings"
	"sync"
)

var astTypes = func() map[string]reflect.Type {
	m := map[string]reflect.Type{}
	for _, n := range []interface{}{
		&ast.ArrayType{}, &ast.AssignStmt{}, &ast.BadDecl{}, &ast.BadExpr{}, &ast.BadStmt{}, &ast.BasicLit{}, &ast.BinaryExpr{}, &ast.BlockStmt{},
		&ast.BranchStmt{}, &ast.CallExpr{}, &ast.CaseClause{}, &ast.ChanType{}, &ast.CommClause{}, &ast.Comment{}, &ast.CommentGroup{}, &ast.CompositeLit{},
		&ast.DeclStmt{}, &ast.DeferStmt{}, &ast.Ellipsis{}, &ast.EmptyStmt{}, &ast.ExprStmt{}, &ast.Field{}, &ast.FieldList{}, &ast.File{}, &ast.ForStmt{},
		&ast.FuncDecl{}, &ast.FuncLit{}, &ast.FuncType{}, &ast.GenDecl{}, &ast.GoStmt{}, &ast.Ident{}, &ast.IfStmt{}, &ast.ImportSpec{}, &ast.IncDecStmt{},
		&ast.IndexExpr{}, &ast.IndexListExpr{}, &ast.InterfaceType{}, &ast.KeyValueExpr{}, &ast.LabeledStmt{}, &ast.MapType{}, &ast.ParenExpr{}, &ast.RangeStmt{},
		&ast.ReturnStmt{}, &ast.SelectStmt{}, &ast.SelectorExpr{}, &ast.SendStmt{}, &ast.SliceExpr{}, &ast.StarExpr{}, &ast.StructType{}, &ast.SwitchStmt{},
		&ast.TypeAssertExpr{}, &ast.TypeSpec{}, &ast.TypeSwitchStmt{}, &ast.UnaryExpr{}, &ast.ValueSpec{},
	} {
		t := reflect.TypeOf(n)
		m["*go/ast."+t.Elem().Name()] = t
	}
	return m
}()

type realiser struct {
	model    map[string]interface{}
	spec     *lazySpecView
	fresh    int
	problems []string
	// forced: identifiers whose declaration the model determines (a constant with a known value)
	forced map[string]string
}

type lazySpecView struct {
	Nullable map[string]bool
	MinLen   map[string]int
}

func (r *realiser) s(key string) (string, bool) {
	v, ok := r.model[key]
	if !ok {
		return "", false
	}
	switch v := v.(type) {
	case string:
		return v, true
	case float64:
		return strconv.FormatInt(int64(v), 10), true
	case bool:
		return strconv.FormatBool(v), true
	}
	return "", false
}

// constString: the constant string value the explored path read for the expression at path
// (a menu entry, or a solver-chosen text when the "conststr" bound makes it symbolic)
func (r *realiser) constString(path string) (string, bool) {
	if v, ok := r.s("StringVal(L:info.Types[" + path + "].Value)"); ok {
		return v, true
	}
	return r.s("StringVal(L:info.Types[" + path + "].Value)?s")
}

func (r *realiser) freshName() string {
	r.fresh++
	return fmt.Sprintf("gsxv%d", r.fresh)
}

var (
	exprIface = reflect.TypeOf((*ast.Expr)(nil)).Elem()
	stmtIface = reflect.TypeOf((*ast.Stmt)(nil)).Elem()
	declIface = reflect.TypeOf((*ast.Decl)(nil)).Elem()
	specIface = reflect.TypeOf((*ast.Spec)(nil)).Elem()
	nodeIface = reflect.TypeOf((*ast.Node)(nil)).Elem()
	posType   = reflect.TypeOf(token.NoPos)
	tokType   = reflect.TypeOf(token.ILLEGAL)
)

func (r *realiser) defaultIface(t reflect.Type) reflect.Value {
	switch t {
	case exprIface, nodeIface:
		return reflect.ValueOf(&ast.Ident{Name: r.freshName()})
	case stmtIface:
		// a neutral statement that survives printing and re-parsing
		return reflect.ValueOf(&ast.AssignStmt{Lhs: []ast.Expr{&ast.Ident{Name: "_"}}, Tok: token.ASSIGN, Rhs: []ast.Expr{&ast.BasicLit{Kind: token.INT, Value: "0"}}})
	case declIface:
		return reflect.ValueOf(&ast.GenDecl{Tok: token.VAR, Specs: []ast.Spec{&ast.ValueSpec{Names: []*ast.Ident{{Name: r.freshName()}}, Type: &ast.Ident{Name: "int"}}}})
	case specIface:
		return reflect.ValueOf(&ast.ValueSpec{Names: []*ast.Ident{{Name: r.freshName()}}, Type: &ast.Ident{Name: "int"}})
	}
	return reflect.Zero(t)
}

// buildIface builds the node stored in an interface-typed slot at path.
func (r *realiser) buildIface(path, key string, t reflect.Type) reflect.Value {
	v := r.buildIface0(path, key, t)
	// an identifier whose constant value the code read is declared as that constant
	if sv, ok := r.constString(path); ok && v.IsValid() && v.Kind() == reflect.Ptr && !v.IsNil() {
		if be, isBin := v.Interface().(*ast.BinaryExpr); isBin {
			// a constant concatenation with that value (the operands the path looked at are
			// replaced: what matters natively is the expression's kind and value)
			be.Op = token.ADD
			be.X = &ast.BasicLit{Kind: token.STRING, Value: `""`}
			be.Y = &ast.BasicLit{Kind: token.STRING, Value: strconv.Quote(sv)}
		}
		if id, isIdent := v.Interface().(*ast.Ident); isIdent {
			if r.forced == nil {
				r.forced = map[string]string{}
			}
			r.forced[id.Name] = fmt.Sprintf("const %s = %s\n", id.Name, strconv.Quote(sv))
		}
	}
	return v
}

func (r *realiser) buildIface0(path, key string, t reflect.Type) reflect.Value {
	if v, _ := r.s(path + "#nil"); v == "1" {
		return reflect.Zero(t)
	}
	if tn, ok := r.s(path + "#type"); ok {
		// Bad* nodes are the executor's stand-ins for "some expression / statement"
		// beyond the depth bound; a program that type-checks has none
		switch tn {
		case "*go/ast.BadExpr":
			if t == exprIface {
				return reflect.ValueOf(&ast.Ident{Name: r.freshName()})
			}
		case "*go/ast.BadStmt":
			if t == stmtIface {
				return r.defaultIface(t)
			}
		}
		rt, ok := astTypes[tn]
		if !ok {
			r.problems = append(r.problems, "unknown node type "+tn)
			return r.defaultIface(t)
		}
		return r.buildPtr(path, rt)
	}
	// an expression the code only looked at through its constant value
	// (types.Info.Types[e].Value) is realised as a literal of that value
	if sv, ok := r.constString(path); ok && t == exprIface {
		lit := &ast.BasicLit{Kind: token.STRING, Value: strconv.Quote(sv)}
		c, narrowed := r.s(path + "#cands")
		switch {
		case !narrowed || c == "" || strings.Contains(c, "*go/ast.BasicLit"):
			return reflect.ValueOf(lit)
		case strings.Contains(c, "*go/ast.ParenExpr"):
			// the code ruled out a literal: a parenthesised literal is still a constant expression
			return reflect.ValueOf(&ast.ParenExpr{X: lit})
		}
	}
	if c, ok := r.s(path + "#cands"); ok && c != "" {
		// narrowed but undecided: prefer a leaf the code did not single out
		cands := strings.Split(c, ",")
		pref := []string{"*go/ast.Ident", "*go/ast.BasicLit", "*go/ast.EmptyStmt", "*go/ast.ExprStmt"}
		// the code ruled out a plain identifier: a parenthesised one types like the
		// identifier would and is the likeliest well-typed stand-in ((T) for T)
		hasIdent, hasParen := false, false
		for _, x := range cands {
			hasIdent = hasIdent || x == "*go/ast.Ident"
			hasParen = hasParen || x == "*go/ast.ParenExpr"
		}
		if !hasIdent && hasParen {
			pref = append([]string{"*go/ast.ParenExpr"}, pref...)
		}
		for _, p := range pref {
			for _, x := range cands {
				if x == p {
					return r.buildPtr(path, astTypes[x])
				}
			}
		}
		for _, x := range cands {
			if rt, ok := astTypes[x]; ok && !strings.Contains(x, "Bad") {
				return r.buildPtr(path, rt)
			}
		}
	}
	// never read
	if r.spec != nil && r.spec.Nullable[key] {
		return reflect.Zero(t)
	}
	return r.defaultIface(t)
}

func (r *realiser) buildPtr(path string, pt reflect.Type) reflect.Value {
	st := pt.Elem()
	v := reflect.New(st)
	owner := "go/ast." + st.Name()
	for k := 0; k < st.NumField(); k++ {
		f := st.Field(k)
		if !f.IsExported() {
			continue
		}
		fv := v.Elem().Field(k)
		fpath := path + "." + f.Name
		key := owner + "." + f.Name
		r.fill(fv, fpath, key, st.Name(), f.Name)
	}
	return v
}

func (r *realiser) fill(fv reflect.Value, fpath, key, owner, fname string) {
	ft := fv.Type()
	switch {
	case ft == posType:
		// positions are left to the printer
	case ft == tokType:
		if s, ok := r.s(fpath + "?i"); ok {
			n, _ := strconv.Atoi(s)
			fv.SetInt(int64(n))
		} else {
			fv.SetInt(int64(defaultToken(owner, fname)))
		}
	case ft.Kind() == reflect.String:
		if s, ok := r.s(fpath + "?s"); ok {
			fv.SetString(s)
		} else if owner == "Ident" && fname == "Name" {
			// an identifier go/types resolves to an imported package is spelled like that package
			// (the file then imports it: the name is one of the known standard packages)
			node := strings.TrimSuffix(fpath, ".Name")
			named := false
			for _, tbl := range []string{"Defs", "Uses"} {
				if pth, ok := r.s("info." + tbl + "[" + node + "].imported.path?s"); ok && pth != "" {
					base := pth[strings.LastIndex(pth, "/")+1:]
					if stdPkgs[base] == pth {
						fv.SetString(base)
						named = true
					}
				}
			}
			if !named {
				fv.SetString(r.freshName())
			}
		} else if owner == "BasicLit" && fname == "Value" {
			fv.SetString("") // fixed up after the kind is known
		} else if owner == "Comment" && fname == "Text" {
			fv.SetString("// gsx")
		}
	case ft.Kind() == reflect.Bool:
		if s, ok := r.s(fpath + "?b"); ok {
			fv.SetBool(s == "true")
		}
	case ft.Kind() == reflect.Int:
		if s, ok := r.s(fpath + "?i"); ok {
			n, _ := strconv.Atoi(s)
			fv.SetInt(int64(n))
		} else if owner == "ChanType" {
			fv.SetInt(3)
		}
	case ft.Kind() == reflect.Interface:
		if ft == exprIface || ft == stmtIface || ft == declIface || ft == specIface || ft == nodeIface {
			x := r.buildIface(fpath, key, ft)
			if x.IsValid() && !(x.Kind() == reflect.Interface && x.IsNil()) && x.Type().AssignableTo(ft) {
				fv.Set(x)
			} else if x.IsValid() && x.Kind() == reflect.Ptr && !x.IsNil() && x.Type().Implements(ft) {
				fv.Set(x)
			}
		}
	case ft.Kind() == reflect.Ptr && ft.Elem().Kind() == reflect.Struct:
		name := ft.Elem().Name()
		if name == "Object" || name == "Scope" {
			return
		}
		nilv, seen := r.s(fpath + "#nil")
		switch {
		case seen && nilv == "1":
		case seen && nilv == "0":
			fv.Set(r.buildPtr(fpath, ft))
		default:
			if r.spec != nil && r.spec.Nullable[key] {
				return
			}
			if name == "CommentGroup" {
				return
			}
			fv.Set(r.buildPtr(fpath, ft))
		}
	case ft.Kind() == reflect.Slice:
		n := 0
		if s, ok := r.s(fpath + "#len"); ok {
			n, _ = strconv.Atoi(s)
		} else if r.spec != nil {
			n = r.spec.MinLen[key]
		}
		if n == 0 {
			return
		}
		sl := reflect.MakeSlice(ft, n, n)
		for k := 0; k < n; k++ {
			r.fill(sl.Index(k), fmt.Sprintf("%s[%d]", fpath, k), key+"[]", owner, fname)
		}
		fv.Set(sl)
	}
}

func defaultToken(owner, field string) token.Token {
	switch owner + "." + field {
	case "BinaryExpr.Op":
		return token.ADD
	case "UnaryExpr.Op":
		return token.SUB
	case "AssignStmt.Tok":
		return token.ASSIGN
	case "IncDecStmt.Tok":
		return token.INC
	case "BasicLit.Kind":
		return token.INT
	case "BranchStmt.Tok":
		return token.BREAK
	case "GenDecl.Tok":
		return token.VAR
	case "RangeStmt.Tok":
		return token.DEFINE
	}
	return token.ILLEGAL
}

// fixup repairs leftovers that would not print: empty literals etc.
func fixup(n ast.Node) {
	// a literal cannot be received from, dereferenced or called: such operands become
	// identifiers (the same identifier for the same literal text, so that structurally
	// equal operands stay equal); their declarations come from the menus
	litIdent := func(e ast.Expr) ast.Expr {
		if bl, ok := e.(*ast.BasicLit); ok {
			sum := 0
			for _, c := range []byte(bl.Value) {
				sum = sum*31 + int(c)
			}
			return &ast.Ident{Name: fmt.Sprintf("gsxv9%d", sum%1000)}
		}
		return e
	}
	ast.Inspect(n, func(x ast.Node) bool {
		switch x := x.(type) {
		case *ast.UnaryExpr:
			if x.Op == token.ARROW || x.Op == token.AND {
				x.X = litIdent(x.X)
			}
		case *ast.StarExpr:
			x.X = litIdent(x.X)
		case *ast.CallExpr:
			x.Fun = litIdent(x.Fun)
		case *ast.SelectorExpr:
			x.X = litIdent(x.X)
		case *ast.IndexExpr:
			x.X = litIdent(x.X)
		}
		return true
	})
	// the keys of one composite literal agree in kind: next to a string-valued key, a literal
	// key the explored path never looked into becomes a string literal too
	ast.Inspect(n, func(x ast.Node) bool {
		cl, ok := x.(*ast.CompositeLit)
		if !ok {
			return true
		}
		isStr := func(e ast.Expr) bool {
			switch e := e.(type) {
			case *ast.BasicLit:
				return e.Kind == token.STRING
			case *ast.BinaryExpr:
				l, ok := e.X.(*ast.BasicLit)
				return ok && l.Kind == token.STRING
			case *ast.ParenExpr:
				l, ok := e.X.(*ast.BasicLit)
				return ok && l.Kind == token.STRING
			}
			return false
		}
		anyStr := false
		for _, e := range cl.Elts {
			if kv, ok := e.(*ast.KeyValueExpr); ok && isStr(kv.Key) {
				anyStr = true
			}
		}
		if anyStr {
			for i, e := range cl.Elts {
				if kv, ok := e.(*ast.KeyValueExpr); ok {
					if bl, ok := kv.Key.(*ast.BasicLit); ok && bl.Kind != token.STRING {
						kv.Key = &ast.BasicLit{Kind: token.STRING, Value: fmt.Sprintf(`"k%d"`, i)}
					}
				}
			}
		}
		return true
	})
	// a composite literal may omit its type only inside another composite literal
	{
		nested := map[*ast.CompositeLit]bool{}
		ast.Inspect(n, func(x ast.Node) bool {
			if cl, ok := x.(*ast.CompositeLit); ok {
				for _, e := range cl.Elts {
					if kv, ok := e.(*ast.KeyValueExpr); ok {
						if in, ok := kv.Value.(*ast.CompositeLit); ok {
							nested[in] = true
						}
						if in, ok := kv.Key.(*ast.CompositeLit); ok {
							nested[in] = true
						}
					}
					if in, ok := e.(*ast.CompositeLit); ok {
						nested[in] = true
					}
				}
			}
			return true
		})
		ast.Inspect(n, func(x ast.Node) bool {
			if cl, ok := x.(*ast.CompositeLit); ok && cl.Type == nil && !nested[cl] {
				cl.Type = &ast.Ident{Name: "gsxLitT"}
			}
			return true
		})
	}
	// parameter lists: every field has a type; named and unnamed parameters are not mixed
	ast.Inspect(n, func(x ast.Node) bool {
		ft, ok := x.(*ast.FuncType)
		if !ok || ft.Params == nil {
			return true
		}
		anyNamed := false
		for _, f := range ft.Params.List {
			if f != nil && len(f.Names) > 0 {
				anyNamed = true
			}
		}
		var keep []*ast.Field
		for _, f := range ft.Params.List {
			if f == nil || (anyNamed && len(f.Names) == 0) {
				continue
			}
			if f.Type == nil {
				f.Type = &ast.Ident{Name: "int"}
			}
			keep = append(keep, f)
		}
		ft.Params.List = keep
		return true
	})
	// functions whose body returns values get a matching result list
	fixResults := func(ft *ast.FuncType, body *ast.BlockStmt) {
		if ft == nil || body == nil || ft.Results != nil {
			return
		}
		arity := 0
		ast.Inspect(body, func(x ast.Node) bool {
			switch x := x.(type) {
			case *ast.FuncLit:
				return false
			case *ast.ReturnStmt:
				if len(x.Results) > arity {
					arity = len(x.Results)
				}
			}
			return true
		})
		if arity > 0 {
			fl := &ast.FieldList{}
			for k := 0; k < arity; k++ {
				fl.List = append(fl.List, &ast.Field{Type: &ast.InterfaceType{Methods: &ast.FieldList{}}})
			}
			ft.Results = fl
		}
	}
	// declarations: specs agree with the keyword, receivers and type specs are complete
	fresh := 0
	name := func() *ast.Ident { fresh++; return &ast.Ident{Name: fmt.Sprintf("gsxd%d", fresh)} }
	ast.Inspect(n, func(x ast.Node) bool {
		switch d := x.(type) {
		case *ast.GenDecl:
			var specs []ast.Spec
			for _, sp := range d.Specs {
				switch d.Tok {
				case token.TYPE:
					ts, ok := sp.(*ast.TypeSpec)
					if !ok {
						ts = &ast.TypeSpec{}
					}
					if ts.Name == nil {
						ts.Name = name()
					}
					if ts.Type == nil {
						ts.Type = &ast.Ident{Name: "int"}
					}
					specs = append(specs, ts)
				case token.VAR, token.CONST:
					vs, ok := sp.(*ast.ValueSpec)
					if !ok {
						vs = &ast.ValueSpec{}
					}
					if len(vs.Names) == 0 {
						vs.Names = []*ast.Ident{name()}
					}
					if vs.Type == nil && len(vs.Values) == 0 {
						vs.Type = &ast.Ident{Name: "int"}
					}
					if d.Tok == token.CONST && len(vs.Values) == 0 {
						vs.Values = []ast.Expr{&ast.BasicLit{Kind: token.INT, Value: "1"}}
						vs.Type = nil
					}
					specs = append(specs, vs)
				}
			}
			d.Specs = specs
			if len(specs) > 1 && !d.Lparen.IsValid() {
				d.Lparen, d.Rparen = 1, 1
			}
		case *ast.FuncDecl:
			if d.Recv != nil && len(d.Recv.List) == 0 {
				d.Recv = nil
			}
			if d.Recv != nil {
				for _, f := range d.Recv.List {
					if f.Type == nil {
						f.Type = &ast.Ident{Name: "int"}
					}
				}
				d.Recv.List = d.Recv.List[:1]
			}
			if d.Name == nil {
				d.Name = name()
			}
			if d.Type == nil {
				d.Type = &ast.FuncType{}
			}
			if d.Type.Params == nil {
				d.Type.Params = &ast.FieldList{}
			}
		}
		return true
	})
	// the communication of a select clause is a send or a receive
	recv := func(e ast.Expr) ast.Expr {
		if u, ok := e.(*ast.UnaryExpr); ok && u.Op == token.ARROW {
			return e
		}
		return &ast.UnaryExpr{Op: token.ARROW, X: e}
	}
	ast.Inspect(n, func(x ast.Node) bool {
		if cc, ok := x.(*ast.CommClause); ok && cc.Comm != nil {
			switch st := cc.Comm.(type) {
			case *ast.ExprStmt:
				st.X = recv(st.X)
			case *ast.AssignStmt:
				if len(st.Rhs) == 1 {
					st.Rhs[0] = recv(st.Rhs[0])
					if st.Tok != token.DEFINE {
						st.Tok = token.ASSIGN
					}
				}
			case *ast.SendStmt:
			default:
				cc.Comm = &ast.ExprStmt{X: recv(&ast.Ident{Name: "gsxch"})}
			}
		}
		return true
	})
	ast.Inspect(n, func(x ast.Node) bool {
		switch x := x.(type) {
		case *ast.FuncDecl:
			fixResults(x.Type, x.Body)
		case *ast.FuncLit:
			fixResults(x.Type, x.Body)
		}
		return true
	})
	ast.Inspect(n, func(x ast.Node) bool {
		if bl, ok := x.(*ast.BasicLit); ok && bl.Kind == token.STRING && bl.Value != "" {
			if _, err := strconv.Unquote(bl.Value); err != nil {
				bl.Value = strconv.Quote(bl.Value) // the model gives the text, not necessarily a literal
			}
		}
		if bl, ok := x.(*ast.BasicLit); ok && bl.Value == "" {
			switch bl.Kind {
			case token.STRING:
				bl.Value = `"s%d%s"`
			case token.CHAR:
				bl.Value = `'c'`
			case token.FLOAT:
				bl.Value = "1.5"
			case token.IMAG:
				bl.Value = "1i"
			default:
				bl.Value = "1"
			}
		}
		return true
	})
}

// printNode prints a node; go/printer drops the inner pair of directly nested parentheses
// (`((x))` prints as `(x)`), so inner parenthesised operands are printed separately and
// spliced back textually.
func printNode(n interface{}) (out string, err error) {
	node, isNode := n.(ast.Node)
	if !isNode {
		return printNode0(n)
	}
	type hole struct {
		outer *ast.ParenExpr
		inner *ast.ParenExpr
		name  string
	}
	var holes []hole
	ast.Inspect(node, func(x ast.Node) bool {
		if p, ok := x.(*ast.ParenExpr); ok {
			if in, ok := p.X.(*ast.ParenExpr); ok {
				h := hole{p, in, fmt.Sprintf("gsxPARENHOLE%d", len(holes))}
				holes = append(holes, h)
			}
		}
		return true
	})
	if len(holes) == 0 {
		return printNode0(n)
	}
	for _, h := range holes {
		h.outer.X = &ast.Ident{Name: h.name}
	}
	defer func() {
		for _, h := range holes {
			h.outer.X = h.inner
		}
	}()
	text, err := printNode0(n)
	if err != nil {
		return "", err
	}
	// innermost holes last: substitute repeatedly
	for round := 0; round < len(holes)+1; round++ {
		for _, h := range holes {
			if strings.Contains(text, h.name) {
				in, err := printNode0(h.inner)
				if err != nil {
					return "", err
				}
				text = strings.ReplaceAll(text, h.name, in)
			}
		}
	}
	return text, nil
}

func printNode0(n interface{}) (out string, err error) {
	var buf bytes.Buffer
	defer func() {
		if r := recover(); r != nil {
			out, err = "", fmt.Errorf("printer panic: %v", r)
		}
	}()
	if err := format.Node(&buf, token.NewFileSet(), n); err != nil {
		return "", err
	}
	return buf.String(), nil
}

// ---- free identifiers and declaration menus

var builtinFuncs = map[string]bool{"append": true, "cap": true, "clear": true, "close": true, "complex": true, "copy": true, "delete": true, "imag": true,
	"len": true, "make": true, "max": true, "min": true, "new": true, "panic": true, "print": true, "println": true, "real": true, "recover": true}

var predeclared = map[string]bool{"bool": true, "byte": true, "complex64": true, "complex128": true, "error": true, "float32": true, "float64": true,
	"int": true, "int8": true, "int16": true, "int32": true, "int64": true, "rune": true, "string": true, "uint": true, "uint8": true, "uint16": true,
	"uint32": true, "uint64": true, "uintptr": true, "true": true, "false": true, "iota": true, "nil": true, "any": true, "comparable": true, "_": true}

var stdPkgs = map[string]string{"regexp": "regexp", "sort": "sort", "filepath": "path/filepath", "flag": "flag", "log": "log", "os": "os", "strings": "strings",
	"bytes": "bytes", "fmt": "fmt", "sync": "sync", "http": "net/http", "time": "time", "errors": "errors", "io": "io", "utf8": "unicode/utf8", "sql": "database/sql",
	"math": "math", "strconv": "strconv", "context": "context", "atomic": "sync/atomic", "path": "path", "reflect": "reflect", "unsafe": "unsafe", "rand": "math/rand"}

type identUse struct {
	ptrSels map[string]bool // selectors applied to (*name): name is a pointer to a struct
	name     string
	called   bool
	nargs    int
	selBase  bool
	sels     map[string]bool
	selCall  map[string]bool
	asType   bool
	declared bool
}

// collectUses parses the snippet (as a file) and classifies identifier uses.
func collectUses(file *ast.File) map[string]*identUse {
	uses := map[string]*identUse{}
	get := func(n string) *identUse {
		u := uses[n]
		if u == nil {
			u = &identUse{name: n, sels: map[string]bool{}, selCall: map[string]bool{}, ptrSels: map[string]bool{}}
			uses[n] = u
		}
		return u
	}
	skip := map[*ast.Ident]bool{}
	ast.Inspect(file, func(x ast.Node) bool {
		switch x := x.(type) {
		case *ast.SelectorExpr:
			skip[x.Sel] = true
			if id, ok := x.X.(*ast.Ident); ok {
				u := get(id.Name)
				u.selBase = true
				u.sels[x.Sel.Name] = true
			}
			base := x.X
			for {
				p, ok := base.(*ast.ParenExpr)
				if !ok {
					break
				}
				base = p.X
			}
			if st, ok := base.(*ast.StarExpr); ok {
				if id, ok := st.X.(*ast.Ident); ok {
					get(id.Name).ptrSels[x.Sel.Name] = true
				}
			}
		case *ast.CallExpr:
			switch f := x.Fun.(type) {
			case *ast.Ident:
				u := get(f.Name)
				u.called = true
				u.nargs = len(x.Args)
			case *ast.SelectorExpr:
				if id, ok := f.X.(*ast.Ident); ok {
					get(id.Name).selCall[f.Sel.Name] = true
				}
			}
		case *ast.KeyValueExpr:
			// a key identifier is a field name in a struct literal but an ordinary (constant)
			// operand in a map / slice literal: it gets a declaration either way
		case *ast.Field:
			for _, n := range x.Names {
				skip[n] = true
			}
		case *ast.LabeledStmt:
			skip[x.Label] = true
		case *ast.BranchStmt:
			if x.Label != nil {
				skip[x.Label] = true
			}
		}
		return true
	})
	ast.Inspect(file, func(x ast.Node) bool {
		if id, ok := x.(*ast.Ident); ok && !skip[id] && id.Name != "_" {
			get(id.Name)
		}
		return true
	})
	return uses
}

var valueTypes = []string{"chan int", "int", "string", "bool", "[]int", "*int", "float64", "[2]int", "map[string]int", "error", "interface{}", "func()", "[]string", "struct{ F int }", "chan int", "int64", "uint8", "*[2]int"}

var resultTypes = []string{"", "int", "*int", "string", "bool", "[]int", "error", "(int, int)", "interface{}", "float64", "func()", "map[string]int", "[2]int"}

// declMenu lists alternative declarations for one free identifier.
func declMenu(u *identUse) []string {
	var out []string
	n := u.name
	if stdPkgs[n] != "" && u.selBase {
		out = append(out, "IMPORT "+stdPkgs[n])
	}
	if builtinFuncs[n] || predeclared[n] {
		out = append(out, "") // keep the predeclared meaning
	}
	switch {
	case u.selBase:
		for _, rt := range resultTypes[:8] {
			var b strings.Builder
			tn := "gsxT_" + n
			fmt.Fprintf(&b, "type %s struct{}\n", tn)
			var sels []string
			for s := range u.sels {
				sels = append(sels, s)
			}
			sort.Strings(sels)
			for _, s := range sels {
				fmt.Fprintf(&b, "func (%s) %s(a ...interface{}) %s { panic(0) }\n", tn, s, rt)
			}
			fmt.Fprintf(&b, "var %s %s\n", n, tn)
			out = append(out, b.String())
		}
		// struct with plain fields
		for _, vt := range valueTypes[:6] {
			var b strings.Builder
			b.WriteString("var " + n + " struct{ ")
			var sels []string
			for s := range u.sels {
				sels = append(sels, s)
			}
			sort.Strings(sels)
			for _, s := range sels {
				if u.selCall[s] {
					b.WriteString(s + " func(a ...interface{}) " + vt + "; ")
				} else {
					b.WriteString(s + " " + vt + "; ")
				}
			}
			b.WriteString("}\n")
			out = append(out, b.String())
		}
	case u.called:
		for _, rt := range resultTypes {
			out = append(out, fmt.Sprintf("func %s(a ...interface{}) %s { panic(0) }\n", n, rt))
		}
		out = append(out, fmt.Sprintf("type %s int\n", n), fmt.Sprintf("type %s struct{ F int }\n", n))
	default:
		if len(u.ptrSels) > 0 {
			var sels []string
			for s := range u.ptrSels {
				sels = append(sels, s)
			}
			sort.Strings(sels)
			for _, ft := range []string{"int", "func(a ...interface{}) int", "[2]int"} {
				out = append(out, fmt.Sprintf("var %s *struct{ %s %s }\n", n, strings.Join(sels, ", "), ft))
			}
		}
		for _, vt := range valueTypes {
			out = append(out, fmt.Sprintf("var %s %s\n", n, vt))
		}
		out = append(out, fmt.Sprintf("type %s int\n", n), fmt.Sprintf("type %s struct{ F int }\n", n), fmt.Sprintf("type %s interface{ M() }\n", n),
			fmt.Sprintf("const %s = 1\n", n), fmt.Sprintf("const %s = \"s\"\n", n), fmt.Sprintf("const %s = \" s\"\n", n), fmt.Sprintf("func %s() {}\n", n))
		// one named type per kind of underlying type
		for _, ut := range []string{"complex128", "float32", "string", "bool", "uint8", "[]int", "*int", "map[string]int", "chan int", "func()", "[2]int", "map[interface{}]int"} {
			out = append(out, fmt.Sprintf("type %s %s\n", n, ut))
		}
		out = append(out, fmt.Sprintf("IMPORT unsafe\ntype %s unsafe.Pointer\n", n))
	}
	return out
}

var (
	srcImporterOnce sync.Once
	srcImporter     types.Importer
	srcImporterMu   sync.Mutex
)

func initSrcImporter() { srcImporter = importer.ForCompiler(token.NewFileSet(), "source", nil) }

func typeCheck(src string) (bool, string) {
	srcImporterOnce.Do(initSrcImporter)
	fset := token.NewFileSet()
	f, err := parser.ParseFile(fset, "cand.go", src, parser.ParseComments)
	if err != nil {
		return false, err.Error()
	}
	var firstErr string
	conf := types.Config{Importer: lockedImporter{}, Error: func(err error) {
		if firstErr == "" {
			firstErr = err.Error()
		}
	}}
	conf.Check("cand", fset, []*ast.File{f}, nil)
	return firstErr == "", firstErr
}

type lockedImporter struct{}

var importCache sync.Map // path -> *types.Package (the source importer consults go/build before its own cache)

func (lockedImporter) Import(path string) (*types.Package, error) {
	if p, ok := importCache.Load(path); ok {
		return p.(*types.Package), nil
	}
	srcImporterMu.Lock()
	defer srcImporterMu.Unlock()
	p, err := srcImporter.Import(path)
	if err == nil && p != nil {
		importCache.Store(path, p)
	}
	return p, err
}

// contexts wraps a printed snippet of the given root category into file bodies.
func contexts(category, snippet string) []string {
	switch category {
	case "expr":
		return []string{
			"func gsxF() {\n\t_ = " + snippet + "\n}\n",
			"func gsxF() {\n\t" + snippet + "\n}\n",
			"var _ " + snippet + "\n",
			"func gsxF(gsxp " + snippet + ") {}\n",
			"func gsxF() interface{} {\n\treturn " + snippet + "\n}\n",
			"func gsxF() {\n\tif " + snippet + " {\n\t}\n}\n",
			"func gsxF() {\n\tfor range " + snippet + " {\n\t}\n}\n",
			"func gsxF() {\n\tgsxq := " + snippet + "\n\t_ = gsxq\n}\n",
			"func gsxF() {\n\tdefer " + snippet + "\n}\n",
		}
	case "stmt":
		return []string{
			"func gsxF() {\n\t" + snippet + "\n}\n",
			"func gsxF() int {\n\t" + snippet + "\n\treturn 0\n}\n",
			"func gsxF() {\n\tfor {\n\t\t" + snippet + "\n\t}\n}\n",
			"func gsxF() (int, error) {\n\t" + snippet + "\n\treturn 0, nil\n}\n",
			"func gsxF() {\ngsxL:\n\tfor {\n\t\t" + snippet + "\n\t\tbreak gsxL\n\t}\n}\n",
		}
	case "block":
		return []string{"func gsxF() " + snippet + "\n", "func gsxF() int " + snippet + "\n", "func gsxF() (int, error) " + snippet + "\n"}
	case "decl":
		return []string{snippet + "\n"}
	case "file":
		return []string{strings.TrimPrefix(strings.TrimSpace(snippet), "package cand") + "\n"}
	}
	return []string{snippet}
}

// modelImports renders the import specs of a lazily initialised file
// (file.Imports[i].Path.Value): equal path texts map to the same standard
// package, different texts to different ones; blank aliases keep the file compiling.
func modelImports(model map[string]interface{}, root string) string {
	n := 0
	if s, ok := model[root+".Imports#len"].(string); ok {
		fmt.Sscan(s, &n)
	}
	if n == 0 {
		return ""
	}
	std := []string{"fmt", "os", "io", "strings", "bytes", "sort", "errors", "time"}
	assigned := map[string]string{}
	var b strings.Builder
	for i := 0; i < n; i++ {
		key := fmt.Sprintf("%s.Imports[%d].Path.Value?s", root, i)
		val, ok := model[key].(string)
		if !ok {
			val = fmt.Sprintf("#unread%d", i)
		}
		pkg, ok := assigned[val]
		if !ok {
			pkg = std[len(assigned)%len(std)]
			assigned[val] = pkg
		}
		fmt.Fprintf(&b, "import _ %q\n", pkg)
	}
	return b.String()
}

type realised struct {
	Source string
	File   string
}

// realise returns type-correct programs (sources) built from the model, root at rootPath.
func realise(model map[string]interface{}, spec *lazySpecView, rootPath, category string, max int) ([]string, []string) {
	r := &realiser{model: model, spec: spec}
	var node interface{}
	switch category {
	case "expr":
		v := r.buildIface(rootPath, "", exprIface)
		if !v.IsValid() || v.IsNil() {
			return nil, []string{"root expression is nil"}
		}
		node = v.Interface()
	case "stmt":
		v := r.buildIface(rootPath, "", stmtIface)
		if !v.IsValid() || v.IsNil() {
			return nil, []string{"root statement is nil"}
		}
		node = v.Interface()
	case "block":
		node = r.buildPtr(rootPath, reflect.TypeOf(&ast.BlockStmt{})).Interface()
	case "decl":
		node = r.buildPtr(rootPath, reflect.TypeOf(&ast.FuncDecl{})).Interface()
	case "file":
		f := r.buildPtr(rootPath, reflect.TypeOf(&ast.File{})).Interface().(*ast.File)
		f.Name = &ast.Ident{Name: "cand"}
		f.Imports = nil
		f.Comments = nil
		node = f
	default:
		return nil, []string{"unsupported root category " + category}
	}
	fixup(node.(ast.Node))
	snippet, err := printNode(node)
	if err != nil || snippet == "" {
		return nil, append(r.problems, fmt.Sprintf("cannot print the realised node: %v", err))
	}
	// variant: calls whose argument list the explored path never looked at get a
	// string argument with formatting verbs (text that is harmless as code and
	// revealing when it is mistaken for a format string)
	var bodies []string
	// variant: function literals without results get a named bool result, so that a
	// bare `return` inside them stays legal where a value-returning function is expected
	// (e.g. the less function of sort.Slice); tried first
	named := false
	ast.Inspect(node.(ast.Node), func(x ast.Node) bool {
		if fl, ok := x.(*ast.FuncLit); ok && fl.Type != nil && fl.Type.Results == nil {
			fl.Type.Results = &ast.FieldList{List: []*ast.Field{{Names: []*ast.Ident{{Name: "gsxr"}}, Type: &ast.Ident{Name: "bool"}}}}
			named = true
		}
		return true
	})
	if named {
		if s2, err := printNode(node); err == nil && s2 != "" {
			bodies = append(bodies, contexts(category, s2)...)
		}
		ast.Inspect(node.(ast.Node), func(x ast.Node) bool {
			if fl, ok := x.(*ast.FuncLit); ok && fl.Type != nil && fl.Type.Results != nil && len(fl.Type.Results.List) == 1 &&
				len(fl.Type.Results.List[0].Names) == 1 && fl.Type.Results.List[0].Names[0].Name == "gsxr" {
				fl.Type.Results = nil
			}
			return true
		})
	}
	bodies = append(bodies, contexts(category, snippet)...)
	padded := false
	ast.Inspect(node.(ast.Node), func(x ast.Node) bool {
		if c, ok := x.(*ast.CallExpr); ok && len(c.Args) == 0 {
			c.Args = []ast.Expr{&ast.BasicLit{Kind: token.STRING, Value: `"s%d%s"`}}
			padded = true
		}
		return true
	})
	if padded {
		if s2, err := printNode(node); err == nil && s2 != "" {
			bodies = append(bodies, contexts(category, s2)...)
		}
	}
	var out []string
	var notes []string
	seen := map[string]bool{}
	extraImports := ""
	if category == "file" {
		extraImports = modelImports(model, rootPath)
	}
	for _, body := range bodies {
		base := "package cand\n\n" + body
		f, err := parser.ParseFile(token.NewFileSet(), "cand.go", base, parser.ParseComments)
		if err != nil {
			notes = append(notes, "context does not parse: "+firstLine(err.Error()))
			continue
		}
		uses := collectUses(f)
		unresolved := map[string]bool{}
		for _, id := range f.Unresolved {
			unresolved[id.Name] = true
		}
		var names []string
		for n, u := range uses {
			if !unresolved[n] {
				continue // declared by the snippet itself
			}
			if n == "cand" || strings.HasPrefix(n, "gsxF") || n == "gsxp" || n == "gsxq" || n == "gsxL" {
				continue
			}
			if predeclared[n] && !u.called && !u.selBase {
				continue
			}
			names = append(names, n)
		}
		sort.Strings(names)
		menus := make([][]string, len(names))
		total := 1
		for i, n := range names {
			menus[i] = declMenu(uses[n])
			if d, ok := r.forced[n]; ok {
				menus[i] = []string{d}
			}
			if len(menus[i]) == 0 {
				menus[i] = []string{""}
			}
			total *= len(menus[i])
			if total > 200000 {
				total = 200000
			}
		}
		// mixed-radix enumeration, capped
		idx := make([]int, len(names))
		tried := 0
		for tried < 4000 && len(out) < max {
			tried++
			var imports, decls strings.Builder
			for i := range names {
				d := menus[i][idx[i]]
				if strings.HasPrefix(d, "IMPORT ") {
					path, rest, _ := strings.Cut(strings.TrimPrefix(d, "IMPORT "), "\n")
					fmt.Fprintf(&imports, "import %q\n", path)
					decls.WriteString(rest)
				} else {
					decls.WriteString(d)
				}
			}
			src := "package cand\n\n" + imports.String() + extraImports + "\n" + body + "\n" + decls.String()
			if !seen[src] {
				seen[src] = true
				if ok, _ := typeCheck(src); ok {
					out = append(out, src)
				}
			}
			// next
			k := 0
			for k < len(idx) {
				idx[k]++
				if idx[k] < len(menus[k]) {
					break
				}
				idx[k] = 0
				k++
			}
			if k == len(idx) {
				break
			}
		}
		if len(out) >= max {
			break
		}
	}
	if len(out) == 0 {
		_, terr := typeCheck("package cand\n\n" + contexts(category, snippet)[0])
		notes = append(notes, "no type-correct realisation found for: "+strings.ReplaceAll(snippet, "\n", "⏎")+" (bare type error: "+terr+")")
	}
	return out, append(notes, r.problems...)
}

// ---- native run of the real checker on realised programs

const realiseTestSrc = `package checkers_test

import (
	"encoding/json"
	"fmt"
	"go/ast"
	"go/importer"
	"go/parser"
	"go/token"
	"go/types"
	"os"
	"path/filepath"
	"sort"
	"testing"

	_ "github.com/go-critic/go-critic/checkers"
	"github.com/go-critic/go-critic/linter"
)

type gsxJob struct {
	Checker string                 ` + "`json:\"checker\"`" + `
	Params  map[string]interface{} ` + "`json:\"params\"`" + `
	Mode    string                 ` + "`json:\"mode\"`" + `
}

type gsxLoaded struct {
	fset  *token.FileSet
	f     *ast.File
	tinfo *types.Info
	pkg   *types.Package
	name  string
}

func gsxLoad(imp types.Importer, file string) (*gsxLoaded, error) {
	fset := token.NewFileSet()
	f, err := parser.ParseFile(fset, file, nil, parser.ParseComments)
	if err != nil {
		return nil, err
	}
	tinfo := &types.Info{Types: map[ast.Expr]types.TypeAndValue{}, Defs: map[*ast.Ident]types.Object{}, Uses: map[*ast.Ident]types.Object{},
		Implicits: map[ast.Node]types.Object{}, Selections: map[*ast.SelectorExpr]*types.Selection{}, Scopes: map[ast.Node]*types.Scope{},
		Instances: map[*ast.Ident]types.Instance{}}
	conf := types.Config{Importer: imp}
	pkg, err := conf.Check("cand", fset, []*ast.File{f}, tinfo)
	if err != nil {
		return nil, err
	}
	return &gsxLoaded{fset: fset, f: f, tinfo: tinfo, pkg: pkg, name: filepath.Base(file)}, nil
}

func gsxTexts(l *gsxLoaded, ws []linter.Warning) []string {
	var out []string
	for _, w := range ws {
		p := l.fset.Position(w.Pos)
		out = append(out, fmt.Sprintf("%d:%d:%s", p.Line, p.Column, w.Text))
	}
	return out
}

// gsxRelational runs the history / locality / repetition comparisons.
func gsxRelational(t *testing.T, job gsxJob, info *linter.CheckerInfo, dir string, imp types.Importer) {
	groups, _ := filepath.Glob(filepath.Join(dir, "cand*_x.go"))
	sort.Strings(groups)
	for _, xfile := range groups {
		base := xfile[:len(xfile)-len("_x.go")]
		func() {
			defer func() {
				if r := recover(); r != nil {
					fmt.Printf("GSX-REAL\t%s\tPANIC\t%q\n", xfile, fmt.Sprint(r))
				}
			}()
			check := func(ctx *linter.Context, c *linter.Checker, l *gsxLoaded) []string {
				ctx.FileSet = l.fset
				ctx.SetPackageInfo(l.tinfo, l.pkg)
				ctx.SetFileInfo(l.name, l.f)
				return gsxTexts(l, c.Check(l.f))
			}
			fresh := func() (*linter.Context, *linter.Checker) {
				ctx := linter.NewContext(token.NewFileSet(), types.SizesFor("gc", "amd64"))
				c, err := linter.NewChecker(ctx, info)
				if err != nil {
					panic(err)
				}
				return ctx, c
			}
			x, err := gsxLoad(imp, xfile)
			if err != nil {
				fmt.Printf("GSX-REAL\t%s\tSKIP\tx: %v\n", xfile, err)
				return
			}
			switch job.Mode {
			case "history":
				y, err := gsxLoad(imp, base+"_y.go")
				if err != nil {
					fmt.Printf("GSX-REAL\t%s\tSKIP\ty: %v\n", xfile, err)
					return
				}
				ctx, c := fresh()
				check(ctx, c, y)
				long := check(ctx, c, x)
				ctx2, c2 := fresh()
				alone := check(ctx2, c2, x)
				if fmt.Sprint(long) != fmt.Sprint(alone) {
					fmt.Printf("GSX-REAL\t%s\tDIFF\t%q\n", xfile, fmt.Sprintf("after %s: %v; fresh: %v", filepath.Base(base+"_y.go"), long, alone))
				} else {
					fmt.Printf("GSX-REAL\t%s\tSAME\t%d\n", xfile, len(alone))
				}
			case "local":
				d2, err := gsxLoad(imp, base+"_y.go")
				if err != nil {
					fmt.Printf("GSX-REAL\t%s\tSKIP\ty: %v\n", xfile, err)
					return
				}
				both, err := gsxLoad(imp, base+"_xy.go")
				if err != nil {
					fmt.Printf("GSX-REAL\t%s\tSKIP\txy: %v\n", xfile, err)
					return
				}
				strip := func(ws []string) []string {
					var out []string
					for _, w := range ws {
						// drop line:col, keep the message
						k := 0
						for n := 0; n < 2; n++ {
							for k < len(w) && w[k] != ':' {
								k++
							}
							k++
						}
						out = append(out, w[k:])
					}
					return out
				}
				ctx, c := fresh()
				w1 := strip(check(ctx, c, x))
				ctx, c = fresh()
				w2 := strip(check(ctx, c, d2))
				ctx, c = fresh()
				w12 := strip(check(ctx, c, both))
				if fmt.Sprint(append(w1, w2...)) != fmt.Sprint(w12) {
					fmt.Printf("GSX-REAL\t%s\tDIFF\t%q\n", xfile, fmt.Sprintf("separately: %v + %v; together: %v", w1, w2, w12))
				} else {
					fmt.Printf("GSX-REAL\t%s\tSAME\t%d\n", xfile, len(w12))
				}
			case "api":
				kind, _ := job.Params["#kind"].(string)
				name, _ := job.Params["#name"].(string)
				ctx, c := fresh()
				ws := check(ctx, c, x)
				lines := map[int]bool{}
				for _, w := range ws {
					var ln int
					fmt.Sscanf(w, "%d:", &ln)
					lines[ln] = true
				}
				found := ""
				ast.Inspect(x.f, func(n ast.Node) bool {
					call, ok := n.(*ast.CallExpr)
					if !ok || found != "" {
						return true
					}
					var id *ast.Ident
					switch f := call.Fun.(type) {
					case *ast.Ident:
						if kind == "builtin" && f.Name == name {
							id = f
						}
					case *ast.SelectorExpr:
						if q, ok := f.X.(*ast.Ident); ok && kind == "pkg" && q.Name == filepath.Base(name) {
							id = q
						}
					}
					if id == nil || !lines[x.fset.Position(call.Pos()).Line] {
						return true
					}
					obj := x.tinfo.Uses[id]
					real := false
					switch o := obj.(type) {
					case *types.Builtin:
						real = kind == "builtin" && o.Name() == name
					case *types.PkgName:
						real = kind == "pkg" && o.Imported().Path() == name
					}
					if !real {
						found = fmt.Sprintf("diagnostic %v on line %d where %s denotes %v", ws, x.fset.Position(call.Pos()).Line, id.Name, obj)
					}
					return true
				})
				if found != "" {
					fmt.Printf("GSX-REAL\t%s\tDIFF\t%q\n", xfile, found)
				} else {
					fmt.Printf("GSX-REAL\t%s\tSAME\t%d\n", xfile, len(ws))
				}
			case "repeat":
				ctx, c := fresh()
				first := check(ctx, c, x)
				for k := 0; k < 200; k++ {
					ctx, c := fresh()
					again := check(ctx, c, x)
					if fmt.Sprint(again) != fmt.Sprint(first) {
						fmt.Printf("GSX-REAL\t%s\tDIFF\t%q\n", xfile, fmt.Sprintf("run 0: %v; run %d: %v", first, k+1, again))
						return
					}
				}
				fmt.Printf("GSX-REAL\t%s\tSAME\t%d\n", xfile, len(first))
			}
		}()
	}
}

func TestGSXRealise(t *testing.T) {
	dir := os.Getenv("GSX_REALISE_DIR")
	var job gsxJob
	data, err := os.ReadFile(filepath.Join(dir, "job.json"))
	if err != nil {
		t.Fatal(err)
	}
	json.Unmarshal(data, &job)
	files, _ := filepath.Glob(filepath.Join(dir, "cand*.go"))
	sort.Strings(files)
	imp := importer.ForCompiler(token.NewFileSet(), "source", nil)
	var info *linter.CheckerInfo
	for _, x := range linter.GetCheckersInfo() {
		if x.Name == job.Checker {
			info = x
		}
	}
	if info == nil {
		t.Fatalf("no checker %s", job.Checker)
	}
	for k, v := range job.Params {
		if p, ok := info.Params[k]; ok {
			switch p.Value.(type) {
			case int:
				if f, ok := v.(float64); ok {
					p.Value = int(f)
				}
			case bool:
				if b, ok := v.(bool); ok {
					p.Value = b
				}
			case string:
				if s, ok := v.(string); ok {
					p.Value = s
				}
			}
		}
	}
	if job.Mode != "" && job.Mode != "single" {
		gsxRelational(t, job, info, dir, imp)
		return
	}
	for _, file := range files {
		func() {
			fset := token.NewFileSet()
			f, err := parser.ParseFile(fset, file, nil, parser.ParseComments)
			if err != nil {
				fmt.Printf("GSX-REAL\t%s\tSKIP\tparse: %v\n", file, err)
				return
			}
			tinfo := &types.Info{Types: map[ast.Expr]types.TypeAndValue{}, Defs: map[*ast.Ident]types.Object{}, Uses: map[*ast.Ident]types.Object{},
				Implicits: map[ast.Node]types.Object{}, Selections: map[*ast.SelectorExpr]*types.Selection{}, Scopes: map[ast.Node]*types.Scope{},
				Instances: map[*ast.Ident]types.Instance{}}
			conf := types.Config{Importer: imp}
			pkg, err := conf.Check("cand", fset, []*ast.File{f}, tinfo)
			if err != nil {
				fmt.Printf("GSX-REAL\t%s\tSKIP\ttypes: %v\n", file, err)
				return
			}
			ctx := linter.NewContext(fset, types.SizesFor("gc", "amd64"))
			ctx.SetPackageInfo(tinfo, pkg)
			c, err := linter.NewChecker(ctx, info)
			if err != nil {
				fmt.Printf("GSX-REAL\t%s\tSKIP\tctor: %v\n", file, err)
				return
			}
			defer func() {
				if r := recover(); r != nil {
					fmt.Printf("GSX-REAL\t%s\tPANIC\t%q\n", file, fmt.Sprint(r))
				}
			}()
			ctx.SetFileInfo(filepath.Base(file), f)
			before := gsxFingerprint(fset, f)
			ctxBefore := fmt.Sprintf("%#v", *ctx)
			ws := c.Check(f)
			after := gsxFingerprint(fset, f)
			if ctxAfter := fmt.Sprintf("%#v", *ctx); ctxAfter != ctxBefore {
				fmt.Printf("GSX-REAL\t%s\tCTX\t%q\n", file, "the shared linter.Context differs after Check: "+gsxDiff(ctxBefore, ctxAfter))
			}
			type w struct {
				Pos, Text string
				Valid     bool
				From, To  int
				HasFix    bool
				Repl      string
				Line, Col int
				Offset    int
			}
			var out []w
			for _, x := range ws {
				p := fset.Position(x.Pos)
				out = append(out, w{Pos: p.String(), Text: x.Text, Valid: x.Pos.IsValid() && p.Filename == file, From: int(x.Suggestion.From), To: int(x.Suggestion.To),
					HasFix: x.HasQuickFix(), Repl: string(x.Suggestion.Replacement), Line: p.Line, Col: p.Column, Offset: p.Offset})
			}
			js, _ := json.Marshal(out)
			fmt.Printf("GSX-REAL\t%s\tOK\t%d\tmutated=%v\t%s\n", file, len(ws), before != after, js)
		}()
	}
}

func gsxDiff(a, b string) string {
	i := 0
	for i < len(a) && i < len(b) && a[i] == b[i] {
		i++
	}
	lo := i - 40
	if lo < 0 {
		lo = 0
	}
	hi := func(s string) int {
		if i+60 < len(s) {
			return i + 60
		}
		return len(s)
	}
	return "..." + a[lo:hi(a)] + "  =>  ..." + b[lo:hi(b)]
}

// gsxFingerprint renders the tree structurally (node kinds, tokens, names, positions).
func gsxFingerprint(fset *token.FileSet, f *ast.File) string {
	var b []byte
	ast.Inspect(f, func(n ast.Node) bool {
		if n == nil {
			b = append(b, ')')
			return true
		}
		// the node's address is part of the fingerprint: replacing a node by an equal-looking
		// copy is a write to the tree too
		b = append(b, fmt.Sprintf("(%T@%d-%d#%p", n, n.Pos(), n.End(), n)...)
		switch x := n.(type) {
		case *ast.Ident:
			b = append(b, x.Name...)
		case *ast.BasicLit:
			b = append(b, x.Value...)
		case *ast.BinaryExpr:
			b = append(b, x.Op.String()...)
		case *ast.UnaryExpr:
			b = append(b, x.Op.String()...)
		case *ast.AssignStmt:
			b = append(b, x.Tok.String()...)
		case *ast.Comment:
			b = append(b, x.Text...)
		}
		return true
	})
	for _, cg := range f.Comments {
		for _, c := range cg.List {
			b = append(b, fmt.Sprintf("[%d %s]", c.Slash, c.Text)...)
		}
	}
	return string(b)
}
`

type realResult struct {
	File     string
	Status   string // OK PANIC SKIP
	Detail   string
	Warnings int
	Mutated  bool
	JSON     string
	// CtxChanged: how the shared linter.Context differed after Check ("" = unchanged)
	CtxChanged string
}

// runRealised runs the real checker natively on each source; returns per-source results.
func runRealised(checker string, params map[string]interface{}, sources []string, keepDir string) ([]realResult, error) {
	files := map[string]string{}
	for i, s := range sources {
		files[fmt.Sprintf("cand%03d.go", i)] = s
	}
	return runRealisedFiles(checker, params, "single", files)
}

// runRealisedFiles runs the native test over named candidate files in the given mode.
func runRealisedFiles(checker string, params map[string]interface{}, mode string, files map[string]string) ([]realResult, error) {
	dir, err := os.MkdirTemp("", "gsx-realise-")
	if err != nil {
		return nil, err
	}
	defer os.RemoveAll(dir)
	for name, s := range files {
		os.WriteFile(filepath.Join(dir, name), []byte(s), 0o644)
	}
	job, _ := json.Marshal(map[string]interface{}{"checker": checker, "params": params, "mode": mode})
	os.WriteFile(filepath.Join(dir, "job.json"), job, 0o644)
	testFile := filepath.Join(dir, "zz_verif_realise_test.go.txt")
	os.WriteFile(testFile, []byte(realiseTestSrc), 0o644)
	ovJSON, _ := json.Marshal(map[string]interface{}{"Replace": map[string]string{filepath.Join(repoDir, "checkers", "zz_verif_realise_test.go"): testFile}})
	ovFile := filepath.Join(dir, "overlay.json")
	os.WriteFile(ovFile, ovJSON, 0o644)
	cmd := exec.Command("go", "test", "-v", "-vet=off", "-count=1", "-overlay", ovFile, "-run", "^TestGSXRealise$", "-timeout", "600s", "./checkers")
	cmd.Dir = repoDir
	cmd.Env = append(os.Environ(), "GOFLAGS=-mod=mod", "GOPROXY=off", "GOSUMDB=off", "GOTOOLCHAIN=local", "GSX_REALISE_DIR="+dir)
	var out bytes.Buffer
	cmd.Stdout = &out
	cmd.Stderr = &out
	runErr := cmd.Run()
	var res []realResult
	pendingCtx := map[string]string{}
	for _, line := range strings.Split(out.String(), "\n") {
		if !strings.HasPrefix(line, "GSX-REAL\t") {
			continue
		}
		p := strings.Split(line, "\t")
		if len(p) < 3 {
			continue
		}
		r := realResult{File: p[1], Status: p[2]}
		switch p[2] {
		case "CTX":
			// an extra line for a file whose OK line follows: remember it on the next result
			if len(p) > 3 {
				pendingCtx[p[1]] = p[3]
			}
			continue
		case "PANIC", "SKIP", "DIFF", "SAME":
			if len(p) > 3 {
				r.Detail = p[3]
			}
		case "OK":
			if len(p) > 5 {
				r.Warnings, _ = strconv.Atoi(p[3])
				r.Mutated = p[4] == "mutated=true"
				r.JSON = p[5]
			}
		}
		if d, ok := pendingCtx[r.File]; ok {
			r.CtxChanged = d
		}
		res = append(res, r)
	}
	if len(res) == 0 && runErr != nil {
		return nil, fmt.Errorf("native run failed: %v: %s", runErr, lastLines(out.String(), 12))
	}
	return res, nil
}

func lastLines(s string, n int) string {
	ls := strings.Split(strings.TrimSpace(s), "\n")
	if len(ls) > n {
		ls = ls[len(ls)-n:]
	}
	return strings.Join(ls, " | ")
}
