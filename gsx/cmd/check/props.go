package main

// The property table: which harnesses decide which property, with the bounds
// of each tier. Bounds registered here have run clean on the unchanged tree.

var properties = map[string]*property{}

func init() {
	properties["C06"] = &property{
		ID: "C06", Level: "model_checking",
		Harnesses: []harness{
			{Name: "gsxC06InitCheckers", Pkg: "cmd/go-critic", Quick: map[string]int{"strlen": 5}, MustReach: []string{"non-empty selection", "empty selection"}},
			{Name: "gsxC06DefaultList", Pkg: "cmd/go-critic", Quick: map[string]int{"strlen": 5}, MustReach: []string{"defaults"}},
			{Name: "gsxC06InitCheckers", Pkg: "cmd/gocritic", Quick: map[string]int{"strlen": 5}, MustReach: []string{"non-empty selection", "empty selection"}},
			{Name: "gsxC06DefaultList", Pkg: "cmd/gocritic", Quick: map[string]int{"strlen": 5}, MustReach: []string{"defaults"}},
			{Name: "gsxC06Filter", Pkg: "checkers/analyzer", Quick: map[string]int{"strlen": 5}, MustReach: []string{"filtered"}},
			{Name: "gsxC06EmptySelection", Pkg: "checkers/analyzer", Quick: map[string]int{"strlen": 5}, MustReach: []string{"selected", "empty selection"}},
			{Name: "gsxC06Defaults", Pkg: "checkers/analyzer", Quick: map[string]int{"strlen": 12}, MustReach: []string{"defaults"}},
		},
		Assumptions: []string{"keys and tags are byte strings of at most 5 / 3 bytes; at most 2 enable keys, 2 disable keys, 2+1 tags"},
	}
	properties["C15"] = &property{
		ID: "C15", Level: "model_checking",
		Harnesses: []harness{
			{Name: "gsxC15ParseAccepts", Pkg: "linter", Quick: map[string]int{"strlen": 8, "splitparts": 4}, MustReach: []string{"accepted", "rejected"}},
			{Name: "gsxC15ParseValue", Pkg: "linter", Quick: map[string]int{"strlen": 8}, MustReach: []string{"parsed"}},
			{Name: "gsxC15Compare", Pkg: "linter", Solver: "z3", Quick: map[string]int{}, MustReach: []string{"compared"}},
			{Name: "gsxC15SetGoVersion", Pkg: "linter", Quick: map[string]int{"strlen": 6}, MustReach: []string{"set"}},
		},
		Assumptions: []string{"integer arithmetic on symbolic values is mathematical (no overflow)", "version strings up to 8 bytes"},
	}
	properties["C19"] = &property{
		ID: "C19", Level: "model_checking",
		Harnesses: []harness{
			{Name: "gsxC19LoadProgram", Pkg: "cmd/go-critic", Quick: map[string]int{"strlen": 6}, MustReach: []string{"invalid version", "valid version"}},
			{Name: "gsxC19LoadProgram", Pkg: "cmd/gocritic", Quick: map[string]int{"strlen": 6}, MustReach: []string{"invalid version", "valid version"}},
			{Name: "gsxC19CtorError", Pkg: "cmd/go-critic", Quick: map[string]int{}, MustReach: []string{"initCheckers returned"}},
			{Name: "gsxC19CtorError", Pkg: "cmd/gocritic", Quick: map[string]int{}, MustReach: []string{"initCheckers returned"}},
			{Name: "gsxC19AnalyzerPasses", Pkg: "checkers/analyzer", Quick: map[string]int{"strlen": 5}, MustReach: []string{"invalid configuration", "valid configuration"}},
		},
		Assumptions: []string{"package loading is modelled as succeeding with an empty package list (pkgload stub)", "version strings up to 6 bytes", "3 consecutive analyzer passes"},
	}
	properties["C16"] = &property{
		ID: "C16", Level: "model_checking",
		Harnesses: []harness{
			{Name: "gsxC16ShortenLocation", Pkg: "cmd/go-critic", Quick: map[string]int{"strlen": 12}, Thorough: map[string]int{"strlen": 12},
				MustReach: []string{"shortened"}},
			{Name: "gsxC16ShortenLocation", Pkg: "cmd/gocritic", Quick: map[string]int{"strlen": 12}, MustReach: []string{"shortened"}},
			{Name: "gsxC16CheckPackage", Pkg: "cmd/go-critic", Solver: "z3", Quick: map[string]int{}, MustReach: []string{"checked"}},
			{Name: "gsxC16CheckPackage", Pkg: "cmd/gocritic", Solver: "z3", Quick: map[string]int{}, MustReach: []string{"checked"}},
			{Name: "gsxC16RootInsidePath", Pkg: "cmd/go-critic", Quick: map[string]int{"strlen": 24}, MustReach: []string{"shortened"}},
			{Name: "gsxC16RootInsidePath", Pkg: "cmd/gocritic", Quick: map[string]int{"strlen": 24}, MustReach: []string{"shortened"}},
		},
		Assumptions: []string{
			"integer arithmetic on symbolic values is mathematical (no overflow)",
			"strings are sequences of bytes 0..255",
		},
	}
}
