package main

// The property table: which harnesses decide which property, with the bounds
// of each tier. Bounds registered here have run clean on the unchanged tree.

var properties = map[string]*property{}

func init() {
	properties["C16"] = &property{
		ID: "C16", Level: "model_checking",
		Harnesses: []harness{
			{Name: "gsxC16ShortenLocation", Pkg: "cmd/go-critic", Quick: map[string]int{"strlen": 12}, Thorough: map[string]int{"strlen": 12},
				MustReach: []string{"shortened"}},
			{Name: "gsxC16ShortenLocation", Pkg: "cmd/gocritic", Quick: map[string]int{"strlen": 12}, MustReach: []string{"shortened"}},
		},
		Assumptions: []string{
			"integer arithmetic on symbolic values is mathematical (no overflow)",
			"strings are sequences of bytes 0..255",
		},
	}
}
