package main

// The property table: which harnesses decide which property, with the bounds
// of each tier. Bounds registered here have run clean on the unchanged tree.

import "strings"

var properties = map[string]*property{}

func init() {
	c14q := map[string]int{"K": 3, "B": 2, "strlen": 8, "paths": 1500, "wall_s": 40}
	c14t := map[string]int{"K": 4, "B": 3, "strlen": 8, "paths": 8000, "wall_s": 90}
	properties["C14"] = &property{
		ID: "C14", Level: "model_checking",
		Harnesses: []harness{
			{Name: "gsxC14Plumbing", Pkg: "cmd/go-critic", Solver: "z3", Quick: map[string]int{}, MustReach: []string{"constructed"}},
			{Name: "gsxC14Plumbing", Pkg: "cmd/gocritic", Solver: "z3", Quick: map[string]int{}, MustReach: []string{"constructed"}},
			{Name: "gsxC14AnalyzerParam", Pkg: "checkers/analyzer", Solver: "z3", Quick: map[string]int{"paths": 400, "wall_s": 60}, NoValidate: true, ReplayFn: replayAnalyzerParam, MustReach: []string{"second pass"}},
			{Name: "gsxC14SizeOf", Pkg: "linter", Quick: map[string]int{"K": 2, "strlen": 6, "paths": 6000, "wall_s": 60}, NoValidate: true, Tolerant: true, ReplayFn: replaySizeOf, MustReach: []string{"asked twice", "sized"}},
			{Name: "gsxC14Fields", Pkg: "checkers", Solver: "z3", Quick: map[string]int{"K": 1}, Replay: "none", MustReach: []string{"fields"}},
			{Name: "gsxC14Monotone_hugeParam", Pkg: "checkers", Quick: c14q, Thorough: c14t, NoValidate: true, Tolerant: true, ReplayFn: replayThreshold("hugeParam", "sizeThreshold"), MustReach: []string{"strict warns"}},
			{Name: "gsxC14Monotone_rangeValCopy", Pkg: "checkers", Quick: c14q, Thorough: c14t, NoValidate: true, Tolerant: true, ReplayFn: replayThreshold("rangeValCopy", "sizeThreshold"), MustReach: []string{"strict warns"}},
			{Name: "gsxC14Monotone_rangeExprCopy", Pkg: "checkers", Quick: c14q, Thorough: c14t, NoValidate: true, Tolerant: true, ReplayFn: replayThreshold("rangeExprCopy", "sizeThreshold"), MustReach: []string{"strict warns"}},
			{Name: "gsxC14Monotone_tooManyResults", Pkg: "checkers", Quick: c14q, Thorough: c14t, NoValidate: true, Tolerant: true, ReplayFn: replayThreshold("tooManyResultsChecker", "maxResults"), MustReach: []string{"strict warns"}},
			{Name: "gsxC14Monotone_nestingReduce", Pkg: "checkers", Quick: c14q, Thorough: c14t, NoValidate: true, Tolerant: true, ReplayFn: replayThreshold("nestingReduce", "bodyWidth"), MustReach: []string{"strict warns"}},
			{Name: "gsxC14Monotone_ifElseChain", Pkg: "checkers", Quick: c14q, Thorough: c14t, NoValidate: true, Tolerant: true, ReplayFn: replayThreshold("ifElseChain", "minThreshold"), MustReach: []string{"strict warns"}},
			{Name: "gsxC14Boundary_nestingReduce", Pkg: "checkers", Quick: map[string]int{"K": 4, "B": 2, "strlen": 8, "paths": 3000, "wall_s": 60}, Thorough: c14t, NoValidate: true, Tolerant: true, ReplayFn: replayBoundary("nestingReduce", "bodyWidth"), MustReach: []string{"measured flip"}},
			{Name: "gsxC14Boundary_tooManyResults", Pkg: "checkers", Quick: c14q, Thorough: c14t, NoValidate: true, Tolerant: true, ReplayFn: replayBoundary("tooManyResultsChecker", "maxResults"), MustReach: []string{"measured flip"}},
			{Name: "gsxC14Boundary_hugeParam", Pkg: "checkers", Quick: c14q, Thorough: c14t, NoValidate: true, Tolerant: true, ReplayFn: replayBoundary("hugeParam", "sizeThreshold"), MustReach: []string{"measured flip"}},
			{Name: "gsxC14Monotone_commentedOutCode", Pkg: "checkers", Quick: c14q, Thorough: c14t, NoValidate: true, Tolerant: true, ReplayFn: replayThreshold("commentedOutCode", "minLength")},
		},
		Assumptions: []string{"as C01; the measured quantity (go/types Sizeof, list lengths, rune counts) is symbolic"},
	}
	properties["C03"] = &property{
		ID: "C03", Level: "model_checking", Kinds: []string{"history"},
		Harnesses: append([]harness{{Name: "gsxC03FileInfo", Pkg: "linter", Quick: map[string]int{"strlen": 3, "paths": 4000, "wall_s": 120}, MustReach: []string{"set"}},
			{Name: "gsxC03RuleRunContext", Pkg: "checkers", Solver: "z3", Quick: map[string]int{"paths": 400, "wall_s": 60}, NoValidate: true, ReplayFn: replayRulePkg, MustReach: []string{"last file"}}},
			relHarnesses([]string{"gsxHistVisit_", "gsxHistWalk_"}, "history",
				[]map[string]int{{"K": 3, "B": 2, "strlen": 8, "paths": 300, "wall_s": 6}, {"K": 2, "B": 2, "strlen": 8, "paths": 150, "wall_s": 5}},
				[]map[string]int{{"K": 4, "B": 2, "strlen": 8, "paths": 4000, "wall_s": 30}, {"K": 3, "B": 2, "strlen": 8, "paths": 3000, "wall_s": 25}})...),
		Assumptions: []string{"as C01; one step of history (an arbitrary earlier input) from the initial checker state, against a fresh instance"},
	}
	properties["C13"] = &property{
		ID: "C13", Level: "model_checking", Kinds: []string{"local"},
		Harnesses: relHarnesses([]string{"gsxLocal_"}, "local",
			[]map[string]int{{"K": 3, "B": 2, "strlen": 8, "paths": 2500, "wall_s": 25}},
			[]map[string]int{{"K": 4, "B": 2, "strlen": 8, "paths": 5000, "wall_s": 40}}),
		Assumptions: []string{"as C01; two lazily initialised function declarations d1, d2 in source order"},
	}
	properties["C02"] = &property{
		ID: "C02", Level: "model_checking", Kinds: []string{"repeat"},
		Harnesses: append([]harness{{Name: "gsxC02RuleOrder", Pkg: "checkers", Quick: map[string]int{"strlen": 3, "paths": 4000, "wall_s": 120}, MapOrder: 4, NoValidate: true, ReplayFn: replayRuleOrder, MustReach: []string{"ran twice"}}},
			relHarnesses([]string{"gsxRepeat_"}, "repeat",
				[]map[string]int{{"K": 2, "B": 3, "strlen": 6, "paths": 600, "wall_s": 15}},
				[]map[string]int{{"K": 3, "B": 4, "strlen": 6, "paths": 5000, "wall_s": 40}})...),
		Assumptions: []string{"as C01; the iteration order of every Go map with at most 4 entries is an independent nondeterministic permutation at each range statement"},
	}
	{
		var hs []harness
		for _, n := range []string{"appendAssign", "appendCombine", "newDeref", "rangeAppendAll", "badRegexp", "regexpPattern", "regexpSimplify", "sortSlice", "filepathJoin", "flagName"} {
			hs = append(hs, harness{Name: "gsxAPI_" + n, Pkg: "checkers", Quick: map[string]int{"K": 3, "B": 2, "strlen": 16, "paths": 1500, "wall_s": 30},
				Thorough: map[string]int{"K": 4, "B": 2, "strlen": 16, "paths": 4000, "wall_s": 30}, NoValidate: true, Tolerant: true, ReplayFn: replayAPI(n)})
		}
		hs = append(hs, harness{Name: "gsxC20RangeAppendAll", Pkg: "checkers", Solver: "z3", Quick: map[string]int{"paths": 400, "wall_s": 60}, NoValidate: true, ReplayFn: replayRangeAppendAll, MustReach: []string{"visited", "reported"}})
		hs = append(hs, harness{Name: "gsxC20ExitAfterDefer", Pkg: "checkers", Solver: "z3", Quick: map[string]int{"paths": 400, "wall_s": 60}, NoValidate: true, ReplayFn: replayExitAfterDefer, MustReach: []string{"visited", "reported"}})
		properties["C20"] = &property{ID: "C20", Level: "model_checking", Kinds: []string{"api"}, Harnesses: hs, Extra: runRuleTV("C20"), ReplayExtra: replayRuleTV,
			Assumptions: []string{"as C01; table of documented subjects per checker (builtin name / standard package path) in the harness"}}
	}
	properties["C10"] = &property{ID: "C10", Level: "translation_validation", Kinds: []string{"simplify"}, Extra: runRuleTV("C10"), ReplayExtra: replayRuleTV,
		Harnesses: []harness{
			{Name: "gsxC10BoolSimplifyInt", Pkg: "checkers", Quick: map[string]int{"depth": 1, "strlen": 4, "paths": 3000, "wall_s": 60}, Thorough: map[string]int{"depth": 2, "strlen": 4, "paths": 15000, "wall_s": 300},
				NoValidate: true, Tolerant: true, ReplayFn: replayC10, MustReach: []string{"simplified"}},
			{Name: "gsxC10BoolSimplifyFloat", Pkg: "checkers", Quick: map[string]int{"depth": 1, "strlen": 4, "paths": 3000, "wall_s": 60}, Thorough: map[string]int{"depth": 2, "strlen": 4, "paths": 15000, "wall_s": 300},
				NoValidate: true, Tolerant: true, ReplayFn: replayC10},
			{Name: "gsxC10BoolSimplifyImpure", Pkg: "checkers", Quick: map[string]int{"depth": 1, "strlen": 4, "paths": 3000, "wall_s": 60}, Thorough: map[string]int{"depth": 2, "strlen": 4, "paths": 15000, "wall_s": 300},
				NoValidate: true, Tolerant: true, ReplayFn: replayC10},
			{Name: "gsxC10BoolSimplifyNamesake", Pkg: "checkers", Quick: map[string]int{"depth": 1, "strlen": 4, "paths": 3000, "wall_s": 60}, Thorough: map[string]int{"depth": 2, "strlen": 4, "paths": 15000, "wall_s": 300},
				NoValidate: true, Tolerant: true, ReplayFn: replayC10},
			{Name: "gsxC10BoolSimplifyNamedFloat", Pkg: "checkers", Quick: map[string]int{"depth": 1, "strlen": 4, "paths": 3000, "wall_s": 60}, Thorough: map[string]int{"depth": 2, "strlen": 4, "paths": 15000, "wall_s": 300},
				NoValidate: true, Tolerant: true, ReplayFn: replayC10},
		},
		Assumptions: []string{"integer operands without overflow (as the property allows); float64 operands over the rationals in half units (NaN/Inf not modelled); literals: decimal or octal integer literals of up to 3 digits"}}
	properties["C12"] = &property{ID: "C12", Level: "model_checking", Kinds: []string{"claim"}, Extra: runRuleTV("C12"), ReplayExtra: replayRuleTV,
		Harnesses: []harness{
			{Name: "gsxC12CaseOrder", Pkg: "checkers", Quick: map[string]int{"K": 2, "strlen": 6, "paths": 3000, "wall_s": 60}, NoValidate: true, Tolerant: true, ReplayFn: replayCaseOrder, MustReach: []string{"first switch", "reported", "second switch"}},
			{Name: "gsxC12BadCond", Pkg: "checkers", Solver: "z3", Quick: map[string]int{"paths": 4000, "wall_s": 60}, NoValidate: true, Tolerant: true, ReplayFn: replayC12BadCond, MustReach: []string{"always false"}},
			{Name: "gsxC12NilValReturn", Pkg: "checkers", Solver: "z3", Quick: map[string]int{"paths": 4000, "wall_s": 60}, NoValidate: true, ReplayFn: replayNilValReturn, MustReach: []string{"visited", "reported"}},
			{Name: "gsxC12DupSubExpr", Pkg: "checkers", Solver: "z3", Quick: map[string]int{"paths": 4000, "wall_s": 60}, NoValidate: true, ReplayFn: replayDupSubExpr, MustReach: []string{"visited", "reported"}},
		},
		Assumptions: []string{"badCond: two comparisons of one operand (identifier or impure call) against integer constants in [-8,8]; an impure call yields an independent value per evaluation"}}
	properties["C04"] = &property{ID: "C04", Level: "model_checking", Extra: runC04,
		Assumptions: []string{"Go memory model edges: go statement, WaitGroup Done->Wait, critical sections of one mutex totally ordered; the semaphore is taken at its maximal capacity (concurrency >= number of checkers), its channel edges are not used for ordering",
			"Checker.Check is summarised as: reads the shared syntax/types/context, writes checker-owned state only (established by C05)",
			"3 workers / 3 concurrent passes; branches inside the walked functions are over-approximated (all instructions of all blocks are events)"}}
	properties["C17"] = &property{ID: "C17", Level: "model_checking", Kinds: []string{"groups"}, Extra: runC17Data,
		Harnesses: []harness{
			{Name: "gsxC17Groups", Pkg: "checkers", Quick: map[string]int{"strlen": 4, "paths": 4000, "wall_s": 120}, ReplayFn: replayC17Groups, NoValidate: true, MustReach: []string{"initialised"}},
			{Name: "gsxC17DocList", Pkg: "cmd/go-critic", Quick: map[string]int{"strlen": 9, "paths": 400, "wall_s": 120}, ReplayFn: replayC17Doc, NoValidate: true, MustReach: []string{"main ended"}},
			{Name: "gsxC17DocList", Pkg: "cmd/gocritic", Quick: map[string]int{"strlen": 9, "paths": 400, "wall_s": 120}, ReplayFn: replayC17Doc, NoValidate: true, MustReach: []string{"main ended"}},
		},
		Assumptions: []string{"the rule engine is a model: LoadFromIR records the group filter's answers for 1-2 symbolic rule groups, LoadedGroups returns them",
			"'precompiled data equals compiled source' and 'documentation lists exactly the registered checkers' are artefact equalities without a symbolic dimension: not covered (see DESIGN.md)"}}
	properties["C08"] = &property{ID: "C08", Level: "model_checking",
		Harnesses: []harness{
			{Name: "gsxC08Forward", Pkg: "checkers/analyzer", Quick: map[string]int{"strlen": 6, "paths": 3000, "wall_s": 240}, MustReach: []string{"pass returned", "fix forwarded"}},
			{Name: "gsxC16CheckPackage", Pkg: "cmd/go-critic", Quick: map[string]int{"strlen": 8}, MustReach: []string{"checked"}},
			{Name: "gsxC16CheckPackage", Pkg: "cmd/gocritic", Quick: map[string]int{"strlen": 8}, MustReach: []string{"checked"}},
			{Name: "gsxC08TestVariants", Pkg: "cmd/go-critic", Quick: map[string]int{"strlen": 8, "paths": 400, "wall_s": 120}, ReplayFn: replayC08Variants, NoValidate: true, MustReach: []string{"analysed"}},
			{Name: "gsxC08TestVariants", Pkg: "cmd/gocritic", Quick: map[string]int{"strlen": 8, "paths": 400, "wall_s": 120}, ReplayFn: replayC08Variants, NoValidate: true, MustReach: []string{"analysed"}},
			{Name: "gsxC08OfferCLI", Pkg: "cmd/go-critic", Quick: map[string]int{"strlen": 9, "paths": 400, "wall_s": 240}, ReplayFn: replayC08Offer, NoValidate: true, MustReach: []string{"main ended"}},
			{Name: "gsxC08OfferCLI", Pkg: "cmd/gocritic", Quick: map[string]int{"strlen": 9, "paths": 400, "wall_s": 240}, ReplayFn: replayC08Offer, NoValidate: true, MustReach: []string{"main ended"}},
			{Name: "gsxC08OfferAnalysis", Pkg: "cmd/go-critic-analysis", Quick: map[string]int{"strlen": 9, "paths": 400, "wall_s": 240}, ReplayFn: replayC08Offer, NoValidate: true, MustReach: []string{"main ended"}},
			{Name: "gsxC08OfferAnalysis", Pkg: "cmd/gocritic-analysis", Quick: map[string]int{"strlen": 9, "paths": 400, "wall_s": 240}, ReplayFn: replayC08Offer, NoValidate: true, MustReach: []string{"main ended"}},
			{Name: "gsxC08ParamCLI", Pkg: "cmd/go-critic", Quick: map[string]int{"strlen": 3, "paths": 400, "wall_s": 240}, ReplayFn: replayC08Param, NoValidate: true, MustReach: []string{"main ended"}},
			{Name: "gsxC08ParamCLI", Pkg: "cmd/gocritic", Quick: map[string]int{"strlen": 3, "paths": 400, "wall_s": 240}, ReplayFn: replayC08Param, NoValidate: true, MustReach: []string{"main ended"}},
			{Name: "gsxC08ParamAnalysis", Pkg: "cmd/go-critic-analysis", Quick: map[string]int{"strlen": 3, "paths": 400, "wall_s": 240}, ReplayFn: replayC08Param, NoValidate: true, MustReach: []string{"main ended"}},
			{Name: "gsxC08ParamAnalysis", Pkg: "cmd/gocritic-analysis", Quick: map[string]int{"strlen": 3, "paths": 400, "wall_s": 240}, ReplayFn: replayC08Param, NoValidate: true, MustReach: []string{"main ended"}},
		},
		Assumptions: []string{"environment models: the sub-command runner calls the check command with the given arguments; the stock single-checker driver sets the analyzer flags and runs the analyzer once on a package; package loading returns no packages; the rule engine is the C17 model with two built-in rule groups that exist from process start"}}
	properties["C11"] = &property{ID: "C11", Level: "translation_validation", Extra: runC11, ReplayExtra: replayC11,
		Assumptions: []string{"patterns: the repository's own examples plus a bounded grammar (see evidence); Go's regexp/syntax parser is the semantics' front end; subjects are byte strings"}}
	{
		// checkers that quote syntax (original and/or suggested code) in their messages
		var hs []harness
		quoting := quotingCheckers()
		for _, h := range visitHarnesses(map[string]int{"K": 3, "B": 2, "strlen": 8, "paths": 1000, "wall_s": 25}, map[string]int{"K": 4, "B": 2, "strlen": 8, "paths": 4000, "wall_s": 30, "witness": 1}) {
			if strings.HasPrefix(h.Name, "gsxVisit_") && quoting[strings.TrimPrefix(h.Name, "gsxVisit_")] {
				hs = append(hs, h)
			}
		}
		hs = append(hs,
			harness{Name: "gsxC09CommentFix", Pkg: "checkers", Quick: map[string]int{"strlen": 8, "paths": 4000, "wall_s": 150}, Thorough: map[string]int{"strlen": 12, "paths": 20000, "wall_s": 900}, MustReach: []string{"checked", "reported", "re-analysed"}},
			harness{Name: "gsxC09ParamCombine", Pkg: "checkers", Solver: "z3", Quick: map[string]int{"paths": 3000, "wall_s": 60}, NoValidate: true, Tolerant: true, ReplayFn: replayParamCombine, MustReach: []string{"visited", "suggested"}},
			harness{Name: "gsxC09RuleFix", Pkg: "checkers", Quick: map[string]int{"strlen": 4, "paths": 4000, "wall_s": 120}, NoValidate: true, ReplayFn: replayRuleFix, MustReach: []string{"checked"}})
		properties["C09"] = &property{ID: "C09", Level: "model_checking", Kinds: []string{"suggest"}, Harnesses: hs, Extra: runRuleTV("C09"), ReplayExtra: replayRuleTV,
			Assumptions: []string{"as C01; the syntax trees handed to the message printer are checked against go/ast's documented well-formedness (required children present); confirmed natively: the printed suggestion parses as the replaced category, substituted for the original the file type-checks with the same type, and re-analysis does not report at that place"}}
	}
	properties["C07"] = &property{
		ID: "C07", Level: "model_checking", Kinds: []string{"pos"},
		Harnesses:   visitHarnesses(map[string]int{"K": 3, "B": 2, "strlen": 8, "paths": 1000, "wall_s": 25}, map[string]int{"K": 4, "B": 2, "strlen": 8, "paths": 4000, "wall_s": 30}),
		Assumptions: []string{"as C01; diagnostics are observed in the checker's warning buffer; message formatting (go/printer) is an event stub checked for format/argument consistency"},
	}
	properties["C05"] = &property{
		ID: "C05", Level: "model_checking", Kinds: []string{"write"},
		Harnesses: append(visitHarnesses(map[string]int{"K": 3, "B": 2, "strlen": 8, "paths": 1000, "wall_s": 25}, map[string]int{"K": 4, "B": 2, "strlen": 8, "paths": 4000, "wall_s": 30}),
			harness{Name: "gsxC18FailurePolicy", Pkg: "checkers", Quick: map[string]int{"strlen": 16}, NoValidate: true},
			harness{Name: "gsxC05SizeOf", Pkg: "linter", Quick: map[string]int{"K": 2, "strlen": 6, "paths": 2000, "wall_s": 60}, NoValidate: true, Tolerant: true, ReplayFn: replayCtxSizeOf, MustReach: []string{"sized"}}),
		Assumptions: []string{"as C01; write monitor on every cell of the lazily created syntax tree, the types.Info tables and the registered parameter values"},
	}
	properties["C01"] = &property{
		ID: "C01", Level: "model_checking", Kinds: []string{"panic"},
		Assumptions: []string{"inputs are go/ast trees satisfying the well-formedness table generated from go/ast's field documentation, with a lazily initialised types.Info / go/types object graph; text is ASCII; constant strings come from a 2-entry menu",
			"go/types accessor methods run for real over lazy objects; lazily resolving go/types functions (Underlying of Named, Identical, Implements, Sizeof incl. its 'assertion failed' give-up, Scope.Lookup ...) are memoised nondeterministic stubs",
			"message formatting (go/printer) is an event stub; the step budget (400k SSA instructions per path) is the unwinding assertion"},
		Harnesses: visitHarnesses(map[string]int{"K": 3, "B": 2, "strlen": 8, "paths": 1000, "wall_s": 25}, map[string]int{"K": 4, "B": 2, "strlen": 8, "paths": 4000, "wall_s": 30}),
	}
	properties["C06"] = &property{
		ID: "C06", Level: "model_checking",
		Harnesses: []harness{
			{Name: "gsxC06InitCheckers", Pkg: "cmd/go-critic", Quick: map[string]int{"strlen": 5}, MustReach: []string{"non-empty selection", "empty selection"}},
			{Name: "gsxC06DefaultList", Pkg: "cmd/go-critic", Quick: map[string]int{"strlen": 12}, MustReach: []string{"defaults"}},
			{Name: "gsxC06InitCheckers", Pkg: "cmd/gocritic", Quick: map[string]int{"strlen": 5}, MustReach: []string{"non-empty selection", "empty selection"}},
			{Name: "gsxC06DefaultList", Pkg: "cmd/gocritic", Quick: map[string]int{"strlen": 12}, MustReach: []string{"defaults"}},
			{Name: "gsxC06Filter", Pkg: "checkers/analyzer", Quick: map[string]int{"strlen": 5}, MustReach: []string{"filtered"}},
			{Name: "gsxC06EmptySelection", Pkg: "checkers/analyzer", Quick: map[string]int{"strlen": 5}, MustReach: []string{"selected", "empty selection"}},
			{Name: "gsxC06Defaults", Pkg: "checkers/analyzer", Quick: map[string]int{"strlen": 12}, MustReach: []string{"defaults"}},
		},
		Assumptions: []string{"keys and tags are byte strings of at most 5 / 3 bytes; at most 2 enable keys, 2 disable keys, 2+1 tags"},
	}
	properties["C15"] = &property{
		ID: "C15", Level: "model_checking", Extra: runC15Rules,
		Harnesses: []harness{
			{Name: "gsxC15ParseAccepts", Pkg: "linter", Quick: map[string]int{"strlen": 8, "splitparts": 4}, MustReach: []string{"accepted", "rejected"}},
			{Name: "gsxC15ParseValue", Pkg: "linter", Quick: map[string]int{"strlen": 8}, MustReach: []string{"parsed"}},
			{Name: "gsxC15Compare", Pkg: "linter", Solver: "z3", Quick: map[string]int{}, MustReach: []string{"compared"}},
			{Name: "gsxC15SetGoVersion", Pkg: "linter", Quick: map[string]int{"strlen": 6}, MustReach: []string{"set"}},
			{Name: "gsxC15RunVersion", Pkg: "checkers", Solver: "z3", Quick: map[string]int{"strlen": 4, "paths": 2000, "wall_s": 60}, ReplayFn: replayRuleVersion, NoValidate: true, MustReach: []string{"embedded run"}},
		},
		Assumptions: []string{"integer arithmetic on symbolic values is mathematical (no overflow)", "version strings up to 8 bytes"},
	}
	properties["C18"] = &property{
		ID: "C18", Level: "model_checking",
		Harnesses: []harness{
			{Name: "gsxC18FailurePolicy", Pkg: "checkers", Quick: map[string]int{"strlen": 16}, NoValidate: true, MustReach: []string{"policy says fail", "policy says continue"}},
			{Name: "gsxC18FailOnTokens", Pkg: "checkers", Quick: map[string]int{"strlen": 16}, NoValidate: true, MustReach: []string{"unknown failOn value", "valid failOn value"}},
			{Name: "gsxC18GroupFilter", Pkg: "checkers", Quick: map[string]int{"strlen": 32}, NoValidate: true, MustReach: []string{"plain group", "experimental group"}},
			{Name: "gsxC18NoRules", Pkg: "checkers", Quick: map[string]int{"strlen": 8}, Replay: "none", MustReach: []string{"constructed"}},
		},
		Assumptions: []string{"filepath.Glob, os.ReadFile and ruleguard's Engine.{Load,Run,InferBuildContext}/NewEngine are replaced by nondeterministic models (fault schedule): Glob returns ErrBadPattern / 0 / 1 / 2 names, ReadFile fails or not, Load returns nil / an error wrapping *ruleguard.ImportError / another error and offers the groups to GroupFilter",
			"2 patterns x <=2 files; failOn <= 2 tokens of <= 6 bytes; 1 group with <= 2 tags; <= 2 enable keys, 1 disable key"},
	}
	properties["C19"] = &property{
		ID: "C19", Level: "model_checking",
		Harnesses: []harness{
			{Name: "gsxC19LoadProgram", Pkg: "cmd/go-critic", Quick: map[string]int{"strlen": 6}, MustReach: []string{"invalid version", "valid version"}},
			{Name: "gsxC19LoadProgram", Pkg: "cmd/gocritic", Quick: map[string]int{"strlen": 6}, MustReach: []string{"invalid version", "valid version"}},
			{Name: "gsxC19CtorError", Pkg: "cmd/go-critic", Quick: map[string]int{}, MustReach: []string{"initCheckers returned"}},
			{Name: "gsxC19CtorError", Pkg: "cmd/gocritic", Quick: map[string]int{}, MustReach: []string{"initCheckers returned"}},
			{Name: "gsxC19AnalyzerPasses", Pkg: "checkers/analyzer", Quick: map[string]int{"strlen": 5}, MustReach: []string{"invalid configuration", "valid configuration"}},
			// unknown failOn value / rule file pattern with no match: shared with C18
			{Name: "gsxC18FailurePolicy", Pkg: "checkers", Quick: map[string]int{"strlen": 16}, NoValidate: true, MustReach: []string{"policy says fail", "policy says continue"}},
			{Name: "gsxC18FailOnTokens", Pkg: "checkers", Quick: map[string]int{"strlen": 16}, NoValidate: true, MustReach: []string{"unknown failOn value", "valid failOn value"}},
		},
		Assumptions: []string{"package loading is modelled as succeeding with an empty package list (pkgload stub)", "version strings up to 6 bytes", "3 consecutive analyzer passes"},
	}
	properties["C16"] = &property{
		ID: "C16", Level: "model_checking",
		Harnesses: []harness{
			{Name: "gsxC16ShortenLocation", Pkg: "cmd/go-critic", Quick: map[string]int{"strlen": 12}, Thorough: map[string]int{"strlen": 12},
				MustReach: []string{"shortened"}},
			{Name: "gsxC16ShortenLocation", Pkg: "cmd/gocritic", Quick: map[string]int{"strlen": 12}, MustReach: []string{"shortened"}},
			{Name: "gsxC16CheckPackage", Pkg: "cmd/go-critic", Solver: "z3", Quick: map[string]int{}, MustReach: []string{"checked"}},
			{Name: "gsxC16CheckPackage", Pkg: "cmd/gocritic", Solver: "z3", Quick: map[string]int{}, MustReach: []string{"checked"}},
			{Name: "gsxC16RootInsidePath", Pkg: "cmd/go-critic", Quick: map[string]int{"strlen": 24}, MustReach: []string{"shortened"}},
			{Name: "gsxC16RootInsidePath", Pkg: "cmd/gocritic", Quick: map[string]int{"strlen": 24}, MustReach: []string{"shortened"}},
		},
		Assumptions: []string{
			"integer arithmetic on symbolic values is mathematical (no overflow)",
			"strings are sequences of bytes 0..255",
		},
	}
}

// visitHarnesses: one harness per hand-written checker found in /repo's current tree.
func visitHarnesses(quick, thorough map[string]int) []harness {
	names, err := handWrittenCheckers()
	if err != nil {
		return nil
	}
	var hs []harness
	for _, n := range names {
		q, t := quick, thorough
		if k := deeperVisit[n]; k > 0 {
			// these checkers only report on structures deeper than the default bound
			q = withBound(withBound(quick, "K", k), "paths", 4000*(k-2))
		}
		if n == "defaultCaseOrder" {
			// a default clause between two cases needs clause lists of three
			q, t = withBound(q, "B", 3), withBound(t, "B", 3)
		}
		if n == "typeUnparen" {
			// a type-expression rewriter: the interesting shapes (a parenthesised channel type inside a
			// channel type ...) are three levels of node kinds deep; the default budget reached them
			// in one run out of two
			// ... and under the sampling order of a seeded run in one out of four; with lists of at most
			// one element (field lists do not matter to this checker) every run reached them
			q = withBound(withBound(withBound(q, "paths", 40000), "wall_s", 45), "B", 1)
		}
		if n == "mapKey" {
			// the checker looks for whitespace at the ends of constant string keys: the text of
			// string constants is symbolic (<= 3 bytes) instead of the 4-entry menu
			q, t = withBound(withBound(q, "conststr", 3), "paths", 5000), withBound(t, "conststr", 3)
		}
		if n == "filepathJoin" {
			// the checker compares an import path of 13 bytes ("path/filepath"): strings must be able to be that long
			q, t = withBound(quick, "strlen", 16), withBound(thorough, "strlen", 16)
		}
		hs = append(hs, harness{Name: "gsxVisit_" + n, Pkg: "checkers", Quick: q, Thorough: t, NoValidate: true, Tolerant: true, ReplayFn: replayVisit(n)})
		wq := map[string]int{"K": 2, "B": 2, "strlen": 8, "paths": 400, "wall_s": 15}
		wt := map[string]int{"K": 3, "B": 2, "strlen": 8, "paths": 2000, "wall_s": 18}
		hs = append(hs, harness{Name: "gsxWalk_" + n, Pkg: "checkers", Quick: wq, Thorough: wt, NoValidate: true, Tolerant: true, ReplayFn: replayVisit(n)})
	}
	return hs
}

// relHarnesses: relational harnesses (history / locality / repetition) for every hand-written checker.
func relHarnesses(prefixes []string, mode string, quick, thorough []map[string]int) []harness {
	names, err := handWrittenCheckers()
	if err != nil {
		return nil
	}
	var hs []harness
	stateful, fileWalkers := statefulCheckers()
	exempt := map[string]bool{"dupImport": true, "typeDefFirst": true, "commentedOutImport": true, "codegenComment": true, "docStub": true, "ruleguard": true}
	for _, n := range names {
		if mode == "local" && exempt[n] {
			continue // documented subject is file-level order / file header
		}
		for i, pre := range prefixes {
			h := harness{Name: pre + n, Pkg: "checkers", Quick: quick[i], Thorough: thorough[i], NoValidate: true, Tolerant: true, ReplayFn: replayRelational(n, mode)}
			if mode == "history" {
				// budgets follow where state can survive: checkers that assign to their own
				// fields get a deep quick run, the others a shallow one
				switch {
				case pre == "gsxHistVisit_" && stateful[n]:
					h.Quick = map[string]int{"K": 3, "B": 2, "strlen": 8, "paths": 8000, "wall_s": 25}
				case pre == "gsxHistWalk_" && fileWalkers[n] && stateful[n]:
					h.Quick = map[string]int{"K": 4, "B": 2, "strlen": 8, "paths": 20000, "wall_s": 40}
				case pre == "gsxHistWalk_" && (n == "importShadow" || n == "flagName"):
					h.Quick = map[string]int{"K": 3, "B": 2, "strlen": 8, "paths": 8000, "wall_s": 30}
				default:
					h.Quick = map[string]int{"K": 2, "B": 2, "strlen": 8, "paths": 120, "wall_s": 4}
				}
			}
			if mode == "repeat" {
				h.MapOrder = 4
				if n == "dupImport" || n == "importShadow" {
					// the map-ordered emitters need 4 entries to show two groups
					h.Quick = map[string]int{"K": 2, "B": 4, "strlen": 6, "paths": 6000, "wall_s": 60}
				}
			}
			hs = append(hs, h)
		}
	}
	return hs
}

func withBound(m map[string]int, k string, v int) map[string]int {
	out := map[string]int{}
	for a, b := range m {
		out[a] = b
	}
	out[k] = v
	return out
}

// deeperVisit: checkers whose diagnostics need depth 4 (found by probing which
// visit harnesses never reached a diagnostic at depth 3); their explorations are cheap.
var deeperVisit = map[string]int{"underef": 4, "emptyFallthrough": 4, "typeAssertChain": 4, "badCond": 4, "unlambda": 4, "sortSlice": 5, "sqlQuery": 5}
