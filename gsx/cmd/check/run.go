package main

import (
	"bytes"
	"encoding/json"
	"fmt"
	"go/ast"
	"go/parser"
	"go/token"
	"math/big"
	"os"
	"os/exec"
	"path/filepath"
	"regexp"
	"sort"
	"strconv"
	"strings"
	"time"

	"gsx/interp"
)

type harness struct {
	Name     string // harness function name
	Pkg      string // package dir relative to the module root, e.g. "cmd/go-critic"
	Quick    map[string]int
	Thorough map[string]int
	Solver   string
	MaxPaths int
	Workers  int
	// Replay: "native" (run the same harness natively with the model), "none"
	Replay string
	// ReplayFn, if set, replaces native replay (returns confirmed, detail).
	ReplayFn  func(rc *runCtx, h *harness, v *interp.Violation, file string) (bool, string)
	MustReach []string
	// Classify maps a violation to a stable class used for known-findings matching.
	Classify     func(v *interp.Violation) string
	ThoroughOnly bool
	MapOrder     int  // >0: map iteration order is a symbolic permutation for maps up to this size
	NoValidate   bool // skip native validation of clean paths (native run differs: real environment instead of models)
	// Tolerant: paths cut by the path budget or by an operation the executor
	// does not model are recorded as unexplored (a stated bound of the run),
	// they do not make the check fail. Used by the lazy-AST harnesses.
	Tolerant bool
}

type property struct {
	ID          string
	Level       string // evidence level
	Patterns    []string
	Harnesses   []harness
	Assumptions []string
	Kinds       []string                                                     // if set: only violation candidates of these kinds belong to this property
	Extra       func(rc *runCtx, ev *evidence) (violations int, broken bool) // non-GSX engines (ExprSem, RegexSem, ...)
	ReplayExtra func(rc *runCtx, path string, data []byte) int
}

type knownFinding struct {
	Property string `json:"property"`
	Site     string `json:"site"`    // harness function
	Witness  string `json:"witness"` // violation class
	What     string `json:"what"`
}

type knownFile struct {
	Findings []knownFinding    `json:"findings"`
	Fixed    []json.RawMessage `json:"fixed"`
}

func loadKnown() knownFile {
	var k knownFile
	data, err := os.ReadFile(filepath.Join(verifDir, "known_findings.json"))
	if err == nil {
		json.Unmarshal(data, &k)
	}
	return k
}

// buildOverlay maps every file under /verif/harness to the same relative path under /repo.
func buildOverlay() (map[string][]byte, map[string]string, error) {
	ov := map[string][]byte{}
	paths := map[string]string{}
	root := filepath.Join(verifDir, "harness")
	err := filepath.Walk(root, func(p string, info os.FileInfo, err error) error {
		if err != nil {
			return err
		}
		if info.IsDir() || !strings.HasSuffix(p, ".go") {
			return nil
		}
		rel, _ := filepath.Rel(root, p)
		data, err := os.ReadFile(p)
		if err != nil {
			return err
		}
		dst := filepath.Join(repoDir, rel)
		ov[dst] = data
		paths[dst] = p
		// the twin CLI gets the same harnesses as cmd/go-critic
		if strings.HasPrefix(rel, "cmd/go-critic/") {
			dst2 := filepath.Join(repoDir, "cmd/gocritic", strings.TrimPrefix(rel, "cmd/go-critic/"))
			ov[dst2] = data
			paths[dst2] = p
		}
		if strings.HasPrefix(rel, "cmd/go-critic-analysis/") {
			dst2 := filepath.Join(repoDir, "cmd/gocritic-analysis", strings.TrimPrefix(rel, "cmd/go-critic-analysis/"))
			ov[dst2] = data
			paths[dst2] = p
		}
		return nil
	})
	if err == nil {
		err = genVisitHarnesses(ov, paths)
	}
	return ov, paths, err
}

var checkerNameRE = regexp.MustCompile(`(?m)^\s*info\.Name = "(\w+)"`)

// handWrittenCheckers lists the checkers registered by checkers/*_checker.go in /repo's current tree.
func handWrittenCheckers() ([]string, error) {
	files, err := filepath.Glob(filepath.Join(repoDir, "checkers", "*_checker.go"))
	if err != nil {
		return nil, err
	}
	var names []string
	for _, f := range files {
		data, err := os.ReadFile(f)
		if err != nil {
			return nil, err
		}
		for _, m := range checkerNameRE.FindAllStringSubmatch(string(data), -1) {
			names = append(names, m[1])
		}
	}
	sort.Strings(names)
	return names, nil
}

// statefulCheckers finds, by reading /repo/checkers/*_checker.go, the checkers
// whose methods assign to fields of their receiver (scratch state that
// survives a visit), and which of them implement WalkFile themselves.
func statefulCheckers() (stateful, fileWalkers map[string]bool) {
	stateful, fileWalkers = map[string]bool{}, map[string]bool{}
	files, _ := filepath.Glob(filepath.Join(repoDir, "checkers", "*_checker.go"))
	for _, file := range files {
		data, err := os.ReadFile(file)
		if err != nil {
			continue
		}
		names := checkerNameRE.FindAllStringSubmatch(string(data), -1)
		if len(names) == 0 {
			continue
		}
		fset := token.NewFileSet()
		f, err := parser.ParseFile(fset, file, data, 0)
		if err != nil {
			continue
		}
		mut, fw := false, false
		for _, d := range f.Decls {
			fd, ok := d.(*ast.FuncDecl)
			if !ok || fd.Recv == nil || len(fd.Recv.List) == 0 || len(fd.Recv.List[0].Names) == 0 || fd.Body == nil {
				continue
			}
			if fd.Name.Name == "WalkFile" {
				fw = true
			}
			recv := fd.Recv.List[0].Names[0].Name
			onRecv := func(e ast.Expr) bool {
				for {
					switch x := e.(type) {
					case *ast.SelectorExpr:
						if id, ok := x.X.(*ast.Ident); ok && id.Name == recv && x.Sel.Name != "ctx" {
							return true
						}
						e = x.X
					case *ast.IndexExpr:
						e = x.X
					default:
						return false
					}
				}
			}
			ast.Inspect(fd.Body, func(n ast.Node) bool {
				switch s := n.(type) {
				case *ast.AssignStmt:
					for _, l := range s.Lhs {
						if onRecv(l) {
							mut = true
						}
					}
				case *ast.IncDecStmt:
					if onRecv(s.X) {
						mut = true
					}
				case *ast.CallExpr:
					if sel, ok := s.Fun.(*ast.SelectorExpr); ok && onRecv(sel.X) {
						switch sel.Sel.Name {
						case "Insert", "Clear", "Reset", "WriteString", "WriteByte":
							mut = true
						}
					}
				}
				return true
			})
		}
		for _, m := range names {
			stateful[m[1]] = mut
			fileWalkers[m[1]] = fw
		}
	}
	return
}

// genVisitHarnesses adds one generated entry function per hand-written checker.
func genVisitHarnesses(ov map[string][]byte, paths map[string]string) error {
	names, err := handWrittenCheckers()
	if err != nil {
		return err
	}
	var b strings.Builder
	b.WriteString("package checkers\n\n// generated by /verif/bin/check from /repo/checkers/*_checker.go\n\n")
	for _, n := range names {
		fmt.Fprintf(&b, "func gsxVisit_%s() { gsxVisit(%q) }\n", n, n)
		fmt.Fprintf(&b, "func gsxWalk_%s() { gsxWalk(%q) }\n", n, n)
		fmt.Fprintf(&b, "func gsxHistVisit_%s() { gsxHistVisit(%q) }\n", n, n)
		fmt.Fprintf(&b, "func gsxHistWalk_%s() { gsxHistWalk(%q) }\n", n, n)
		fmt.Fprintf(&b, "func gsxLocal_%s() { gsxLocal(%q) }\n", n, n)
		fmt.Fprintf(&b, "func gsxRepeat_%s() { gsxRepeat(%q) }\n", n, n)
		fmt.Fprintf(&b, "func gsxAPI_%s() { gsxAPI(%q) }\n", n, n)
	}
	gen := filepath.Join(verifDir, "harness", "checkers", ".gen_visit.go.txt")
	os.WriteFile(gen, []byte(b.String()), 0o644)
	dst := filepath.Join(repoDir, "checkers", "zz_verif_visit_gen.go")
	ov[dst] = []byte(b.String())
	paths[dst] = gen
	return nil
}

func initAllow(p string) bool {
	for _, pre := range []string{modPath, "github.com/go-toolsmith/", "github.com/quasilyte/regex/syntax",
		"golang.org/x/tools/go/ast/astutil"} {
		if strings.HasPrefix(p, pre) {
			return true
		}
	}
	switch p {
	case "go/ast", "go/token", "strconv", "sort", "go/types", "go/constant",
		"io", "io/fs", "internal/oserror", "path", "path/filepath", "bufio", "bytes", "strings",
		"go/scanner", "go/parser", "go/printer", "go/build/constraint":
		return true
	}
	return false
}

type violationFile struct {
	Property  string                 `json:"property"`
	Harness   string                 `json:"harness"`
	Pkg       string                 `json:"pkg"`
	Kind      string                 `json:"kind"`
	Msg       string                 `json:"msg"`
	Class     string                 `json:"class"`
	Model     map[string]interface{} `json:"model"`
	Decisions []int                  `json:"decisions"`
	Trace     []string               `json:"trace"`
	Stack     string                 `json:"stack,omitempty"`
}

func modelJSON(m map[string]interp.ModelVal) map[string]interface{} {
	out := map[string]interface{}{}
	for k, v := range m {
		out[k] = v.GoValue()
	}
	return out
}

func (rc *runCtx) logf(format string, args ...interface{}) {
	fmt.Fprintf(os.Stderr, format+"\n", args...)
}

func runProperty(rc *runCtx, spec *property) int {
	ev := newEvidence(rc, spec)
	defer func() {
		ev.write(rc)
	}()
	exit := 0
	broken := false
	known := loadKnown()
	knownPrinted := map[string]bool{}

	if len(spec.Harnesses) > 0 {
		overlay, ovPaths, err := buildOverlay()
		if err != nil {
			fmt.Println("BROKEN: overlay:", err)
			ev.Broken = append(ev.Broken, err.Error())
			return 2
		}
		patterns := spec.Patterns
		if len(patterns) == 0 {
			seen := map[string]bool{}
			for _, h := range spec.Harnesses {
				if !seen[h.Pkg] {
					seen[h.Pkg] = true
					patterns = append(patterns, "./"+h.Pkg)
				}
			}
		}
		t0 := time.Now()
		prog, err := interp.Load(interp.LoadConfig{Dir: repoDir, Patterns: patterns, Overlay: overlay, InitAllow: initAllow})
		if err != nil {
			fmt.Println("BROKEN: cannot load /repo with harness overlays:", err)
			ev.Broken = append(ev.Broken, err.Error())
			return 2
		}
		rc.logf("loaded %v in %v", patterns, time.Since(t0).Round(time.Millisecond))
		bindStubs(prog, overlay)
		if lz, err := buildLazySpec(); err != nil {
			fmt.Println("BROKEN: cannot build the go/ast well-formedness table:", err)
			return 2
		} else {
			prog.Lazy = lz
		}

		remainingHarnesses, governed := 0, 0
		for hi := range spec.Harnesses {
			h := &spec.Harnesses[hi]
			if (rc.only == "" || strings.Contains(h.Pkg+"/"+h.Name, rc.only)) && !(h.ThoroughOnly && rc.tier != "thorough") && h.Tolerant {
				remainingHarnesses++
			}
		}
		defer func() {
			if governed > 0 {
				rc.logf("time governor: %d harness(es) ran with a wall budget below the registered one (check deadline %.0fs)", governed, checkDeadline(rc))
				ev.ExtraCoverage["harnesses_with_reduced_wall_budget"] = governed
			}
		}()
		for hi := range spec.Harnesses {
			h := &spec.Harnesses[hi]
			if rc.only != "" && !strings.Contains(h.Pkg+"/"+h.Name, rc.only) {
				continue
			}
			if h.ThoroughOnly && rc.tier != "thorough" {
				continue
			}
			fn := prog.FindFunc(modPath+"/"+h.Pkg, h.Name)
			if fn == nil {
				fmt.Printf("BROKEN: harness %s not found in %s\n", h.Name, h.Pkg)
				ev.Broken = append(ev.Broken, "harness not found: "+h.Name)
				broken = true
				continue
			}
			bounds := h.Quick
			if rc.tier == "thorough" && h.Thorough != nil {
				bounds = h.Thorough
			}
			if len(rc.boundsOverride) > 0 {
				nb := map[string]int{}
				for k, v := range bounds {
					nb[k] = v
				}
				for k, v := range rc.boundsOverride {
					nb[k] = v
				}
				bounds = nb
			}
			// time governor: budgeted (tolerant) harnesses share what is left of the check's
			// deadline, so that a slower machine shortens explorations instead of overrunning
			if w, ok := bounds["wall_s"]; ok && h.Tolerant && remainingHarnesses > 0 {
				left := checkDeadline(rc) - time.Since(rc.start).Seconds()
				fair := int(2 * left / float64(remainingHarnesses))
				if fair < 2 {
					fair = 2
				}
				if fair < w {
					nb := map[string]int{}
					for k, v := range bounds {
						nb[k] = v
					}
					nb["wall_s"] = fair
					bounds = nb
					governed++
				}
			}
			if h.Tolerant {
				remainingHarnesses--
			}
			opts := interp.Options{Solver: h.Solver, Bounds: bounds, MaxPaths: h.MaxPaths, Workers: h.Workers, Verbose: rc.verbose, MaxViol: 400,
				SampleModels: 4, MapOrder: h.MapOrder, Seed: rc.seed + 1}
			if rc.solver != "" {
				opts.Solver = rc.solver
			}
			if d := os.Getenv("GSX_SOLVER_LOG"); d != "" {
				os.MkdirAll(d, 0o755)
				opts.SolverLogDir = d
				opts.Workers = 1
			}
			if v, ok := bounds["paths"]; ok {
				opts.MaxPaths = v
			}
			if v, ok := bounds["timeout_ms"]; ok {
				opts.TimeoutMs = v
			}
			res := prog.Explore(fn, opts)
			hev := ev.addHarness(h, res, bounds, opts)
			rc.logf("%s/%s: paths=%d pruned=%d forks=%d queries=%d (sat %d unsat %d unknown %d err %d) solver=%.1fs wall=%.1fs viol=%d inconclusive=%d",
				h.Pkg, h.Name, res.Paths, res.Pruned, res.Forks, res.Stats.Queries, res.Stats.Sat, res.Stats.Unsat, res.Stats.Unknown, res.Stats.Errors,
				res.Stats.SolveTime.Seconds(), res.Wall.Seconds(), len(res.Violations), len(res.Inconclusive))

			// vacuity guard
			for _, lbl := range h.MustReach {
				if res.Reached[lbl] == 0 {
					fmt.Printf("HARNESS-VACUOUS: %s never reached %q\n", h.Name, lbl)
					ev.Broken = append(ev.Broken, fmt.Sprintf("%s never reached %s", h.Name, lbl))
					broken = true
				}
			}
			if len(res.Inconclusive) > 0 && h.Tolerant {
				hev.Unexplored = res.Inconclusive
				rc.logf("%s: %d unexplored/cut paths (tolerant harness): e.g. %s", h.Name, len(res.Inconclusive), firstLine(res.Inconclusive[0]))
			} else if len(res.Inconclusive) > 0 {
				seen := map[string]int{}
				for _, r := range res.Inconclusive {
					seen[r]++
				}
				var keys []string
				for k := range seen {
					keys = append(keys, k)
				}
				sort.Strings(keys)
				for _, k := range keys {
					fmt.Printf("INCONCLUSIVE: %s: %s (x%d)\n", h.Name, k, seen[k])
				}
				broken = true
			}

			// translator validation: explored feasible paths, concretised, must behave natively as predicted
			if h.Replay != "none" && h.ReplayFn == nil && !h.NoValidate && len(res.PathModels) > 0 {
				n, mismatches := validatePaths(rc, h, ovPaths, res)
				hev.Validated = n
				ev.TracesValidated += n
				for _, m := range mismatches {
					fmt.Printf("TRANSLATOR-MISMATCH: %s: %s\n", h.Name, m)
					ev.Broken = append(ev.Broken, "translator mismatch: "+m)
					broken = true
				}
			}

			// violations: classify, replay, report
			byClass := map[string][]*interp.Violation{}
			var classes []string
			for _, v := range res.Violations {
				if len(spec.Kinds) > 0 {
					keep := false
					for _, k := range spec.Kinds {
						if k == v.Kind || strings.HasPrefix(v.Msg, k+":") {
							keep = true
						}
					}
					if !keep {
						continue
					}
				}
				cl := v.Kind + ": " + v.Msg
				if v.Kind == "panic" || v.Kind == "write" {
					// stable class: the innermost go-critic function on the interpreted stack
					site := ""
					for _, l := range strings.Split(v.Stack, "\n") {
						l = strings.TrimSpace(l)
						if l == "" {
							continue
						}
						if site == "" {
							site = l
						}
						if strings.Contains(l, "go-critic/go-critic") && !strings.Contains(l, "gsx") {
							site = l
							break
						}
					}
					cl = v.Kind + " in " + site
					if v.Kind == "write" {
						cl = "write: " + v.Msg + " in " + site
					}
				}
				if h.Classify != nil {
					cl = h.Classify(v)
				}
				if _, ok := byClass[cl]; !ok {
					classes = append(classes, cl)
				}
				byClass[cl] = append(byClass[cl], v)
			}
			sort.Strings(classes)
			for _, cl := range classes {
				vs := byClass[cl]
				confirmed := false
				var file, detail string
				for k, v := range vs {
					if k >= 6 {
						break
					}
					file = writeViolation(rc, h, v, cl, k)
					ok, d := replayViolation(rc, h, ovPaths, v, file)
					detail = d
					if ok {
						confirmed = true
						break
					}
				}
				hev.Candidates++
				if !confirmed {
					hev.Unconfirmed++
					ev.Unconfirmed = append(ev.Unconfirmed, fmt.Sprintf("%s: %s (%s)", h.Name, cl, firstLine(detail)))
					rc.logf("unconfirmed candidate %s: %s [%s]", h.Name, cl, firstLine(detail))
					continue
				}
				hev.Confirmed++
				isKnown := false
				for _, k := range known.Findings {
					if k.Property == rc.id && k.Site == h.Name && k.Witness == cl {
						isKnown = true
						key := k.Site + "|" + k.Witness
						if !knownPrinted[key] {
							knownPrinted[key] = true
							fmt.Printf("KNOWN-FINDING: property=%s %s: %s\n", rc.id, k.Site, k.What)
						}
					}
				}
				if isKnown {
					ev.Known++
					continue
				}
				ev.Violations++
				fmt.Printf("VIOLATION property=%s replay=%s\n", rc.id, file)
				fmt.Printf("  harness=%s class=%q %s\n", h.Name, cl, firstLine(detail))
				exit = 1
			}
		}
	}
	if spec.Extra != nil {
		n, br := spec.Extra(rc, ev)
		if n > 0 {
			exit = 1
		}
		if br {
			broken = true
		}
	}
	if exit == 0 && broken {
		exit = 2
	}
	ev.Exit = exit
	return exit
}

func firstLine(s string) string {
	if i := strings.IndexByte(s, '\n'); i >= 0 {
		return s[:i]
	}
	return s
}

func writeViolation(rc *runCtx, h *harness, v *interp.Violation, class string, k int) string {
	dir := filepath.Join(outDir, "replays", rc.id)
	os.MkdirAll(dir, 0o755)
	safe := strings.Map(func(r rune) rune {
		if r >= 'a' && r <= 'z' || r >= 'A' && r <= 'Z' || r >= '0' && r <= '9' {
			return r
		}
		return '_'
	}, class)
	if len(safe) > 60 {
		// long class names are cut; a checksum of the whole name keeps different classes apart
		sum := uint32(2166136261)
		for _, c := range []byte(class) {
			sum = (sum ^ uint32(c)) * 16777619
		}
		safe = fmt.Sprintf("%s_%08x", safe[:60], sum)
	}
	file := filepath.Join(dir, fmt.Sprintf("%s-%s-%s-%d.json", strings.ReplaceAll(h.Pkg, "/", "_"), h.Name, safe, k))
	vf := violationFile{Property: rc.id, Harness: h.Name, Pkg: h.Pkg, Kind: v.Kind, Msg: v.Msg, Class: class,
		Model: modelJSON(v.Model), Decisions: v.Decisions, Trace: v.Trace, Stack: v.Stack}
	data, _ := json.MarshalIndent(vf, "", " ")
	os.WriteFile(file, data, 0o644)
	return file
}

// ---- native replay

type nativeResult struct {
	File    string
	Pruned  bool
	Failed  []string
	Panic   string
	Reached []string
	Seen    bool
}

const replayTestTmpl = `package %s

import (
	"fmt"
	"os"
	"strings"
	"testing"

	"github.com/go-critic/go-critic/gsxrt"
)

func TestGSXReplay(t *testing.T) {
	for _, f := range strings.Split(os.Getenv("VERIF_REPLAY_LIST"), ",") {
		if f == "" {
			continue
		}
		gsxrt.LoadModel(f)
		func() {
			defer func() {
				if r := recover(); r != nil {
					fmt.Printf("GSX-RESULT\t%%s\tPANIC\t%%q\n", f, fmt.Sprint(r))
				}
			}()
			pruned := gsxrt.Run(%s)
			fmt.Printf("GSX-RESULT\t%%s\tDONE\tpruned=%%v\tfailed=%%q\treached=%%q\n", f, pruned, strings.Join(gsxrt.Failed, "|"), strings.Join(gsxrt.ReachedList(), "|"))
		}()
	}
}
`

func pkgName(h *harness) string {
	if strings.HasPrefix(h.Pkg, "cmd/") {
		return "main"
	}
	return filepath.Base(h.Pkg)
}

// nativeRun runs harness h natively (go test -overlay) on each model file.
func nativeRun(rc *runCtx, h *harness, ovPaths map[string]string, files []string) (map[string]*nativeResult, string, error) {
	tmp, err := os.MkdirTemp("", "gsx-replay-")
	if err != nil {
		return nil, "", err
	}
	defer os.RemoveAll(tmp)
	testFile := filepath.Join(tmp, "zz_verif_replay_test.go")
	os.WriteFile(testFile, []byte(fmt.Sprintf(replayTestTmpl, pkgName(h), h.Name)), 0o644)
	repl := map[string]string{}
	for dst, src := range ovPaths {
		repl[dst] = src
	}
	repl[filepath.Join(repoDir, h.Pkg, "zz_verif_replay_test.go")] = testFile
	ovJSON, _ := json.Marshal(map[string]interface{}{"Replace": repl})
	ovFile := filepath.Join(tmp, "overlay.json")
	os.WriteFile(ovFile, ovJSON, 0o644)
	cmd := exec.Command("go", "test", "-v", "-vet=off", "-count=1", "-overlay", ovFile, "-run", "^TestGSXReplay$", "-timeout", "300s", "./"+h.Pkg)
	cmd.Dir = repoDir
	cmd.Env = append(os.Environ(), "GOFLAGS=-mod=mod", "GOPROXY=off", "GOSUMDB=off", "GOTOOLCHAIN=local",
		"VERIF_REPLAY_LIST="+strings.Join(files, ","))
	var out bytes.Buffer
	cmd.Stdout = &out
	cmd.Stderr = &out
	runErr := cmd.Run()
	results := map[string]*nativeResult{}
	for _, f := range files {
		results[f] = &nativeResult{File: f}
	}
	for _, line := range strings.Split(out.String(), "\n") {
		if !strings.HasPrefix(line, "GSX-RESULT\t") {
			continue
		}
		parts := strings.Split(line, "\t")
		if len(parts) < 3 {
			continue
		}
		r := results[parts[1]]
		if r == nil {
			continue
		}
		r.Seen = true
		switch parts[2] {
		case "PANIC":
			r.Panic = parts[3]
		case "DONE":
			for _, kv := range parts[3:] {
				switch {
				case strings.HasPrefix(kv, "pruned="):
					r.Pruned = kv == "pruned=true"
				case strings.HasPrefix(kv, "failed="):
					var s string
					fmt.Sscanf(kv[len("failed="):], "%q", &s)
					if s != "" {
						r.Failed = strings.Split(s, "|")
					}
				case strings.HasPrefix(kv, "reached="):
					var s string
					fmt.Sscanf(kv[len("reached="):], "%q", &s)
					if s != "" {
						r.Reached = strings.Split(s, "|")
					}
				}
			}
		}
	}
	if runErr != nil && !strings.Contains(out.String(), "GSX-RESULT") {
		return results, out.String(), fmt.Errorf("go test failed: %v", runErr)
	}
	// a process-level crash (fatal error, os.Exit) loses later results
	return results, out.String(), nil
}

// runGoTest runs `go test` in /repo with an overlay; returns combined output.
func runGoTest(tmp string, repl map[string]string, args []string, env []string) (string, error) {
	ovJSON, _ := json.Marshal(map[string]interface{}{"Replace": repl})
	ovFile := filepath.Join(tmp, "overlay.json")
	os.WriteFile(ovFile, ovJSON, 0o644)
	full := append([]string{"test", "-overlay", ovFile}, args...)
	cmd := exec.Command("go", full...)
	cmd.Dir = repoDir
	cmd.Env = append(append(os.Environ(), "GOFLAGS=-mod=mod", "GOPROXY=off", "GOSUMDB=off", "GOTOOLCHAIN=local"), env...)
	var out bytes.Buffer
	cmd.Stdout = &out
	cmd.Stderr = &out
	err := cmd.Run()
	if err != nil && out.Len() == 0 {
		return "", err
	}
	return out.String(), nil
}

func replayViolation(rc *runCtx, h *harness, ovPaths map[string]string, v *interp.Violation, file string) (bool, string) {
	if h.ReplayFn != nil {
		return h.ReplayFn(rc, h, v, file)
	}
	if h.Replay == "none" {
		return false, "no replay available for this harness"
	}
	res, out, err := nativeRun(rc, h, ovPaths, []string{file})
	if err != nil {
		return false, "replay did not run: " + err.Error() + "\n" + out
	}
	r := res[file]
	switch v.Kind {
	case "panic":
		if r.Panic != "" {
			return true, "native panic: " + r.Panic
		}
		if !r.Seen && strings.Contains(out, "panic:") {
			return true, "native crash"
		}
		return false, "no native panic (native: failed=" + strings.Join(r.Failed, "|") + ")"
	default:
		for _, f := range r.Failed {
			if f == v.Msg {
				return true, "native assertion failure: " + f
			}
		}
		if r.Pruned {
			return false, "native run pruned by an assumption (model does not satisfy the harness preconditions)"
		}
		if r.Panic != "" {
			return false, "native run panicked instead: " + r.Panic
		}
		return false, "assertion holds natively"
	}
}

// validatePaths: translator validation. Models of explored violation-free
// paths are run natively; they must satisfy the assumptions (not pruned),
// raise no assertion failure and no panic.
func validatePaths(rc *runCtx, h *harness, ovPaths map[string]string, res *interp.Result) (int, []string) {
	dir, err := os.MkdirTemp("", "gsx-validate-")
	if err != nil {
		return 0, nil
	}
	defer os.RemoveAll(dir)
	var files []string
	for i, pm := range res.PathModels {
		f := filepath.Join(dir, fmt.Sprintf("path-%d.json", i))
		data, _ := json.Marshal(map[string]interface{}{"model": modelJSON(pm.Model), "reached": pm.Reached})
		os.WriteFile(f, data, 0o644)
		files = append(files, f)
	}
	results, out, err := nativeRun(rc, h, ovPaths, files)
	if err != nil {
		return 0, []string{"validation run failed: " + err.Error() + ": " + firstLine(out)}
	}
	var mism []string
	n := 0
	for i, f := range files {
		r := results[f]
		pm := res.PathModels[i]
		if !r.Seen {
			mism = append(mism, fmt.Sprintf("path %v: no native result", pm.Decisions))
			continue
		}
		n++
		if r.Panic != "" && !pm.Panicked {
			mism = append(mism, fmt.Sprintf("path %v: native panic %s but GSX finished normally; model %v", pm.Decisions, r.Panic, modelJSON(pm.Model)))
		}
		if r.Pruned {
			mism = append(mism, fmt.Sprintf("path %v: native run pruned by Assume but GSX path feasible; model %v", pm.Decisions, modelJSON(pm.Model)))
		}
		if len(r.Failed) > 0 {
			mism = append(mism, fmt.Sprintf("path %v: native assertion failure %v on a path GSX found clean; model %v", pm.Decisions, r.Failed, modelJSON(pm.Model)))
		}
		// every label reached under GSX must be reached natively
		nat := map[string]bool{}
		for _, l := range r.Reached {
			nat[l] = true
		}
		for _, l := range pm.Reached {
			if strings.HasPrefix(l, "assert:") || strings.HasPrefix(l, "bound:") {
				continue
			}
			if !nat[l] && r.Panic == "" {
				mism = append(mism, fmt.Sprintf("path %v: label %q reached under GSX but not natively; model %v", pm.Decisions, l, modelJSON(pm.Model)))
			}
		}
	}
	return n, mism
}

func replayFile(rc *runCtx, path string) int {
	data, err := os.ReadFile(path)
	if err != nil {
		fmt.Println("cannot read replay file:", err)
		return 2
	}
	var vf violationFile
	if err := json.Unmarshal(data, &vf); err != nil {
		fmt.Println("bad replay file:", err)
		return 2
	}
	spec, ok := properties[vf.Property]
	if !ok {
		fmt.Println("unknown property in replay file")
		return 2
	}
	rc.id = vf.Property
	for hi := range spec.Harnesses {
		h := &spec.Harnesses[hi]
		if h.Name != vf.Harness || h.Pkg != vf.Pkg {
			continue
		}
		_, ovPaths, err := buildOverlay()
		if err != nil {
			fmt.Println(err)
			return 2
		}
		v := &interp.Violation{Kind: vf.Kind, Msg: vf.Msg, Model: map[string]interp.ModelVal{}}
		for k, val := range vf.Model {
			switch x := val.(type) {
			case float64:
				v.Model[k] = interp.ModelVal{S: interp.SInt, I: big.NewInt(int64(x))}
			case bool:
				v.Model[k] = interp.ModelVal{S: interp.SBool, B: x}
			case string:
				if n, ok := new(big.Int).SetString(x, 10); ok && (strings.HasSuffix(k, "?i") || strings.HasSuffix(k, "?c")) {
					v.Model[k] = interp.ModelVal{S: interp.SInt, I: n}
				} else if strings.HasSuffix(k, "?b") && (x == "true" || x == "false") {
					v.Model[k] = interp.ModelVal{S: interp.SBool, B: x == "true"}
				} else {
					v.Model[k] = interp.ModelVal{S: interp.SStr, Str: x}
				}
			}
		}
		ok, detail := replayViolation(rc, h, ovPaths, v, path)
		fmt.Printf("replay %s: reproduced=%v %s\n", path, ok, detail)
		if ok {
			fmt.Printf("VIOLATION property=%s replay=%s\n", vf.Property, path)
			return 1
		}
		return 0
	}
	if spec.ReplayExtra != nil {
		return spec.ReplayExtra(rc, path, data)
	}
	if spec.Extra != nil {
		// the violation came from the property's direct encoding (no GSX harness): the
		// encoding is regenerated from /repo's current tree and decided again
		ev := newEvidence(rc, spec)
		n, broken := spec.Extra(rc, ev)
		fmt.Printf("replay %s: the check was re-run on the current tree: %d violation(s)\n", path, n)
		switch {
		case n > 0:
			return 1
		case broken:
			return 2
		}
		return 0
	}
	fmt.Println("harness of replay file not found")
	return 2
}

// checkDeadline: seconds a whole check may take (VERIF_DEADLINE_S overrides).
func checkDeadline(rc *runCtx) float64 {
	if v, err := strconv.Atoi(os.Getenv("VERIF_DEADLINE_S")); err == nil && v > 0 {
		return float64(v)
	}
	if rc.tier == "thorough" {
		return 5400
	}
	return 700
}
