package main

import (
	"encoding/json"
	"fmt"
	"go/ast"
	"go/parser"
	"go/scanner"
	"go/token"
	"os"
	"path/filepath"
	"strings"

	"gsx/interp"
)

var exprKinds = map[string]bool{}
var stmtKinds = map[string]bool{}

func init() {
	for name, t := range astTypes {
		if t.Implements(exprIface) {
			exprKinds[name] = true
		}
		if t.Implements(stmtIface) {
			stmtKinds[name] = true
		}
	}
}

func specView() *lazySpecView {
	lz, err := buildLazySpec()
	if err != nil {
		return nil
	}
	return &lazySpecView{Nullable: lz.Nullable, MinLen: lz.MinLen}
}

// replayVisit realises the model of a visitor harness as Go programs and runs
// the real checker on them natively.
func replayVisit(checker string) func(rc *runCtx, h *harness, v *interp.Violation, file string) (bool, string) {
	return func(rc *runCtx, h *harness, v *interp.Violation, file string) (bool, string) {
		data, err := os.ReadFile(file)
		if err != nil {
			return false, err.Error()
		}
		var vf map[string]interface{}
		json.Unmarshal(data, &vf)
		model, _ := vf["model"].(map[string]interface{})
		if model == nil {
			return false, "no model"
		}
		// saved realisations from an earlier run are replayed as they are
		var sources []string
		if saved, ok := vf["realised"].([]interface{}); ok {
			for _, s := range saved {
				if str, ok := s.(string); ok {
					sources = append(sources, str)
				}
			}
		}
		var notes []string
		if len(sources) == 0 {
			category := "decl"
			if tn, ok := model["x#type"].(string); ok {
				switch {
				case exprKinds[tn]:
					category = "expr"
				case stmtKinds[tn]:
					category = "stmt"
				}
			} else if _, ok := model["x.List#len"]; ok {
				category = "block"
			}
			root := "x"
			if _, ok := model["file#nil"]; ok {
				root, category = "file", "file"
			} else if _, ok := model["file.Decls#len"]; ok {
				root, category = "file", "file"
			}
			sources, notes = realise(model, specView(), root, category, 40)
			sources = append(sources, realiseComments(model)...)
		}
		ctxWrite := v.Kind == "write" && strings.Contains(v.Msg, "protected context.")
		if ctxWrite {
			// a write to the shared context: next to the realisations of the model, the
			// checker is run on programs whose types go/types cannot size (the
			// situations in which the size-related code takes its recovery paths)
			sources = append(sources, hardToSizeProgram)
		}
		if len(sources) == 0 {
			return false, "not realised: " + strings.Join(notes, "; ")
		}
		params := map[string]interface{}{}
		for k, val := range model {
			if strings.HasPrefix(k, "param.") {
				name := strings.TrimPrefix(k, "param.")
				name = strings.TrimSuffix(strings.TrimSuffix(strings.TrimSuffix(name, "?i"), "?b"), "?s")
				params[name] = val
			}
		}
		if os.Getenv("GSX_DEBUG_REALISE") != "" {
			for i, s := range sources {
				fmt.Fprintf(os.Stderr, "---- realisation %d\n%s\n", i, s)
			}
		}
		results, err := runRealised(checker, params, sources, "")
		if err != nil {
			return false, err.Error()
		}
		confirmed := -1
		detail := ""
		for i, r := range results {
			switch v.Kind {
			case "panic":
				if r.Status == "PANIC" {
					confirmed, detail = i, "native panic in the real checker: "+r.Detail
				}
			case "write":
				if r.Status == "OK" && r.Mutated && !ctxWrite {
					confirmed, detail = i, "the real checker changed the syntax tree it was given"
				}
				if r.Status == "OK" && r.CtxChanged != "" && ctxWrite {
					confirmed, detail = i, r.CtxChanged
				}
			case "assert":
				if strings.HasPrefix(v.Msg, "pos:") && r.Status == "OK" && i < len(sources) {
					if bad := badDiagnostic(sources[i], r.JSON); bad != "" {
						confirmed, detail = i, bad
					}
				}
				if strings.HasPrefix(v.Msg, "claim:") && r.Status == "OK" && i < len(sources) && r.Warnings > 0 {
					if bad := badIdentityClaim(sources[i], r.JSON); bad != "" {
						confirmed, detail = i, bad
					}
				}
				if strings.HasPrefix(v.Msg, "suggest:") && r.Status == "OK" && i < len(sources) && r.Warnings > 0 {
					bad, fixed, offs := badSuggestion(checker, sources[i], r.JSON)
					if bad == "" {
						bad = stillReported(checker, params, fixed, offs)
					}
					if bad != "" {
						confirmed, detail = i, bad
					}
				}
			}
			if confirmed >= 0 {
				break
			}
		}
		if confirmed < 0 {
			st := map[string]int{}
			why := ""
			for _, r := range results {
				st[r.Status]++
				if r.Status == "SKIP" && why == "" {
					why = " first skip: " + r.Detail
				}
			}
			if os.Getenv("GSX_DEBUG_REALISE") != "" {
				for i, s := range sources {
					if i < 4 {
						fmt.Fprintf(os.Stderr, "--- realisation %d\n%s\n", i, s)
					}
				}
			}
			return false, fmt.Sprintf("%d realisations ran without reproducing (%v)%s", len(results), st, why)
		}
		vf["realised"] = []string{sources[confirmed]}
		vf["checker"] = checker
		out, _ := json.MarshalIndent(vf, "", " ")
		os.WriteFile(file, out, 0o644)
		return true, detail + "\n" + sources[confirmed]
	}
}

// realiseComments builds source files from the comment groups of a model
// (file.Comments[i].List[j].Text, or a single group rooted at x).
func realiseComments(model map[string]interface{}) []string {
	text := func(key string) string {
		if s, ok := model[key+"?s"].(string); ok && s != "" {
			return s
		}
		return "// gsx"
	}
	num := func(key string) int {
		if s, ok := model[key].(string); ok {
			n := 0
			fmt.Sscan(s, &n)
			return n
		}
		return -1
	}
	var groups [][]string
	if n := num("file.Comments#len"); n > 0 {
		for i := 0; i < n; i++ {
			m := num(fmt.Sprintf("file.Comments[%d].List#len", i))
			if m < 1 {
				m = 1
			}
			var g []string
			for j := 0; j < m; j++ {
				g = append(g, text(fmt.Sprintf("file.Comments[%d].List[%d].Text", i, j)))
			}
			groups = append(groups, g)
		}
	} else if m := num("x.List#len"); m > 0 {
		if _, isComment := model["x.List[0].Text?s"]; isComment {
			var g []string
			for j := 0; j < m; j++ {
				g = append(g, text(fmt.Sprintf("x.List[%d].Text", j)))
			}
			groups = append(groups, g)
		}
	}
	if len(groups) == 0 {
		return nil
	}
	var top, local strings.Builder
	for _, g := range groups {
		for _, c := range g {
			top.WriteString(c + "\n")
			local.WriteString("\t" + c + "\n")
		}
		top.WriteString("\n")
		local.WriteString("\n")
	}
	var eof []string
	for _, g := range groups {
		for _, c := range g {
			// each comment as the very last bytes of the file (no final newline)
			eof = append(eof, "package cand\n\nfunc gsxF() {}\n\n"+c)
		}
	}
	return append(eof,
		"package cand\n\nfunc gsxF() {}\n\n"+strings.TrimRight(top.String(), "\n"), // the file ends with the comment group, no final newline
		"package cand\n\n"+top.String()+"func gsxF() {}\n",
		"package cand\n\nfunc gsxF() {\n"+local.String()+"}\n",
		"package cand\n\nfunc gsxF() {\n\t_ = 1\n"+local.String()+"\t_ = 2\n}\n",
	)
}

// badDiagnostic checks the diagnostics the real checker produced on a
// realised program against C07: valid position inside the file, at the start
// of a token or comment; fix range non-inverted and inside the file; message
// non-empty and free of formatting-failure artefacts.
func badDiagnostic(src, wsJSON string) string {
	var ws []struct {
		Pos, Text string
		Valid     bool
		From, To  int
		HasFix    bool
		Offset    int
	}
	if err := json.Unmarshal([]byte(wsJSON), &ws); err != nil {
		return ""
	}
	starts := map[int]bool{}
	fset := token.NewFileSet()
	file := fset.AddFile("cand.go", -1, len(src))
	var sc scanner.Scanner
	sc.Init(file, []byte(src), nil, scanner.ScanComments)
	for {
		pos, tok, lit := sc.Scan()
		if tok == token.EOF {
			break
		}
		if tok == token.SEMICOLON && lit == "\n" {
			continue
		}
		starts[file.Offset(pos)] = true
	}
	for _, w := range ws {
		switch {
		case !w.Valid:
			return fmt.Sprintf("diagnostic %q has position %s: not a valid position inside the analysed file", w.Text, w.Pos)
		case !starts[w.Offset]:
			return fmt.Sprintf("diagnostic %q at %s (offset %d) does not start at a token or comment of the file", w.Text, w.Pos, w.Offset)
		case w.Text == "":
			return "diagnostic with an empty message at " + w.Pos
		case strings.Contains(w.Text, "%!") || strings.Contains(w.Text, "<nil>"):
			return fmt.Sprintf("diagnostic message with a formatting artefact: %q", w.Text)
		}
		if w.HasFix {
			// the file set of the native run holds only this file, base 1
			from, to := w.From-1, w.To-1
			if w.From == 0 || w.To == 0 || from > to || from < 0 || to > len(src) {
				return fmt.Sprintf("diagnostic %q has fix range [%d,%d) outside the %d-byte file or inverted", w.Text, from, to, len(src))
			}
		}
	}
	return ""
}

// replayThreshold: realise the input, run the real checker under the two
// thresholds of the model, confirm if the relaxed one reports more.
func replayThreshold(checker, param string) func(rc *runCtx, h *harness, v *interp.Violation, file string) (bool, string) {
	return func(rc *runCtx, h *harness, v *interp.Violation, file string) (bool, string) {
		data, err := os.ReadFile(file)
		if err != nil {
			return false, err.Error()
		}
		var vf map[string]interface{}
		json.Unmarshal(data, &vf)
		model, _ := vf["model"].(map[string]interface{})
		if model == nil {
			return false, "no model"
		}
		category := "decl"
		if tn, ok := model["x#type"].(string); ok {
			switch {
			case exprKinds[tn]:
				category = "expr"
			case stmtKinds[tn]:
				category = "stmt"
			}
		} else if _, ok := model["x.List#len"]; ok {
			category = "block"
		}
		sources, notes := realise(model, specView(), "x", category, 16)
		sources = append(sources, realiseComments(model)...)
		if len(sources) == 0 {
			return false, "not realised: " + strings.Join(notes, "; ")
		}
		num := func(k string) float64 {
			switch x := model[k].(type) {
			case float64:
				return x
			case string:
				var f float64
				fmt.Sscan(x, &f)
				return f
			}
			return 0
		}
		t1, t2 := num("t1?i"), num("t2?i")
		r1, err := runRealised(checker, map[string]interface{}{param: t1}, sources, "")
		if err != nil {
			return false, err.Error()
		}
		r2, err := runRealised(checker, map[string]interface{}{param: t2}, sources, "")
		if err != nil {
			return false, err.Error()
		}
		for i := range r1 {
			if i < len(r2) && r1[i].Status == "OK" && r2[i].Status == "OK" && r2[i].Warnings > r1[i].Warnings {
				vf["realised"] = []string{sources[i]}
				out, _ := json.MarshalIndent(vf, "", " ")
				os.WriteFile(file, out, 0o644)
				return true, fmt.Sprintf("real checker: %d diagnostics at %s=%v but %d at the relaxed %s=%v\n%s", r1[i].Warnings, param, t1, r2[i].Warnings, param, t2, sources[i])
			}
		}
		return false, fmt.Sprintf("%d realisations: relaxed threshold never reported more", len(r1))
	}
}

// replayBoundary: the realised program is run under every threshold 0..16;
// the largest threshold that still reports must be the documented measure,
// which the native side computes independently: statements of the if body /
// result count - 1 / parameter size.
func replayBoundary(checker, param string) func(rc *runCtx, h *harness, v *interp.Violation, file string) (bool, string) {
	return func(rc *runCtx, h *harness, v *interp.Violation, file string) (bool, string) {
		data, err := os.ReadFile(file)
		if err != nil {
			return false, err.Error()
		}
		var vf map[string]interface{}
		json.Unmarshal(data, &vf)
		model, _ := vf["model"].(map[string]interface{})
		category := "decl"
		if tn, ok := model["x#type"].(string); ok {
			switch {
			case exprKinds[tn]:
				category = "expr"
			case stmtKinds[tn]:
				category = "stmt"
			}
		}
		sources, notes := realise(model, specView(), "x", category, 6)
		if len(sources) == 0 {
			return false, "not realised: " + strings.Join(notes, "; ")
		}
		// flip point of the real checker per source
		flip := make([]int, len(sources))
		for i := range flip {
			flip[i] = -1
		}
		for t := 0; t <= 12; t++ {
			rs, err := runRealised(checker, map[string]interface{}{param: float64(t)}, sources, "")
			if err != nil {
				return false, err.Error()
			}
			for i, r := range rs {
				if i < len(flip) && r.Status == "OK" && r.Warnings > 0 {
					flip[i] = t
				}
			}
		}
		for i, src := range sources {
			want, ok := nativeMeasure(checker, src)
			if !ok || flip[i] < 0 || flip[i] >= 12 {
				continue
			}
			if flip[i] != want {
				vf["realised"] = []string{src}
				out, _ := json.MarshalIndent(vf, "", " ")
				os.WriteFile(file, out, 0o644)
				return true, fmt.Sprintf("real checker reports up to %s=%d but the documented boundary for this construct is %d\n%s", param, flip[i], want, src)
			}
		}
		return false, fmt.Sprintf("real checker flips at the documented boundary on all realisations (flip points %v; first source: %s)", flip, strings.ReplaceAll(sources[0], "\n", "⏎"))
	}
}

// nativeMeasure computes the documented measure of the construct in src.
func nativeMeasure(checker, src string) (int, bool) {
	fset := token.NewFileSet()
	f, err := parser.ParseFile(fset, "cand.go", src, 0)
	if err != nil {
		return 0, false
	}
	res, found := 0, false
	ast.Inspect(f, func(n ast.Node) bool {
		switch checker {
		case "nestingReduce":
			var body []ast.Stmt
			switch s := n.(type) {
			case *ast.ForStmt:
				body = s.Body.List
			case *ast.RangeStmt:
				body = s.Body.List
			}
			if len(body) == 1 {
				if ifs, ok := body[0].(*ast.IfStmt); ok && ifs.Else == nil && !found {
					res, found = len(ifs.Body.List), true
				}
			}
		case "tooManyResultsChecker":
			if fd, ok := n.(*ast.FuncDecl); ok && fd.Type.Results != nil && !found {
				k := 0
				for _, fl := range fd.Type.Results.List {
					if len(fl.Names) == 0 {
						k++
					} else {
						k += len(fl.Names)
					}
				}
				res, found = k-1, true
			}
		}
		return true
	})
	return res, found
}

func modelCategory(model map[string]interface{}, root string) string {
	if tn, ok := model[root+"#type"].(string); ok {
		switch {
		case exprKinds[tn]:
			return "expr"
		case stmtKinds[tn]:
			return "stmt"
		}
	}
	if _, ok := model[root+".Decls#len"]; ok {
		return "file"
	}
	if _, ok := model[root+".List#len"]; ok {
		if _, isc := model[root+".List[0].Text?s"]; !isc {
			return "block"
		}
	}
	return "decl"
}

// replayRelational realises the inputs of a relational harness and lets the
// native test compare the real checker's diagnostics (history / locality / repetition).
func replayRelational(checker, mode string) func(rc *runCtx, h *harness, v *interp.Violation, file string) (bool, string) {
	return func(rc *runCtx, h *harness, v *interp.Violation, file string) (bool, string) {
		data, err := os.ReadFile(file)
		if err != nil {
			return false, err.Error()
		}
		var vf map[string]interface{}
		json.Unmarshal(data, &vf)
		model, _ := vf["model"].(map[string]interface{})
		if model == nil {
			return false, "no model"
		}
		pick := func(roots ...string) string {
			for _, r := range roots {
				for k := range model {
					if strings.HasPrefix(k, r+"#") || strings.HasPrefix(k, r+".") {
						return r
					}
				}
			}
			return roots[0]
		}
		var xs, ys []string
		var notes []string
		switch mode {
		case "history":
			xr, yr := pick("x", "file"), pick("y", "yfile")
			xs, notes = realise(model, specView(), xr, modelCategory(model, xr), 4)
			xs = append(xs, realiseCommentsRoot(model, xr)...)
			var n2 []string
			ys, n2 = realise(model, specView(), yr, modelCategory(model, yr), 4)
			ys = append(ys, realiseCommentsRoot(model, yr)...)
			notes = append(notes, n2...)
		case "local":
			xs, notes = realise(model, specView(), "d1", "decl", 3)
			var n2 []string
			ys, n2 = realise(model, specView(), "d2", "decl", 3)
			notes = append(notes, n2...)
			// comment groups the harness placed inside the declarations (comment-walking checkers)
			inject := func(srcs []string, root string) []string {
				n := 0
				if v, ok := model[root+".List#len"].(string); ok {
					fmt.Sscan(v, &n)
				}
				if n == 0 {
					return srcs
				}
				var lines []string
				for j := 0; j < n; j++ {
					t, _ := model[fmt.Sprintf("%s.List[%d].Text?s", root, j)].(string)
					if t == "" {
						t = "// gsx"
					}
					lines = append(lines, "\t"+t)
				}
				var out []string
				for _, src := range srcs {
					if i := strings.Index(src, "{\n"); i >= 0 {
						out = append(out, src[:i+2]+strings.Join(lines, "\n")+"\n"+src[i+2:])
					} else {
						out = append(out, src)
					}
				}
				return out
			}
			xs = inject(xs, "c1")
			ys = inject(ys, "c2")
			// both realisations number their invented names from 1: keep them apart in the merged file
			for k := range ys {
				ys[k] = strings.NewReplacer("gsxv", "gsxw", "gsxd", "gsxe", "gsxT_", "gsxU_").Replace(ys[k])
			}
		case "repeat":
			xs, notes = realise(model, specView(), "file", "file", 6)
			ys = []string{""}
		}
		if len(xs) == 0 || len(ys) == 0 {
			return false, "not realised: " + strings.Join(notes, "; ")
		}
		files := map[string]string{}
		n := 0
		for _, x := range xs {
			for _, y := range ys {
				base := fmt.Sprintf("cand%03d", n)
				files[base+"_x.go"] = x
				if mode != "repeat" {
					files[base+"_y.go"] = y
				}
				if mode == "local" {
					files[base+"_xy.go"] = mergeSources(x, y)
				}
				n++
			}
		}
		params := map[string]interface{}{}
		for k, val := range model {
			if strings.HasPrefix(k, "param.") {
				name := strings.TrimPrefix(k, "param.")
				name = strings.TrimSuffix(strings.TrimSuffix(strings.TrimSuffix(name, "?i"), "?b"), "?s")
				params[name] = val
			}
		}
		results, err := runRealisedFiles(checker, params, mode, files)
		if err != nil {
			return false, err.Error()
		}
		st := map[string]int{}
		why := ""
		for _, r := range results {
			st[r.Status]++
			if r.Status == "SKIP" && why == "" {
				why = " first skip: " + r.Detail
			}
			if r.Status == "DIFF" {
				base := strings.TrimSuffix(filepath.Base(r.File), "_x.go")
				keep := []string{files[base+"_x.go"]}
				if s, ok := files[base+"_y.go"]; ok {
					keep = append(keep, s)
				}
				vf["realised"] = keep
				vf["checker"] = checker
				out, _ := json.MarshalIndent(vf, "", " ")
				os.WriteFile(file, out, 0o644)
				return true, "real checker: " + r.Detail
			}
		}
		return false, fmt.Sprintf("%d native comparisons without difference (%v)%s", len(results), st, why)
	}
}

func realiseCommentsRoot(model map[string]interface{}, root string) []string {
	if root == "x" || root == "file" {
		return realiseComments(model)
	}
	// rename the keys of another root to the names realiseComments understands
	m2 := map[string]interface{}{}
	for k, v := range model {
		switch {
		case strings.HasPrefix(k, root+"."):
			m2["x."+strings.TrimPrefix(k, root+".")] = v
		case strings.HasPrefix(k, root+"#"):
			m2["x#"+strings.TrimPrefix(k, root+"#")] = v
		}
	}
	if root == "yfile" {
		m3 := map[string]interface{}{}
		for k, v := range m2 {
			m3["file"+strings.TrimPrefix(k, "x")] = v
		}
		m2 = m3
	}
	return realiseComments(m2)
}

// mergeSources puts the declarations of two candidate files into one file.
func mergeSources(a, b string) string {
	body := func(s string) (imports, rest string) {
		s = strings.TrimPrefix(strings.TrimSpace(s), "package cand")
		for _, line := range strings.Split(s, "\n") {
			if strings.HasPrefix(line, "import ") {
				imports += line + "\n"
			} else {
				rest += line + "\n"
			}
		}
		return
	}
	ia, ra := body(a)
	ib, rb := body(b)
	imps := ia
	for _, l := range strings.Split(ib, "\n") {
		if l != "" && !strings.Contains(ia, l) {
			imps += l + "\n"
		}
	}
	return "package cand\n\n" + imps + "\n" + ra + "\n" + rb
}

var apiSubjects = map[string][2]string{ // checker -> {kind, name}
	"appendAssign": {"builtin", "append"}, "appendCombine": {"builtin", "append"}, "newDeref": {"builtin", "new"}, "rangeAppendAll": {"builtin", "append"},
	"badRegexp": {"pkg", "regexp"}, "regexpPattern": {"pkg", "regexp"}, "regexpSimplify": {"pkg", "regexp"},
	"sortSlice": {"pkg", "sort"}, "filepathJoin": {"pkg", "path/filepath"}, "flagName": {"pkg", "flag"},
}

// replayAPI: realise the model; on each type-correct realisation the native
// side runs the real checker and go/types and reports whether a diagnostic
// sits on a line where the subject's name denotes a user declaration.
func replayAPI(checker string) func(rc *runCtx, h *harness, v *interp.Violation, file string) (bool, string) {
	return func(rc *runCtx, h *harness, v *interp.Violation, file string) (bool, string) {
		data, err := os.ReadFile(file)
		if err != nil {
			return false, err.Error()
		}
		var vf map[string]interface{}
		json.Unmarshal(data, &vf)
		model, _ := vf["model"].(map[string]interface{})
		if model == nil {
			return false, "no model"
		}
		sources, notes := realise(model, specView(), "x", modelCategory(model, "x"), 40)
		if len(sources) == 0 {
			return false, "not realised: " + strings.Join(notes, "; ")
		}
		sub := apiSubjects[checker]
		// variants with a *local* namesake next to a real import of the package:
		// the package-level shadow `var <pkg> gsxT_<pkg>` becomes a parameter of
		// the enclosing function and the file imports (and uses) the real package
		if sub[0] == "pkg" {
			base := sub[1][strings.LastIndex(sub[1], "/")+1:]
			use := map[string]string{"flag": "ErrHelp", "regexp": "MustCompile", "sort": "Ints", "filepath": "Join"}[base]
			shadow := "var " + base + " gsxT_" + base + "\n"
			var extra []string
			for _, src := range sources {
				if use == "" || !strings.Contains(src, shadow) || !strings.Contains(src, "func gsxF() ") {
					continue
				}
				v2 := strings.Replace(src, shadow, "", 1)
				v2 = strings.Replace(v2, "func gsxF() ", "func gsxF("+base+" gsxT_"+base+") ", 1)
				v2 = strings.Replace(v2, "package cand\n", "package cand\n\nimport \""+sub[1]+"\"\n\nvar _ = "+base+"."+use+"\n", 1)
				if ok, _ := typeCheck(v2); ok {
					extra = append(extra, v2)
				}
			}
			sources = append(sources, extra...)
		}
		files := map[string]string{}
		for i, s := range sources {
			files[fmt.Sprintf("cand%03d_x.go", i)] = s
		}
		results, err := runRealisedFiles(checker, map[string]interface{}{"#kind": sub[0], "#name": sub[1]}, "api", files)
		if err != nil {
			return false, err.Error()
		}
		st := map[string]int{}
		for _, r := range results {
			st[r.Status]++
			if r.Status == "DIFF" {
				base := filepath.Base(r.File)
				vf["realised"] = []string{files[base]}
				vf["checker"] = checker
				out, _ := json.MarshalIndent(vf, "", " ")
				os.WriteFile(file, out, 0o644)
				return true, "real checker + go/types: " + r.Detail + "\n" + files[base]
			}
		}
		if os.Getenv("GSX_DEBUG_REALISE") != "" {
			for i, s := range sources {
				if i < 3 || i >= len(sources)-3 {
					fmt.Fprintf(os.Stderr, "--- realisation %d\n%s\n", i, s)
				}
			}
		}
		return false, fmt.Sprintf("%d realisations: no diagnostic on a namesake (%v)", len(results), st)
	}
}

// hardToSizeProgram: arrays of type parameters and struct types local to a
// generic function, in parameter, range-value and range-expression position.
const hardToSizeProgram = `package cand

type gsxMatrix[T any] struct{ rows [][64]T }

func gsxSum[T any](zero T, window [64]T, m gsxMatrix[T]) T {
	for _, w := range window {
		_ = w
	}
	for _, r := range m.rows {
		_ = r
	}
	return zero
}

func gsxPairs[K comparable, V any](keys [32]K, vals [32]V) {
	type pair struct {
		k K
		v V
	}
	var all [32]pair
	for _, p := range all {
		_ = p
	}
	for i, k := range keys {
		_, _ = i, k
	}
	_ = vals
}
`
