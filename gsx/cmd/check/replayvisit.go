package main

import (
	"encoding/json"
	"fmt"
	"os"
	"strings"

	"gsx/interp"
)

var exprKinds = map[string]bool{}
var stmtKinds = map[string]bool{}

func init() {
	for name, t := range astTypes {
		if t.Implements(exprIface) {
			exprKinds[name] = true
		}
		if t.Implements(stmtIface) {
			stmtKinds[name] = true
		}
	}
}

func specView() *lazySpecView {
	lz, err := buildLazySpec()
	if err != nil {
		return nil
	}
	return &lazySpecView{Nullable: lz.Nullable, MinLen: lz.MinLen}
}

// replayVisit realises the model of a visitor harness as Go programs and runs
// the real checker on them natively.
func replayVisit(checker string) func(rc *runCtx, h *harness, v *interp.Violation, file string) (bool, string) {
	return func(rc *runCtx, h *harness, v *interp.Violation, file string) (bool, string) {
		data, err := os.ReadFile(file)
		if err != nil {
			return false, err.Error()
		}
		var vf map[string]interface{}
		json.Unmarshal(data, &vf)
		model, _ := vf["model"].(map[string]interface{})
		if model == nil {
			return false, "no model"
		}
		// saved realisations from an earlier run are replayed as they are
		var sources []string
		if saved, ok := vf["realised"].([]interface{}); ok {
			for _, s := range saved {
				if str, ok := s.(string); ok {
					sources = append(sources, str)
				}
			}
		}
		var notes []string
		if len(sources) == 0 {
			category := "decl"
			if tn, ok := model["x#type"].(string); ok {
				switch {
				case exprKinds[tn]:
					category = "expr"
				case stmtKinds[tn]:
					category = "stmt"
				}
			} else if _, ok := model["x.List#len"]; ok {
				category = "block"
			}
			root := "x"
			if _, ok := model["file#nil"]; ok {
				root, category = "file", "file"
			} else if _, ok := model["file.Decls#len"]; ok {
				root, category = "file", "file"
			}
			sources, notes = realise(model, specView(), root, category, 24)
		}
		if len(sources) == 0 {
			return false, "not realised: " + strings.Join(notes, "; ")
		}
		params := map[string]interface{}{}
		for k, val := range model {
			if strings.HasPrefix(k, "param.") {
				name := strings.TrimPrefix(k, "param.")
				name = strings.TrimSuffix(strings.TrimSuffix(strings.TrimSuffix(name, "?i"), "?b"), "?s")
				params[name] = val
			}
		}
		results, err := runRealised(checker, params, sources, "")
		if err != nil {
			return false, err.Error()
		}
		confirmed := -1
		detail := ""
		for i, r := range results {
			switch v.Kind {
			case "panic":
				if r.Status == "PANIC" {
					confirmed, detail = i, "native panic in the real checker: "+r.Detail
				}
			case "write":
				if r.Status == "OK" && r.Mutated {
					confirmed, detail = i, "the real checker changed the syntax tree it was given"
				}
			}
			if confirmed >= 0 {
				break
			}
		}
		if confirmed < 0 {
			st := map[string]int{}
			for _, r := range results {
				st[r.Status]++
			}
			return false, fmt.Sprintf("%d realisations ran without reproducing (%v)", len(results), st)
		}
		vf["realised"] = []string{sources[confirmed]}
		vf["checker"] = checker
		out, _ := json.MarshalIndent(vf, "", " ")
		os.WriteFile(file, out, 0o644)
		return true, detail + "\n" + sources[confirmed]
	}
}
