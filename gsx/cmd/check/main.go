// Command check decides one property of properties.jsonl by symbolic
// execution of /repo's current working tree (GSX) and SMT solving.
//
//	check <ID> [--tier quick|thorough] [--replay <path>] [-v]
//
// Exit status: 0 property held on everything explored (or only known
// findings); 1 a replayed, unlisted violation ("VIOLATION property=<id>
// replay=<path>"); 2 the check itself is broken (does not load, vacuous
// harness, solver missing, translator validation mismatch).
package main

import (
	"flag"
	"fmt"
	"os"
	"strconv"
	"strings"
	"time"
)

const (
	verifDir = "/verif"
	modPath  = "github.com/go-critic/go-critic"
)

// repoDir is /repo; outDir (evidence, replays) is /verif. For experiments on
// scratch worktrees (seeded changes) both can be redirected with
// VERIF_REPO / VERIF_OUT; the registered commands never set them.
var (
	repoDir = "/repo"
	outDir  = verifDir
)

func init() {
	if v := os.Getenv("VERIF_REPO"); v != "" {
		repoDir = v
	}
	if v := os.Getenv("VERIF_OUT"); v != "" {
		outDir = v
	}
}

type runCtx struct {
	id             string
	tier           string
	seed           int
	verbose        bool
	solver         string
	start          time.Time
	only           string // run only harnesses whose name contains this
	boundsOverride map[string]int
}

func main() {
	if len(os.Args) < 2 {
		fmt.Fprintln(os.Stderr, "usage: check <ID> [--tier quick|thorough] [--replay path] [-v]")
		os.Exit(2)
	}
	id := os.Args[1]
	fs := flag.NewFlagSet("check", flag.ExitOnError)
	tier := fs.String("tier", "quick", "quick or thorough")
	replay := fs.String("replay", "", "replay a counterexample file natively")
	verbose := fs.Bool("v", false, "verbose")
	solver := fs.String("solver", "", "override solver (cvc5, z3, z3-new)")
	only := fs.String("only", "", "run only harnesses whose name contains this string")
	boundsFlag := fs.String("bounds", "", "override bounds, e.g. strlen=6,paths=100 (experiments only)")
	fs.Parse(os.Args[2:])
	if t := os.Getenv("VERIF_TIER"); t != "" {
		*tier = t
	}
	seed := 0
	if s := os.Getenv("VERIF_SEED"); s != "" {
		seed, _ = strconv.Atoi(s)
	}
	rc := &runCtx{id: id, tier: *tier, seed: seed, verbose: *verbose, solver: *solver, start: time.Now(), only: *only}
	rc.boundsOverride = map[string]int{}
	for _, kv := range strings.Split(*boundsFlag, ",") {
		if i := strings.IndexByte(kv, '='); i > 0 {
			n, _ := strconv.Atoi(kv[i+1:])
			rc.boundsOverride[kv[:i]] = n
		}
	}
	if *replay != "" {
		os.Exit(replayFile(rc, *replay))
	}
	spec, ok := properties[strings.ToUpper(id)]
	if !ok {
		fmt.Fprintf(os.Stderr, "unknown property %s\n", id)
		os.Exit(2)
	}
	rc.id = strings.ToUpper(id)
	os.Exit(runProperty(rc, spec))
}
