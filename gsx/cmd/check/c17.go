package main

import (
	"bytes"
	"fmt"
	"os"
	"os/exec"
	"path/filepath"
	"strings"
	"time"
)

// ---- C17 (a): the shipped rule data is equivalent to the rule source compiled now.
//
// Both IRs are produced natively from /repo's current tree (the shipped one is
// rulesdata.PrecompiledRules, the fresh one is rules/rules.go put through the
// same parse / type-check / irconv steps as rules/precompile.go). Rules are
// paired by group and position; patterns, templates and group documentation
// are compared as text, the Where filters by the solver: both filters are
// rendered over the same propositional atoms (leaf filters, by source text)
// and the configured Go version, and z3 is asked for an assignment on which
// they differ. A difference is confirmed by running the repository's own
// generator and comparing its output with the shipped file.
func runC17Data(rc *runCtx, ev *evidence) (int, bool) {
	t0 := time.Now()
	shipped, err1 := dumpRuleIRFrom("TestGSXDumpIR")
	fresh, err2 := dumpRuleIRFrom("TestGSXCompileIR")
	if err1 != nil || err2 != nil {
		fmt.Println("BROKEN: cannot produce the two rule IRs:", err1, err2)
		ev.Broken = append(ev.Broken, fmt.Sprint(err1, err2))
		return 0, true
	}
	stats := map[string]int{}
	var diffs []string
	byGroup := func(rs []irRule) (map[string][]irRule, []string) {
		m := map[string][]irRule{}
		var order []string
		for _, r := range rs {
			if _, ok := m[r.Group]; !ok {
				order = append(order, r.Group)
			}
			m[r.Group] = append(m[r.Group], r)
		}
		return m, order
	}
	sm, sorder := byGroup(shipped)
	fm, forder := byGroup(fresh)
	if strings.Join(sorder, ",") != strings.Join(forder, ",") {
		diffs = append(diffs, fmt.Sprintf("the rule groups differ: shipped %d groups, source %d groups (first difference: %s)", len(sorder), len(forder), firstDiff(sorder, forder)))
	}
	var solverTime time.Duration
	for _, g := range forder {
		a, b := sm[g], fm[g]
		if len(a) == 0 {
			continue
		}
		if len(a) != len(b) {
			diffs = append(diffs, fmt.Sprintf("group %s: shipped data has %d rules, the source %d", g, len(a), len(b)))
			continue
		}
		for k := range a {
			x, y := a[k], b[k]
			stats["rules compared"]++
			if x.Doc != y.Doc {
				diffs = append(diffs, fmt.Sprintf("group %s: documentation differs: shipped %s, source %s", g, x.Doc, y.Doc))
			}
			if strings.Join(x.Patterns, "\x00") != strings.Join(y.Patterns, "\x00") || strings.Join(x.Comments, "\x00") != strings.Join(y.Comments, "\x00") {
				diffs = append(diffs, fmt.Sprintf("group %s rule %d (rules.go:%d): patterns differ: shipped %q, source %q", g, k, y.Line, x.Patterns, y.Patterns))
			}
			if x.Report != y.Report || x.Suggest != y.Suggest || x.Location != y.Location || x.Do != y.Do {
				diffs = append(diffs, fmt.Sprintf("group %s rule %d (rules.go:%d): report/suggest/location differ: shipped %q/%q, source %q/%q", g, k, y.Line, x.Report, x.Suggest, y.Report, y.Suggest))
			}
			// filters: equivalence over shared atoms
			atoms := map[string]string{}
			var order []string
			fa, e1 := filterSMT(x.Where, atoms, &order)
			fb, e2 := filterSMT(y.Where, atoms, &order)
			if e1 != nil || e2 != nil {
				stats["filter not encoded"]++
				ev.Broken = append(ev.Broken, fmt.Sprintf("%s rule %d: %v %v", g, k, e1, e2))
				continue
			}
			if fa == fb {
				stats["filters identical"]++
				continue
			}
			var sb strings.Builder
			sb.WriteString("(set-logic ALL)\n(declare-const major Int)\n(declare-const minor Int)\n(declare-const unset Bool)\n(assert (>= major 0))\n(assert (>= minor 0))\n")
			var names []string
			for _, src := range order {
				fmt.Fprintf(&sb, "(declare-const %s Bool)\n", atoms[src])
				names = append(names, atoms[src])
			}
			fmt.Fprintf(&sb, "(assert (xor %s %s))\n(check-sat)\n(get-value (unset major minor %s))\n", fa, fb, strings.Join(names, " "))
			t := time.Now()
			v, text := runSolverOnce("z3", sb.String(), 20)
			solverTime += time.Since(t)
			stats["filter query:"+v]++
			switch v {
			case "unsat":
			case "sat":
				var on []string
				for _, src := range order {
					if strings.Contains(text, "("+atoms[src]+" true)") {
						on = append(on, src)
					}
				}
				diffs = append(diffs, fmt.Sprintf("group %s rule %d (rules.go:%d): the shipped filter `%s` and the source's `%s` differ, e.g. when exactly these hold: %s; assignment %s",
					g, k, y.Line, x.Where.Src, y.Where.Src, strings.Join(on, " ; "), strings.Join(strings.Fields(text), " ")))
			default:
				ev.Broken = append(ev.Broken, fmt.Sprintf("%s rule %d: solver answered %s", g, k, v))
			}
		}
	}
	rc.logf("C17 data: %d shipped / %d compiled rules; %v (%.1fs)", len(shipped), len(fresh), stats, time.Since(t0).Seconds())
	ev.ExtraCoverage["rules_compared"] = stats["rules compared"]
	ev.ExtraCoverage["filter_queries"] = stats
	ev.ExtraCoverage["filter_solver_seconds"] = solverTime.Seconds()
	if len(diffs) == 0 {
		return 0, false
	}
	// native confirmation: the repository's generator
	ok, detail := regenerateDiffers()
	ev.TracesValidated++
	if !ok {
		for _, d := range diffs {
			fmt.Printf("unconfirmed candidate C17 data: %s [%s]\n", d, detail)
		}
		return 0, false
	}
	dir := filepath.Join(outDir, "replays", "C17")
	os.MkdirAll(dir, 0o755)
	file := filepath.Join(dir, "rulesdata-differs.txt")
	os.WriteFile(file, []byte(strings.Join(diffs, "\n")+"\n\n"+detail+"\n"), 0o644)
	fmt.Printf("VIOLATION property=C17 replay=%s\n  the shipped rule data is not what compiling rules/rules.go produces: %s\n  %s\n", file, diffs[0], detail)
	if len(diffs) > 1 {
		fmt.Printf("  (%d differences in all, see the replay file)\n", len(diffs))
	}
	ev.Violations++
	return 1, false
}

func firstDiff(a, b []string) string {
	for i := 0; i < len(a) || i < len(b); i++ {
		x, y := "-", "-"
		if i < len(a) {
			x = a[i]
		}
		if i < len(b) {
			y = b[i]
		}
		if x != y {
			return x + " vs " + y
		}
	}
	return ""
}

// regenerateDiffers runs rules/precompile.go on /repo's rules.go into a scratch
// file and compares it with the shipped checkers/rulesdata/rulesdata.go.
func regenerateDiffers() (bool, string) {
	tmp, err := os.MkdirTemp("", "gsx-regen-")
	if err != nil {
		return false, err.Error()
	}
	defer os.RemoveAll(tmp)
	out := filepath.Join(tmp, "rulesdata.go")
	cmd := exec.Command("go", "run", "./rules/precompile.go", "-rules", "./rules/rules.go", "-o", out)
	cmd.Dir = filepath.Join(repoDir, "checkers")
	cmd.Env = append(os.Environ(), "GOFLAGS=-mod=mod", "GOPROXY=off", "GOSUMDB=off", "GOTOOLCHAIN=local")
	if msg, err := cmd.CombinedOutput(); err != nil {
		return false, "generator failed: " + lastLines(string(msg), 3)
	}
	a, err1 := os.ReadFile(out)
	b, err2 := os.ReadFile(filepath.Join(repoDir, "checkers", "rulesdata", "rulesdata.go"))
	if err1 != nil || err2 != nil {
		return false, fmt.Sprint(err1, err2)
	}
	if bytes.Equal(a, b) {
		return false, "the repository's generator reproduces the shipped file byte for byte"
	}
	la, lb := strings.Split(string(a), "\n"), strings.Split(string(b), "\n")
	for i := 0; i < len(la) && i < len(lb); i++ {
		if la[i] != lb[i] {
			return true, fmt.Sprintf("`go run ./rules/precompile.go` output differs from checkers/rulesdata/rulesdata.go from line %d: generated %q, shipped %q", i+1, strings.TrimSpace(la[i]), strings.TrimSpace(lb[i]))
		}
	}
	return true, fmt.Sprintf("generated file has %d lines, shipped %d", len(la), len(lb))
}
