package main

// gosem: a small symbolic semantics of Go expressions and simple statements,
// rendered as SMT-LIB terms. It is what RuleTV (ruletv.go) uses to decide,
// for a program on which the real rule engine reported, whether the reported
// code and the suggested code compute the same thing for every run-time value
// of the operands, or whether a claimed run-time fact holds in every execution.
//
// Value domains: integers are mathematical (the property lets integer
// reasoning assume no overflow), strings and byte slices are SMT strings over
// printable ASCII, []int-like slices / arrays are a length plus an
// uninterpreted element function, maps are a size plus an uninterpreted
// look-up, time.Time is (seconds, nanoseconds). A call of a function declared
// in the candidate file (fi, fs, ... or a user-declared namesake of a
// builtin) is an event: its k-th call returns the k-th value of a symbolic
// stream, and the sequence of events is part of the compared behaviour.
// Anything outside the fragment makes the obligation "not encoded".

import (
	"fmt"
	"go/ast"
	"go/constant"
	"go/token"
	"go/types"
	"sort"
	"strconv"
	"strings"
)

type semVal struct {
	Sort string // Int String Bytes Bool Slice Map Time Float
	T    string // scalar term
	Len  string // Slice/Map
	At   func(i string) string
	Nil  string // Bool term: a nil pointer to array (indexing panics)
	Sec  string
	Nsec string
}

type semCall struct {
	Fn    string
	Guard string
}

type semShared struct {
	decls   map[string]string // name -> declaration line
	order   []string
	asserts []string
	scalars map[string]string // name -> sort, for get-value
	slices  map[string]string // element function name -> owning Go variable
}

func newSemShared() *semShared {
	return &semShared{decls: map[string]string{}, scalars: map[string]string{}, slices: map[string]string{}}
}

func (s *semShared) declare(name, sort string) {
	if _, ok := s.decls[name]; ok {
		return
	}
	s.decls[name] = fmt.Sprintf("(declare-const %s %s)", name, sort)
	s.order = append(s.order, name)
	s.scalars[name] = sort
}

func (s *semShared) declareFun(name, sig string) {
	if _, ok := s.decls[name]; ok {
		return
	}
	s.decls[name] = fmt.Sprintf("(declare-fun %s %s)", name, sig)
	s.order = append(s.order, name)
}

func (s *semShared) assert(a string) { s.asserts = append(s.asserts, a) }

func (s *semShared) script() string {
	var sb strings.Builder
	sb.WriteString("(set-logic ALL)\n")
	for _, n := range s.order {
		sb.WriteString(s.decls[n] + "\n")
	}
	for _, a := range s.asserts {
		sb.WriteString("(assert " + a + ")\n")
	}
	return sb.String()
}

type semCtx struct {
	sh     *semShared
	info   *types.Info
	pkg    *types.Package
	panics []string
	calls  []semCall
	guard  string
	callN  map[string]int
	state  map[string]semVal
	bad    string // first unsupported construct
}

func newSemCtx(sh *semShared, info *types.Info, pkg *types.Package) *semCtx {
	return &semCtx{sh: sh, info: info, pkg: pkg, guard: "true", callN: map[string]int{}, state: map[string]semVal{}}
}

func (c *semCtx) unsupported(format string, a ...interface{}) semVal {
	if c.bad == "" {
		c.bad = fmt.Sprintf(format, a...)
	}
	return semVal{Sort: "Bad"}
}

func (c *semCtx) panicIf(cond string) {
	if c.guard == "true" {
		c.panics = append(c.panics, cond)
	} else {
		c.panics = append(c.panics, "(and "+c.guard+" "+cond+")")
	}
}

func (c *semCtx) panicTerm() string {
	if len(c.panics) == 0 {
		return "false"
	}
	return "(or " + strings.Join(c.panics, " ") + " false)"
}

func abs64(n int64) int64 {
	if n < 0 {
		return -n
	}
	return n
}

func smtInt(n int64) string {
	if n < 0 {
		return fmt.Sprintf("(- %d)", -n)
	}
	return fmt.Sprintf("%d", n)
}

func smtString(s string) string {
	var sb strings.Builder
	sb.WriteByte('"')
	for i := 0; i < len(s); i++ {
		ch := s[i]
		switch {
		case ch == '"':
			sb.WriteString(`""`)
		case ch == '\\' || ch < 0x20 || ch > 0x7e:
			fmt.Fprintf(&sb, `\u{%x}`, ch)
		default:
			sb.WriteByte(ch)
		}
	}
	sb.WriteByte('"')
	return sb.String()
}

// sortOf maps a Go type to a value domain ("" = outside the fragment).
func sortOf(t types.Type) string {
	if n, ok := t.(*types.Named); ok && n.Obj().Pkg() != nil && n.Obj().Pkg().Path() == "time" && n.Obj().Name() == "Time" {
		return "Time"
	}
	switch u := t.Underlying().(type) {
	case *types.Basic:
		switch {
		case u.Info()&types.IsInteger != 0:
			return "Int"
		case u.Info()&types.IsString != 0:
			return "String"
		case u.Info()&types.IsBoolean != 0:
			return "Bool"
		case u.Info()&types.IsFloat != 0:
			return "Float"
		}
	case *types.Slice:
		if b, ok := u.Elem().Underlying().(*types.Basic); ok {
			if b.Kind() == types.Uint8 {
				return "Bytes"
			}
			if b.Info()&types.IsInteger != 0 {
				return "Slice"
			}
		}
	case *types.Array:
		if b, ok := u.Elem().Underlying().(*types.Basic); ok && b.Info()&types.IsInteger != 0 {
			return "Slice"
		}
	case *types.Pointer:
		if n, ok := u.Elem().(*types.Named); ok && n.Obj().Pkg() != nil && n.Obj().Pkg().Path() == "time" && n.Obj().Name() == "Time" {
			return "Time"
		}
		if a, ok := u.Elem().Underlying().(*types.Array); ok {
			if b, ok := a.Elem().Underlying().(*types.Basic); ok && b.Info()&types.IsInteger != 0 {
				return "Slice"
			}
		}
		return "Ref" // any other pointer: an opaque identity (0 = nil)
	case *types.Interface, *types.Chan, *types.Signature:
		return "Ref"
	case *types.Map:
		k, ok1 := u.Key().Underlying().(*types.Basic)
		v, ok2 := u.Elem().Underlying().(*types.Basic)
		if ok1 && ok2 && k.Info()&types.IsInteger != 0 && v.Info()&types.IsInteger != 0 {
			return "Map"
		}
	}
	return ""
}

const semMaxLen = 4 // slices, maps and strings of the inputs have at most this many elements (a stated bound)

// symbol returns the symbolic input value named name of Go type t.
func (c *semCtx) symbol(name string, t types.Type) semVal {
	n := "v_" + strings.NewReplacer(".", "_", "*", "p_", "[", "_", "]", "_").Replace(name)
	switch sortOf(t) {
	case "Int":
		c.sh.declare(n, "Int")
		if b, ok := t.Underlying().(*types.Basic); ok && b.Info()&types.IsUnsigned != 0 {
			c.sh.assert("(>= " + n + " 0)")
			if b.Kind() == types.Uint8 {
				c.sh.assert("(<= " + n + " 255)")
			}
		}
		return semVal{Sort: "Int", T: n}
	case "Bool":
		c.sh.declare(n, "Bool")
		return semVal{Sort: "Bool", T: n}
	case "Float":
		c.sh.declare(n, "(_ FloatingPoint 11 53)")
		return semVal{Sort: "Float", T: n}
	case "String", "Bytes":
		first := c.sh.decls[n] == ""
		c.sh.declare(n, "String")
		if first {
			c.sh.assert(fmt.Sprintf("(<= (str.len %s) %d)", n, semMaxLen))
			c.sh.assert(fmt.Sprintf(`(str.in_re %s (re.* (re.range " " "~")))`, n))
		}
		return semVal{Sort: sortOf(t), T: n}
	case "Slice":
		at := n + "_at"
		c.sh.declareFun(at, "(Int) Int")
		c.sh.slices[at] = name
		v := semVal{Sort: "Slice", At: func(i string) string { return "(" + at + " " + i + ")" }}
		under := t.Underlying()
		if p, ok := under.(*types.Pointer); ok {
			c.sh.declare(n+"_nil", "Bool")
			v.Nil = n + "_nil"
			under = p.Elem().Underlying()
		}
		if a, ok := under.(*types.Array); ok {
			v.Len = fmt.Sprint(a.Len())
		} else {
			first := c.sh.decls[n+"_len"] == ""
			c.sh.declare(n+"_len", "Int")
			if first {
				c.sh.assert(fmt.Sprintf("(and (>= %s_len 0) (<= %s_len %d))", n, n, semMaxLen))
			}
			v.Len = n + "_len"
		}
		return v
	case "Map":
		get := n + "_get"
		c.sh.declareFun(get, "(Int) Int")
		c.sh.slices[get] = name
		first := c.sh.decls[n+"_len"] == ""
		c.sh.declare(n+"_len", "Int")
		if first {
			c.sh.assert(fmt.Sprintf("(and (>= %s_len 0) (<= %s_len %d))", n, n, semMaxLen))
		}
		return semVal{Sort: "Map", Len: n + "_len", At: func(i string) string { return "(" + get + " " + i + ")" }}
	case "Ref":
		c.sh.declare(n+"_ref", "Int")
		return semVal{Sort: "Ref", T: n + "_ref"}
	case "Time":
		first := c.sh.decls[n+"_sec"] == ""
		c.sh.declare(n+"_sec", "Int")
		c.sh.declare(n+"_nsec", "Int")
		if first {
			c.sh.assert(fmt.Sprintf("(and (>= %s_nsec 0) (< %s_nsec 1000000000) (>= %s_sec (- 100000)) (<= %s_sec 4000000000))", n, n, n, n))
		}
		return semVal{Sort: "Time", Sec: n + "_sec", Nsec: n + "_nsec"}
	}
	return c.unsupported("a value of type %s", t)
}

// zeroValue is the zero value of a Go type in its value domain.
func (c *semCtx) zeroValue(t types.Type) semVal {
	zero := func(string) string { return "0" }
	switch sortOf(t) {
	case "Int":
		return semVal{Sort: "Int", T: "0"}
	case "String":
		return semVal{Sort: "String", T: `""`}
	case "Bytes":
		return semVal{Sort: "Bytes", T: `""`}
	case "Bool":
		return semVal{Sort: "Bool", T: "false"}
	case "Float":
		return semVal{Sort: "Float", T: "(_ +zero 11 53)"}
	case "Ref":
		return semVal{Sort: "Ref", T: "0"}
	case "Map":
		return semVal{Sort: "Map", Len: "0", At: zero, Nil: "true"}
	case "Slice":
		switch u := t.Underlying().(type) {
		case *types.Array:
			return semVal{Sort: "Slice", Len: fmt.Sprint(u.Len()), At: zero}
		case *types.Slice:
			return semVal{Sort: "Slice", Len: "0", At: zero, Nil: "true"}
		}
	}
	return c.unsupported("the zero value of %s", t)
}

func (c *semCtx) constVal(tv types.TypeAndValue) (semVal, bool) {
	if tv.Value == nil {
		return semVal{}, false
	}
	switch tv.Value.Kind() {
	case constant.Int:
		if n, ok := constant.Int64Val(tv.Value); ok {
			if sortOf(tv.Type) == "Float" {
				if n < 0 {
					return semVal{Sort: "Float", T: fmt.Sprintf("(fp.neg ((_ to_fp 11 53) RNE %d.0))", -n)}, true
				}
				return semVal{Sort: "Float", T: fmt.Sprintf("((_ to_fp 11 53) RNE %d.0)", n)}, true
			}
			return semVal{Sort: "Int", T: smtInt(n)}, true
		}
	case constant.Float:
		if sortOf(tv.Type) == "Float" {
			num, den := constant.Num(tv.Value), constant.Denom(tv.Value)
			if n, ok1 := constant.Int64Val(num); ok1 {
				if d, ok2 := constant.Int64Val(den); ok2 && d > 0 {
					t := fmt.Sprintf("((_ to_fp 11 53) RNE (/ %d.0 %d.0))", abs64(n), d)
					if n < 0 {
						t = "(fp.neg " + t + ")"
					}
					return semVal{Sort: "Float", T: t}, true
				}
			}
		}
	case constant.String:
		return semVal{Sort: "String", T: smtString(constant.StringVal(tv.Value))}, true
	case constant.Bool:
		return semVal{Sort: "Bool", T: fmt.Sprint(constant.BoolVal(tv.Value))}, true
	}
	return semVal{}, false
}

func (c *semCtx) key(e ast.Expr) string { return types.ExprString(e) }

func truncDiv(a, b string) string {
	return fmt.Sprintf("(ite (>= %[1]s 0) (ite (> %[2]s 0) (div %[1]s %[2]s) (- (div %[1]s (- %[2]s)))) (ite (> %[2]s 0) (- (div (- %[1]s) %[2]s)) (div (- %[1]s) (- %[2]s))))", a, b)
}

func (c *semCtx) eval(e ast.Expr) semVal {
	if c.bad != "" {
		return semVal{Sort: "Bad"}
	}
	tv := c.info.Types[e]
	if v, ok := c.constVal(tv); ok {
		return v
	}
	switch e := e.(type) {
	case *ast.ParenExpr:
		return c.eval(e.X)
	case *ast.Ident:
		if e.Name == "nil" {
			if _, isNil := c.info.Uses[e].(*types.Nil); isNil {
				return semVal{Sort: "Nil"}
			}
			return c.unsupported("a user-declared nil")
		}
		if v, ok := c.state[e.Name]; ok {
			return v
		}
		obj := c.info.Uses[e]
		if _, ok := obj.(*types.Var); !ok {
			return c.unsupported("identifier %s (%T)", e.Name, obj)
		}
		return c.symbol(e.Name, obj.Type())
	case *ast.SelectorExpr:
		if sel, ok := c.info.Selections[e]; ok && sel.Kind() == types.FieldVal {
			k := c.key(e)
			base := e.X
			for {
				if p, ok := base.(*ast.ParenExpr); ok {
					base = p.X
					continue
				}
				break
			}
			var ptr *ast.Ident
			if st, ok := base.(*ast.StarExpr); ok {
				ptr, _ = st.X.(*ast.Ident)
			} else if id, ok := base.(*ast.Ident); ok {
				if _, isPtr := c.info.Types[id].Type.Underlying().(*types.Pointer); isPtr {
					ptr = id
				}
			}
			if ptr != nil {
				if _, isPtr := c.info.Types[ptr].Type.Underlying().(*types.Pointer); isPtr {
					pv := c.eval(ptr)
					if pv.Sort == "Ref" {
						c.panicIf("(= " + pv.T + " 0)")
					}
					k = ptr.Name + "->" + e.Sel.Name
				}
			}
			if v, ok := c.state[k]; ok {
				return v
			}
			return c.symbol(k, sel.Type())
		}
		return c.unsupported("selector %s", c.key(e))
	case *ast.StarExpr:
		if call, ok := e.X.(*ast.CallExpr); ok && len(call.Args) == 1 {
			if id, ok := call.Fun.(*ast.Ident); ok {
				if b, isB := c.info.Uses[id].(*types.Builtin); isB && b.Name() == "new" {
					return c.zeroValue(c.info.Types[call.Args[0]].Type) // *new(T)
				}
			}
		}
		if id, ok := e.X.(*ast.Ident); ok {
			if pt, ok := c.info.Types[id].Type.Underlying().(*types.Pointer); ok {
				if _, isArr := pt.Elem().Underlying().(*types.Array); isArr {
					v := c.eval(id) // the array behind the pointer; a nil pointer panics
					if v.Nil != "" {
						c.panicIf(v.Nil)
					}
					return semVal{Sort: "Slice", Len: v.Len, At: v.At}
				}
			}
		}
		k := c.key(e)
		if v, ok := c.state[k]; ok {
			return v
		}
		if id, ok := e.X.(*ast.Ident); ok {
			_ = id
			return c.symbol(k, tv.Type)
		}
		return c.unsupported("dereference %s", k)
	case *ast.UnaryExpr:
		x := c.eval(e.X)
		switch {
		case e.Op == token.NOT && x.Sort == "Bool":
			return semVal{Sort: "Bool", T: "(not " + x.T + ")"}
		case e.Op == token.SUB && x.Sort == "Int":
			return semVal{Sort: "Int", T: "(- " + x.T + ")"}
		case e.Op == token.ADD && x.Sort == "Int":
			return x
		case e.Op == token.SUB && x.Sort == "Float":
			return semVal{Sort: "Float", T: "(fp.neg " + x.T + ")"}
		}
		return c.unsupported("unary %s on %s", e.Op, x.Sort)
	case *ast.BinaryExpr:
		return c.binary(e)
	case *ast.CallExpr:
		return c.call(e)
	case *ast.IndexExpr:
		x := c.eval(e.X)
		i := c.eval(e.Index)
		if i.Sort != "Int" {
			return c.unsupported("index of sort %s", i.Sort)
		}
		switch x.Sort {
		case "Slice":
			c.panicIf(fmt.Sprintf("(or (< %s 0) (>= %s %s))", i.T, i.T, x.Len))
			if x.Nil != "" {
				c.panicIf(x.Nil)
			}
			return semVal{Sort: "Int", T: x.At(i.T)}
		case "Map":
			return semVal{Sort: "Int", T: x.At(i.T)}
		case "String", "Bytes":
			c.panicIf(fmt.Sprintf("(or (< %s 0) (>= %s (str.len %s)))", i.T, i.T, x.T))
			return semVal{Sort: "Int", T: fmt.Sprintf("(str.to_code (str.at %s %s))", x.T, i.T)}
		}
		return c.unsupported("index into %s", x.Sort)
	case *ast.SliceExpr:
		x := c.eval(e.X)
		if e.Slice3 {
			return c.unsupported("3-index slice")
		}
		if e.Low == nil && e.High == nil {
			if x.Nil != "" {
				c.panicIf(x.Nil)
			}
			if x.Sort == "Slice" {
				// the result is a slice even if the operand is an array: the *type* change is C09's business
				return semVal{Sort: "Slice", Len: x.Len, At: x.At}
			}
			return x
		}
		if x.Sort != "String" && x.Sort != "Bytes" {
			return c.unsupported("slicing %s with bounds", x.Sort)
		}
		lo, hi := "0", "(str.len "+x.T+")"
		if e.Low != nil {
			v := c.eval(e.Low)
			if v.Sort != "Int" {
				return c.unsupported("slice bound")
			}
			lo = v.T
		}
		if e.High != nil {
			v := c.eval(e.High)
			if v.Sort != "Int" {
				return c.unsupported("slice bound")
			}
			hi = v.T
		}
		c.panicIf(fmt.Sprintf("(or (< %s 0) (> %s %s) (> %s (str.len %s)))", lo, lo, hi, hi, x.T))
		return semVal{Sort: x.Sort, T: fmt.Sprintf("(str.substr %s %s (- %s %s))", x.T, lo, hi, lo)}
	case *ast.CompositeLit:
		if len(e.Elts) == 0 {
			return c.zeroValue(tv.Type) // T{}
		}
	}
	return c.unsupported("%T", e)
}

func (c *semCtx) binary(e *ast.BinaryExpr) semVal {
	if e.Op == token.LAND || e.Op == token.LOR {
		x := c.eval(e.X)
		if x.Sort != "Bool" {
			return c.unsupported("logical operand")
		}
		saved := c.guard
		cond := x.T
		if e.Op == token.LOR {
			cond = "(not " + x.T + ")"
		}
		if c.guard == "true" {
			c.guard = cond
		} else {
			c.guard = "(and " + saved + " " + cond + ")"
		}
		y := c.eval(e.Y)
		c.guard = saved
		if y.Sort != "Bool" {
			return c.unsupported("logical operand")
		}
		if e.Op == token.LAND {
			return semVal{Sort: "Bool", T: "(and " + x.T + " " + y.T + ")"}
		}
		return semVal{Sort: "Bool", T: "(or " + x.T + " " + y.T + ")"}
	}
	x := c.eval(e.X)
	y := c.eval(e.Y)
	return c.binop(e.Op, x, y)
}

// nilness returns the term "v is nil" for slices, maps and pointers to arrays.
func (c *semCtx) nilness(v semVal) (string, bool) {
	switch v.Sort {
	case "Ref":
		return "(= " + v.T + " 0)", true
	case "Bytes":
		if strings.HasPrefix(v.T, "v_") && !strings.ContainsAny(v.T, " (") {
			n := v.T + "_isnil"
			first := c.sh.decls[n] == ""
			c.sh.declare(n, "Bool")
			if first {
				c.sh.assert("(=> " + n + " (= (str.len " + v.T + ") 0))")
			}
			return n, true
		}
	case "Slice", "Map":
		if v.Nil != "" {
			return v.Nil, true
		}
		if strings.HasSuffix(v.Len, "_len") {
			n := strings.TrimSuffix(v.Len, "_len") + "_isnil"
			first := c.sh.decls[n] == ""
			c.sh.declare(n, "Bool")
			if first {
				c.sh.assert("(=> " + n + " (= " + v.Len + " 0))")
			}
			return n, true
		}
	}
	return "", false
}

func (c *semCtx) binop(op token.Token, x, y semVal) semVal {
	if x.Sort == "Bad" || y.Sort == "Bad" {
		return semVal{Sort: "Bad"}
	}
	if (x.Sort == "Nil") != (y.Sort == "Nil") && (op == token.EQL || op == token.NEQ) {
		other := x
		if x.Sort == "Nil" {
			other = y
		}
		if t, ok := c.nilness(other); ok {
			if op == token.NEQ {
				t = "(not " + t + ")"
			}
			return semVal{Sort: "Bool", T: t}
		}
		return c.unsupported("nil compared with %s", other.Sort)
	}
	if x.Sort == "Bytes" && y.Sort == "String" || x.Sort == "String" && y.Sort == "Bytes" {
		return c.unsupported("mixed string/bytes operands")
	}
	isIntLit := func(v semVal) bool {
		if v.Sort != "Int" {
			return false
		}
		t := strings.TrimSuffix(strings.TrimPrefix(v.T, "(- "), ")")
		_, err := strconv.Atoi(t)
		return err == nil
	}
	toFloat := func(v semVal) semVal {
		if strings.HasPrefix(v.T, "(- ") {
			return semVal{Sort: "Float", T: "(fp.neg ((_ to_fp 11 53) RNE " + strings.TrimSuffix(strings.TrimPrefix(v.T, "(- "), ")") + ".0))"}
		}
		return semVal{Sort: "Float", T: "((_ to_fp 11 53) RNE " + v.T + ".0)"}
	}
	if x.Sort == "Float" && isIntLit(y) {
		y = toFloat(y) // an untyped integer constant next to a float operand
	} else if y.Sort == "Float" && isIntLit(x) {
		x = toFloat(x)
	}
	if x.Sort != y.Sort {
		return c.unsupported("operands of sorts %s and %s", x.Sort, y.Sort)
	}
	b := func(f string) semVal { return semVal{Sort: "Bool", T: fmt.Sprintf("(%s %s %s)", f, x.T, y.T)} }
	switch x.Sort {
	case "Int":
		i := func(t string) semVal { return semVal{Sort: "Int", T: t} }
		switch op {
		case token.ADD:
			return i("(+ " + x.T + " " + y.T + ")")
		case token.SUB:
			return i("(- " + x.T + " " + y.T + ")")
		case token.MUL:
			return i("(* " + x.T + " " + y.T + ")")
		case token.QUO:
			c.panicIf("(= " + y.T + " 0)")
			return i(truncDiv(x.T, y.T))
		case token.REM:
			c.panicIf("(= " + y.T + " 0)")
			return i(fmt.Sprintf("(- %s (* %s %s))", x.T, y.T, truncDiv(x.T, y.T)))
		case token.AND, token.OR, token.XOR, token.SHL, token.SHR, token.AND_NOT:
			fn := map[token.Token]string{token.AND: "gsx_and", token.OR: "gsx_or", token.XOR: "gsx_xor", token.SHL: "gsx_shl", token.SHR: "gsx_shr", token.AND_NOT: "gsx_andnot"}[op]
			c.sh.declareFun(fn, "(Int Int) Int")
			if op == token.SHL || op == token.SHR {
				c.panicIf("(< " + y.T + " 0)")
			}
			return i("(" + fn + " " + x.T + " " + y.T + ")")
		case token.EQL:
			return b("=")
		case token.NEQ:
			return b("distinct")
		case token.LSS:
			return b("<")
		case token.LEQ:
			return b("<=")
		case token.GTR:
			return b(">")
		case token.GEQ:
			return b(">=")
		}
	case "String", "Bytes":
		switch op {
		case token.ADD:
			if x.Sort == "String" {
				return semVal{Sort: "String", T: "(str.++ " + x.T + " " + y.T + ")"}
			}
		case token.EQL:
			if x.Sort == "String" {
				return b("=")
			}
		case token.NEQ:
			if x.Sort == "String" {
				return b("distinct")
			}
		case token.LSS:
			return b("str.<")
		case token.LEQ:
			return b("str.<=")
		case token.GTR:
			return semVal{Sort: "Bool", T: "(str.< " + y.T + " " + x.T + ")"}
		case token.GEQ:
			return semVal{Sort: "Bool", T: "(str.<= " + y.T + " " + x.T + ")"}
		}
	case "Bool", "Ref":
		switch op {
		case token.EQL:
			return b("=")
		case token.NEQ:
			return b("distinct")
		}
	case "Float":
		f := func(fn string) semVal {
			return semVal{Sort: "Float", T: fmt.Sprintf("(%s RNE %s %s)", fn, x.T, y.T)}
		}
		switch op {
		case token.ADD:
			return f("fp.add")
		case token.SUB:
			return f("fp.sub")
		case token.MUL:
			return f("fp.mul")
		case token.QUO:
			return f("fp.div")
		case token.EQL:
			return b("fp.eq")
		case token.NEQ:
			return semVal{Sort: "Bool", T: "(not (fp.eq " + x.T + " " + y.T + "))"}
		case token.LSS:
			return b("fp.lt")
		case token.LEQ:
			return b("fp.leq")
		case token.GTR:
			return b("fp.gt")
		case token.GEQ:
			return b("fp.geq")
		}
	}
	return c.unsupported("operator %s on %s", op, x.Sort)
}

// event records a call of a function declared in the candidate and returns
// the k-th element of its symbolic result stream.
func (c *semCtx) event(fn string, res types.Type) semVal {
	c.calls = append(c.calls, semCall{Fn: fn, Guard: c.guard})
	c.callN[fn]++
	name := fmt.Sprintf("call_%s_%d", fn, c.callN[fn])
	if res == nil {
		return semVal{Sort: "Unit"}
	}
	v := c.symbol(name, res)
	return v
}

func (c *semCtx) call(e *ast.CallExpr) semVal {
	tvFun := c.info.Types[e.Fun]
	// conversions
	if tvFun.IsType() && len(e.Args) == 1 {
		x := c.eval(e.Args[0])
		to := sortOf(tvFun.Type)
		if x.Sort == "Nil" {
			return c.zeroValue(tvFun.Type) // T(nil)
		}
		switch {
		case to == x.Sort:
			return x
		case to == "String" && x.Sort == "Bytes", to == "Bytes" && x.Sort == "String":
			return semVal{Sort: to, T: x.T}
		}
		return c.unsupported("conversion %s -> %s", x.Sort, tvFun.Type)
	}
	var obj types.Object
	switch f := e.Fun.(type) {
	case *ast.Ident:
		obj = c.info.Uses[f]
	case *ast.SelectorExpr:
		obj = c.info.Uses[f.Sel]
	case *ast.ParenExpr:
		return c.unsupported("parenthesised callee")
	}
	args := func() []semVal {
		var out []semVal
		for _, a := range e.Args {
			out = append(out, c.eval(a))
		}
		return out
	}
	switch o := obj.(type) {
	case *types.Builtin:
		a := args()
		switch o.Name() {
		case "len", "cap":
			if len(a) == 1 {
				switch a[0].Sort {
				case "String", "Bytes":
					if o.Name() == "len" {
						return semVal{Sort: "Int", T: "(str.len " + a[0].T + ")"}
					}
				case "Slice", "Map":
					if o.Name() == "len" {
						return semVal{Sort: "Int", T: a[0].Len}
					}
				}
			}
		case "append":
			if len(a) == 1 {
				return a[0]
			}
		}
		return c.unsupported("builtin %s", o.Name())
	case *types.Func:
		sig := o.Type().(*types.Signature)
		if o.Pkg() == c.pkg && sig.Recv() == nil {
			// declared in the candidate: an event
			for _, a := range e.Args {
				c.eval(a)
			}
			var res types.Type
			if sig.Results().Len() == 1 {
				res = sig.Results().At(0).Type()
			} else if sig.Results().Len() > 1 {
				return c.unsupported("multi-value call")
			}
			return c.event(o.Name(), res)
		}
		full := o.FullName()
		if sig.Recv() != nil {
			sel, _ := e.Fun.(*ast.SelectorExpr)
			if sel == nil {
				return c.unsupported("method value call")
			}
			recv := c.eval(sel.X)
			if recv.Sort == "Time" && len(e.Args) == 0 {
				i := func(t string) semVal { return semVal{Sort: "Int", T: t} }
				switch o.Name() {
				case "Unix":
					return i(recv.Sec)
				case "UnixNano":
					return i(fmt.Sprintf("(+ (* %s 1000000000) %s)", recv.Sec, recv.Nsec))
				case "UnixMilli":
					return i(fmt.Sprintf("(+ (* %s 1000) (div %s 1000000))", recv.Sec, recv.Nsec))
				case "UnixMicro":
					return i(fmt.Sprintf("(+ (* %s 1000000) (div %s 1000))", recv.Sec, recv.Nsec))
				}
			}
			return c.unsupported("method %s", full)
		}
		a := args()
		sorts := ""
		for _, x := range a {
			sorts += x.Sort[:1]
		}
		str2 := len(a) == 2 && (sorts == "SS" || sorts == "BB")
		bl := func(t string) semVal { return semVal{Sort: "Bool", T: t} }
		in := func(t string) semVal { return semVal{Sort: "Int", T: t} }
		uf := func(name, sig string) string {
			c.sh.declareFun(name, sig)
			var ts []string
			for _, x := range a {
				ts = append(ts, x.T)
			}
			return "(" + name + " " + strings.Join(ts, " ") + ")"
		}
		switch full {
		case "strings.Index", "bytes.Index":
			if str2 {
				return in(fmt.Sprintf("(str.indexof %s %s 0)", a[0].T, a[1].T))
			}
		case "strings.Contains", "bytes.Contains":
			if str2 {
				return bl(fmt.Sprintf("(str.contains %s %s)", a[0].T, a[1].T))
			}
		case "strings.HasPrefix", "bytes.HasPrefix":
			if str2 {
				return bl(fmt.Sprintf("(str.prefixof %s %s)", a[1].T, a[0].T))
			}
		case "strings.HasSuffix", "bytes.HasSuffix":
			if str2 {
				return bl(fmt.Sprintf("(str.suffixof %s %s)", a[1].T, a[0].T))
			}
		case "strings.IndexAny", "bytes.IndexAny", "strings.IndexRune", "bytes.IndexRune":
			// ContainsAny / ContainsRune are defined in the standard library as Index* >= 0;
			// the index itself is an uninterpreted function with the documented range
			if len(a) == 2 {
				sig := map[string]string{"S": "String", "B": "String", "I": "Int"}
				t := uf("gsx_"+strings.ReplaceAll(full, ".", "_"), "("+sig[sorts[:1]]+" "+sig[sorts[1:2]]+") Int")
				c.sh.assert("(>= " + t + " (- 1))")
				return in(t)
			}
		case "strings.ContainsAny", "bytes.ContainsAny", "strings.ContainsRune", "bytes.ContainsRune":
			if len(a) == 2 {
				sig := map[string]string{"S": "String", "B": "String", "I": "Int"}
				idx := strings.Replace(strings.Replace(full, "ContainsAny", "IndexAny", 1), "ContainsRune", "IndexRune", 1)
				t := uf("gsx_"+strings.ReplaceAll(idx, ".", "_"), "("+sig[sorts[:1]]+" "+sig[sorts[1:2]]+") Int")
				c.sh.assert("(>= " + t + " (- 1))")
				return bl("(>= " + t + " 0)")
			}
		case "strings.Compare", "bytes.Compare":
			if str2 {
				return in(fmt.Sprintf("(ite (= %[1]s %[2]s) 0 (ite (str.< %[1]s %[2]s) (- 1) 1))", a[0].T, a[1].T))
			}
		case "bytes.Equal":
			if str2 {
				return bl("(= " + a[0].T + " " + a[1].T + ")")
			}
		case "fmt.Sprint":
			if len(a) == 1 && a[0].Sort == "String" {
				return a[0]
			}
		case "fmt.Sprintf":
			if len(a) == 2 && a[1].Sort == "String" && (a[0].T == `"%s"` || a[0].T == `"%v"`) {
				return a[1]
			}
		}
		return c.unsupported("call of %s(%s)", full, sorts)
	}
	return c.unsupported("call of %s", types.ExprString(e.Fun))
}

// exec runs a simple statement against the symbolic store.
func (c *semCtx) exec(s ast.Stmt) {
	if c.bad != "" {
		return
	}
	switch s := s.(type) {
	case *ast.EmptyStmt:
	case *ast.ExprStmt:
		c.eval(s.X)
	case *ast.IncDecStmt:
		x := c.eval(s.X)
		one := semVal{Sort: "Int", T: "1"}
		op := token.ADD
		if s.Tok == token.DEC {
			op = token.SUB
		}
		c.assign(s.X, c.binop(op, x, one))
	case *ast.AssignStmt:
		if s.Tok != token.ASSIGN && s.Tok != token.DEFINE {
			if len(s.Lhs) != 1 || len(s.Rhs) != 1 {
				c.unsupported("compound assignment")
				return
			}
			ops := map[token.Token]token.Token{token.ADD_ASSIGN: token.ADD, token.SUB_ASSIGN: token.SUB, token.MUL_ASSIGN: token.MUL, token.QUO_ASSIGN: token.QUO,
				token.REM_ASSIGN: token.REM, token.AND_ASSIGN: token.AND, token.OR_ASSIGN: token.OR, token.XOR_ASSIGN: token.XOR, token.SHL_ASSIGN: token.SHL,
				token.SHR_ASSIGN: token.SHR, token.AND_NOT_ASSIGN: token.AND_NOT}
			x := c.eval(s.Lhs[0])
			y := c.eval(s.Rhs[0])
			c.assign(s.Lhs[0], c.binop(ops[s.Tok], x, y))
			return
		}
		if len(s.Lhs) != len(s.Rhs) {
			c.unsupported("multi-value assignment")
			return
		}
		var vs []semVal
		for _, r := range s.Rhs {
			vs = append(vs, c.eval(r))
		}
		for i, l := range s.Lhs {
			c.assign(l, vs[i])
		}
	case *ast.BlockStmt:
		for _, x := range s.List {
			c.exec(x)
		}
	default:
		c.unsupported("%T", s)
	}
}

func (c *semCtx) assign(l ast.Expr, v semVal) {
	if v.Sort == "Bad" {
		return
	}
	switch l := l.(type) {
	case *ast.Ident:
		if l.Name != "_" {
			c.state[l.Name] = v
		}
	case *ast.SelectorExpr:
		if sel, ok := c.info.Selections[l]; ok && sel.Kind() == types.FieldVal {
			if _, ok := l.X.(*ast.Ident); ok {
				c.state[c.key(l)] = v
				return
			}
		}
		c.unsupported("assignment to %s", c.key(l))
	case *ast.StarExpr:
		if _, ok := l.X.(*ast.Ident); ok {
			c.state[c.key(l)] = v
			return
		}
		c.unsupported("assignment to %s", c.key(l))
	default:
		c.unsupported("assignment to %T", l)
	}
}

// valEq renders "the two values are equal" (q is a fresh index for element-wise comparison).
func valEq(a, b semVal, q string) (string, bool) {
	if a.Sort != b.Sort {
		if (a.Sort == "String" || a.Sort == "Bytes") && (b.Sort == "String" || b.Sort == "Bytes") {
			return "(= " + a.T + " " + b.T + ")", true
		}
		return "", false
	}
	switch a.Sort {
	case "Int", "String", "Bytes", "Bool", "Float", "Ref":
		return "(= " + a.T + " " + b.T + ")", true
	case "Unit":
		return "true", true
	case "Slice", "Map":
		t := fmt.Sprintf("(and (= %s %s) (=> (and (>= %s 0) (< %s %s)) (= %s %s)))", a.Len, b.Len, q, q, a.Len, a.At(q), b.At(q))
		if a.Nil != "" || b.Nil != "" {
			an, bn := a.Nil, b.Nil
			if an == "" {
				an = "false"
			}
			if bn == "" {
				bn = "false"
			}
			t = "(and (= " + an + " " + bn + ") " + t + ")"
		}
		return t, true
	case "Time":
		return fmt.Sprintf("(and (= %s %s) (= %s %s))", a.Sec, b.Sec, a.Nsec, b.Nsec), true
	}
	return "", false
}

// callsEq renders "both sides perform the same calls": identical sequences when
// no call is conditional, equal per-function counts otherwise.
func callsEq(a, b []semCall) string {
	uncond := true
	for _, x := range append(append([]semCall{}, a...), b...) {
		if x.Guard != "true" {
			uncond = false
		}
	}
	if uncond {
		if len(a) != len(b) {
			return "false"
		}
		for i := range a {
			if a[i].Fn != b[i].Fn {
				return "false"
			}
		}
		return "true"
	}
	count := func(cs []semCall, fn string) string {
		parts := []string{"0"}
		for _, x := range cs {
			if x.Fn == fn {
				parts = append(parts, "(ite "+x.Guard+" 1 0)")
			}
		}
		return "(+ " + strings.Join(parts, " ") + " 0)"
	}
	fns := map[string]bool{}
	for _, x := range append(append([]semCall{}, a...), b...) {
		fns[x.Fn] = true
	}
	var names []string
	for f := range fns {
		names = append(names, f)
	}
	sort.Strings(names)
	parts := []string{"true"}
	for _, f := range names {
		parts = append(parts, "(= "+count(a, f)+" "+count(b, f)+")")
	}
	return "(and " + strings.Join(parts, " ") + ")"
}
