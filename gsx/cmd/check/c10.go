package main

import (
	"bytes"
	"encoding/json"
	"fmt"
	"go/ast"
	"go/token"
	"go/types"
	"os"
	"os/exec"
	"path/filepath"
	"strings"

	"gsx/interp"
)

// c10Build mirrors the expression generator of the C10 harness: it rebuilds
// the Go source of the input expression from the choices and symbolic values
// of a model.
type c10Gen struct {
	m map[string]interface{}
	n int
}

func (g *c10Gen) name(s string) string { g.n++; return fmt.Sprintf("%s%d", s, g.n) }

func (g *c10Gen) choose(name string) int {
	switch v := g.m["choose:"+name+"?c"].(type) {
	case float64:
		return int(v)
	case string:
		n := 0
		fmt.Sscan(v, &n)
		return n
	}
	return 0
}

func (g *c10Gen) str(name string) string {
	s, _ := g.m[name+"?s"].(string)
	return s
}

func (g *c10Gen) tok(name string) string {
	n := 0
	switch v := g.m[name+"?i"].(type) {
	case float64:
		n = int(v)
	case string:
		fmt.Sscan(v, &n)
	}
	return token.Token(n).String()
}

func (g *c10Gen) numExpr(depth int) string {
	switch c := g.choose(g.name("num")); {
	case c == 0:
		switch g.choose(g.name("var")) {
		case 0:
			if g.choose("operandType") == 4 {
				return []string{"len(x)", "cap(x)"}[g.choose("callee")%2]
			}
			return "x"
		case 2:
			if g.choose("operandType") == 4 {
				return []string{"len(x)", "cap(x)"}[g.choose("callee")%2]
			}
			return "f()"
		}
		return "y"
	case c == 1:
		return g.str(g.name("lit"))
	default:
		op := g.tok(g.name("arith"))
		one := g.str(g.name("lit"))
		return g.numExpr(0) + " " + op + " " + one
	}
}

func (g *c10Gen) cmp() string {
	op := g.tok(g.name("cmp"))
	l := g.numExpr(1)
	r := g.numExpr(1)
	return l + " " + op + " " + r
}

func (g *c10Gen) boolExpr(depth int) string {
	if depth == 0 {
		return g.cmp()
	}
	switch g.choose(g.name("bool")) {
	case 0:
		return g.cmp()
	case 1:
		return "!(" + g.boolExpr(depth-1) + ")"
	default:
		op := g.tok(g.name("logic"))
		l := g.boolExpr(depth - 1)
		r := g.boolExpr(depth - 1)
		return l + " " + op + " " + r
	}
}

// c10Equivalent compiles original and rewritten expression into one program
// and compares them on a grid of operand values.
func c10Equivalent(typ, a, b string) (same bool, detail string, err error) {
	dir, err := os.MkdirTemp("", "gsx-c10-")
	if err != nil {
		return false, "", err
	}
	defer os.RemoveAll(dir)
	grid := "for x := T(-70); x <= 70; x++ { for y := T(-70); y <= 70; y++ {"
	tdecl := "type T = " + typ
	if typ == "float64" || typ == "gsxFloat" {
		// half units over the range the harness draws its operands (and 3-digit literals' neighbourhood) from
		grid = "for x := T(-70); x <= 70; x += 0.5 { for y := T(-70); y <= 70; y += 0.5 {"
	}
	if typ == "gsxFloat" {
		tdecl = "type T float64"
	}
	if ab := a + " " + b; strings.Contains(ab, "f()") || strings.Contains(ab, "len(x)") || strings.Contains(ab, "cap(x)") {
		return c10EquivalentImpure(dir, a, b)
	}
	src := fmt.Sprintf(`package main

import "fmt"

%s

func a(x, y T) bool { return %s }
func b(x, y T) bool { return %s }

func main() {
	%s
		if a(x, y) != b(x, y) {
			fmt.Printf("DIFF x=%%v y=%%v original=%%v suggested=%%v\n", x, y, a(x, y), b(x, y))
			return
		}
	}}
	fmt.Println("SAME")
}
`, tdecl, a, b, grid)
	file := filepath.Join(dir, "main.go")
	os.WriteFile(file, []byte(src), 0o644)
	cmd := exec.Command("go", "run", file)
	cmd.Env = append(os.Environ(), "GOFLAGS=-mod=mod", "GOPROXY=off", "GOSUMDB=off", "GOTOOLCHAIN=local", "GO111MODULE=off")
	var out bytes.Buffer
	cmd.Stdout = &out
	cmd.Stderr = &out
	if err := cmd.Run(); err != nil {
		return false, "", fmt.Errorf("go run: %v: %s", err, lastLines(out.String(), 4))
	}
	o := strings.TrimSpace(out.String())
	return o == "SAME", o, nil
}

func replayC10(rc *runCtx, h *harness, v *interp.Violation, file string) (bool, string) {
	data, err := os.ReadFile(file)
	if err != nil {
		return false, err.Error()
	}
	var vf map[string]interface{}
	json.Unmarshal(data, &vf)
	model, _ := vf["model"].(map[string]interface{})
	if model == nil {
		return false, "no model"
	}
	g := &c10Gen{m: model}
	typ := "int"
	decl := ""
	switch g.choose("operandType") {
	case 1:
		typ = "float64"
	case 2:
		typ, decl = "gsxFloat", "type gsxFloat float64\n\n"
	}
	depth := 1
	if d, ok := model["bound:depth"].(float64); ok {
		depth = int(d)
	}
	expr := g.boolExpr(depth)
	if strings.Contains(expr, "f()") {
		decl += "var gsxCalls int\n\nfunc f() int { gsxCalls++; return gsxCalls }\n\n"
	}
	for _, nm := range []string{"len", "cap"} {
		if strings.Contains(expr, nm+"(x)") {
			decl += "var gsxCalls" + nm + " int\n\nfunc " + nm + "(v int) int { gsxCalls" + nm + "++; return gsxCalls" + nm + " + v }\n\n"
		}
	}
	src := fmt.Sprintf("package cand\n\n%sfunc gsxF(x, y %s) bool {\n\treturn %s\n}\n", decl, typ, expr)
	res, err := runRealised("boolExprSimplify", nil, []string{src}, "")
	if err != nil {
		return false, err.Error()
	}
	if len(res) == 0 || res[0].Status != "OK" {
		return false, fmt.Sprintf("the realised program was not analysed: %+v\n%s", res, src)
	}
	var ws []struct{ Text string }
	json.Unmarshal([]byte(res[0].JSON), &ws)
	for _, w := range ws {
		q := "can simplify `"
		i := strings.Index(w.Text, "` to `")
		if !strings.HasPrefix(w.Text, q) || i < 0 {
			continue
		}
		a, b := w.Text[len(q):i], strings.TrimSuffix(w.Text[i+len("` to `"):], "`")
		same, detail, err := c10Equivalent(typ, a, b)
		if err != nil {
			return false, err.Error()
		}
		if !same {
			vf["realised"] = []string{src}
			vf["original"], vf["suggested"], vf["operand_type"] = a, b, typ
			out, _ := json.MarshalIndent(vf, "", " ")
			os.WriteFile(file, out, 0o644)
			return true, fmt.Sprintf("real checker suggests `%s` for `%s` (%s operands); compiled and run: %s", b, a, typ, detail)
		}
		return false, fmt.Sprintf("`%s` and `%s` agree on the whole grid", a, b)
	}
	return false, "the real checker made no suggestion for: " + expr
}

// c10Class: the rewrite rule, by the operators involved.
func c10Class(v *interp.Violation) string {
	return v.Kind + ": " + v.Msg
}

// replayC12BadCond: rebuild the condition, let the real checker flag it, then
// compile and run it with an operand function that returns the model's values.
func replayC12BadCond(rc *runCtx, h *harness, v *interp.Violation, file string) (bool, string) {
	data, err := os.ReadFile(file)
	if err != nil {
		return false, err.Error()
	}
	var vf map[string]interface{}
	json.Unmarshal(data, &vf)
	model, _ := vf["model"].(map[string]interface{})
	g := &c10Gen{m: model}
	num := func(k string) int {
		n := 0
		switch x := model[k+"?i"].(type) {
		case float64:
			n = int(x)
		case string:
			fmt.Sscan(x, &n)
		}
		return n
	}
	x := "x"
	if g.choose("operand") == 1 {
		x = "next()"
	}
	cond := fmt.Sprintf("%s %s %d && %s %s %d", x, g.tok("op1"), num("a"), x, g.tok("op2"), num("b"))
	decls := fmt.Sprintf("var gsxSeq = []int{%d, %d}\nvar gsxK int\n\nfunc next() int { v := gsxSeq[gsxK%%len(gsxSeq)]; gsxK++; return v }\n", num("eval1"), num("eval2"))
	src := fmt.Sprintf("package cand\n\n%s\nfunc gsxF(x int) bool {\n\tif %s {\n\t\treturn true\n\t}\n\treturn false\n}\n", decls, cond)
	res, err := runRealised("badCond", nil, []string{src}, "")
	if err != nil {
		return false, err.Error()
	}
	if len(res) == 0 || res[0].Status != "OK" || !strings.Contains(res[0].JSON, "always false") {
		return false, fmt.Sprintf("the real checker does not call `%s` always false: %+v", cond, res)
	}
	dir, err := os.MkdirTemp("", "gsx-c12-")
	if err != nil {
		return false, err.Error()
	}
	defer os.RemoveAll(dir)
	prog := fmt.Sprintf("package main\n\nimport \"fmt\"\n\n%s\nfunc main() {\n\tx := %d\n\t_ = x\n\tfmt.Println(%s)\n}\n", decls, num("eval1"), cond)
	pf := filepath.Join(dir, "main.go")
	os.WriteFile(pf, []byte(prog), 0o644)
	cmd := exec.Command("go", "run", pf)
	cmd.Env = append(os.Environ(), "GOFLAGS=-mod=mod", "GOPROXY=off", "GOSUMDB=off", "GOTOOLCHAIN=local", "GO111MODULE=off")
	var out bytes.Buffer
	cmd.Stdout = &out
	cmd.Stderr = &out
	if err := cmd.Run(); err != nil {
		return false, "go run: " + err.Error() + ": " + lastLines(out.String(), 3)
	}
	if strings.TrimSpace(out.String()) == "true" {
		vf["realised"] = []string{src, prog}
		o, _ := json.MarshalIndent(vf, "", " ")
		os.WriteFile(file, o, 0o644)
		return true, fmt.Sprintf("badCond reports `%s` as always false; compiled and run it evaluates to true (operand values %d, %d)", cond, num("eval1"), num("eval2"))
	}
	return false, "the condition evaluated to " + strings.TrimSpace(out.String())
}

const ruleVersionTest = `package checkers_test

import (
	"fmt"
	"go/ast"
	"go/importer"
	"go/parser"
	"go/token"
	"go/types"
	"os"
	"path/filepath"
	"testing"

	"github.com/go-critic/go-critic/checkers"
	"github.com/go-critic/go-critic/linter"
)

const gsxRule = "package gorules\n\nimport \"github.com/quasilyte/go-ruleguard/dsl\"\n\nfunc gated(m dsl.Matcher) {\n\tm.Match(` + "`gsxTarget($x)`" + `).Where(m.GoVersion().GreaterEqThan(\"1.18\")).Report(\"needs go1.18\")\n}\n"

const gsxProg = "package cand\n\nimport \"time\"\n\nfunc gsxTarget(x int) {}\n\nfunc f(t time.Time, p *time.Time) int64 { gsxTarget(1); return t.Unix()/1000 + p.Unix()/1000 }\n"

func TestGSXRuleVersion(t *testing.T) {
	_ = checkers.InitEmbeddedRules // the package's own test init has registered the embedded rules
	dir := t.TempDir()
	rules := filepath.Join(dir, "rules.go")
	os.WriteFile(rules, []byte(gsxRule), 0o644)
	fset := token.NewFileSet()
	f, err := parser.ParseFile(fset, "cand.go", gsxProg, 0)
	if err != nil {
		t.Fatal(err)
	}
	tinfo := &types.Info{Types: map[ast.Expr]types.TypeAndValue{}, Defs: map[*ast.Ident]types.Object{}, Uses: map[*ast.Ident]types.Object{},
		Implicits: map[ast.Node]types.Object{}, Selections: map[*ast.SelectorExpr]*types.Selection{}, Scopes: map[ast.Node]*types.Scope{}}
	pkg, err := (&types.Config{Importer: importer.ForCompiler(fset, "source", nil)}).Check("cand", fset, []*ast.File{f}, tinfo)
	if err != nil {
		t.Fatal(err)
	}
	// kind: which checker; gate: the first version under which its rule may fire
	for _, kind := range []struct{ name, below, at string }{{"ruleguard", "1.17", "1.18"}, {"timeExprSimplify", "1.16", "1.17"}} {
		for _, order := range []string{"version-then-checker", "checker-then-version"} {
			for _, ver := range []string{kind.below, kind.at} {
				var info *linter.CheckerInfo
				for _, x := range linter.GetCheckersInfo() {
					if x.Name == kind.name {
						info = x
					}
				}
				if info == nil {
					t.Fatalf("no checker %s", kind.name)
				}
				if kind.name == "ruleguard" {
					info.Params["rules"].Value = rules
				}
				ctx := linter.NewContext(fset, types.SizesFor("gc", "amd64"))
				ctx.SetPackageInfo(tinfo, pkg)
				if order == "version-then-checker" {
					ctx.SetGoVersion(ver)
				}
				c, err := linter.NewChecker(ctx, info)
				if err != nil {
					t.Fatal(err)
				}
				if order == "checker-then-version" {
					ctx.SetGoVersion(ver)
				}
				ctx.SetFileInfo("cand.go", f)
				ws := c.Check(f)
				gated := "below"
				if ver == kind.at {
					gated = "at"
				}
				fmt.Printf("GSX-VERSION\t%s\t%s\t%s\t%s\t%d\n", kind.name, order, gated, ver, len(ws))
			}
		}
	}
}
`

// replayRuleVersion: a version-gated rule (a user rule gated on Go >= 1.18, the shipped timeExprSimplify
// gated on 1.17) must stay silent under a lower configured version, whether the version was
// configured before or after the checker was created, and must fire at the gate version.
func replayRuleVersion(rc *runCtx, h *harness, v *interp.Violation, file string) (bool, string) {
	tmp, err := os.MkdirTemp("", "gsx-rulever-")
	if err != nil {
		return false, err.Error()
	}
	defer os.RemoveAll(tmp)
	tf := filepath.Join(tmp, "zz_verif_rulever_test.go")
	os.WriteFile(tf, []byte(ruleVersionTest), 0o644)
	out, err := runGoTest(tmp, map[string]string{filepath.Join(repoDir, "checkers", "zz_verif_rulever_test.go"): tf},
		[]string{"-v", "-vet=off", "-count=1", "-run", "^TestGSXRuleVersion$", "./checkers"}, nil)
	if err != nil {
		return false, err.Error()
	}
	wantUser := strings.Contains(v.Msg, "user-rules checker")
	seen := 0
	for _, l := range strings.Split(out, "\n") {
		p := strings.Split(strings.TrimSpace(l), "\t")
		if len(p) != 6 || p[0] != "GSX-VERSION" {
			continue
		}
		seen++
		if (p[1] == "ruleguard") != wantUser {
			continue
		}
		if p[3] == "below" && p[5] != "0" {
			return true, fmt.Sprintf("%s checker (%s): a rule gated on a newer Go version reports %s diagnostic(s) with -go=%s configured", p[1], p[2], p[5], p[4])
		}
		if p[3] == "at" && p[5] == "0" {
			return true, fmt.Sprintf("%s checker (%s): a version-gated rule stays silent with -go=%s configured (the gate version)", p[1], p[2], p[4])
		}
	}
	if seen == 0 {
		return false, "native: " + lastLines(out, 3)
	}
	return false, "the real checkers honour the configured version in both orders"
}

// c10EquivalentImpure: original and suggestion with the impure operand f();
// both are run on every sequence of f-values from {-2..2}^3 (repeated) and a
// small grid of x, y; results and the number of f() evaluations must agree.
func c10EquivalentImpure(dir, a, b string) (bool, string, error) {
	src := fmt.Sprintf(`package main

import "fmt"

type T = int

var (
	seq   [3]T
	calls int
)

func f() T { v := seq[calls%%3]; calls++; return v }

// user-declared namesakes of builtins, as impure as f
func len(_ T) T { return f() }
func cap(_ T) T { return f() }

func a(x, y T) bool { return %s }
func b(x, y T) bool { return %s }

func main() {
	for s0 := T(-2); s0 <= 2; s0++ {
		for s1 := T(-2); s1 <= 2; s1++ {
			for s2 := T(-2); s2 <= 2; s2++ {
				seq = [3]T{s0, s1, s2}
				for x := T(-3); x <= 3; x++ {
					for y := T(-3); y <= 3; y++ {
						calls = 0
						ra := a(x, y)
						ca := calls
						calls = 0
						rb := b(x, y)
						cb := calls
						if ra != rb || ca != cb {
							fmt.Printf("DIFF x=%%v y=%%v f-values=%%v original=%%v after %%d call(s) of f, suggested=%%v after %%d\n", x, y, seq, ra, ca, rb, cb)
							return
						}
					}
				}
			}
		}
	}
	fmt.Println("SAME")
}
`, a, b)
	file := filepath.Join(dir, "main.go")
	if err := os.WriteFile(file, []byte(src), 0o644); err != nil {
		return false, "", err
	}
	cmd := exec.Command("go", "run", file)
	cmd.Env = append(os.Environ(), "GOFLAGS=-mod=mod", "GOPROXY=off", "GOSUMDB=off", "GOTOOLCHAIN=local")
	out, err := cmd.CombinedOutput()
	text := strings.TrimSpace(string(out))
	if err != nil {
		return false, "", fmt.Errorf("compile/run failed: %v: %s", err, lastLines(text, 3))
	}
	return strings.HasPrefix(text, "SAME"), text, nil
}

// ---- C14 SizeOf: native confirmation of "SizeOf depends on the types sized before".
// Two distinct types that print alike but differ in size exist in real programs
// (same-named function-local types, a local type shadowing a package-level one);
// here they are built directly with the go/types API.
const sizeOfTest = `package linter

import (
	"fmt"
	"go/token"
	"go/types"
	"testing"
)

func TestGSXSizeOf(t *testing.T) {
	sizes := types.SizesFor("gc", "amd64")
	pkg := types.NewPackage("p", "p")
	mk := func(n int64) types.Type {
		return types.NewNamed(types.NewTypeName(token.NoPos, pkg, "row", nil), types.NewArray(types.Typ[types.Int64], n), nil)
	}
	for _, shared := range []bool{false, true} {
		for _, order := range [][2]int64{{2, 64}, {64, 2}} {
			for _, wrap := range []string{"named", "slice-elem", "array"} {
				ctx := NewContext(token.NewFileSet(), sizes)
				ctx.SetPackageInfo(&types.Info{}, pkg)
				a := &CheckerContext{Context: ctx}
				b := a
				if shared {
					b = &CheckerContext{Context: ctx}
				}
				t1, t2 := mk(order[0]), mk(order[1])
				switch wrap {
				case "array":
					t1, t2 = types.NewArray(t1, 4), types.NewArray(t2, 4)
				case "slice-elem":
					t1, t2 = types.NewStruct([]*types.Var{types.NewField(0, pkg, "f", t1, false)}, nil), types.NewStruct([]*types.Var{types.NewField(0, pkg, "f", t2, false)}, nil)
				}
				a.SizeOf(t1)
				got, ok := b.SizeOf(t2)
				if ok && got != sizes.Sizeof(t2) {
					fmt.Printf("GSX-SIZEOF-DIFF shared-context=%v %s: after sizing %s (%d bytes), SizeOf(%s) = %d, the platform's size is %d\n", shared, wrap, t1, sizes.Sizeof(t1), t2, got, sizes.Sizeof(t2))
					return
				}
			}
		}
	}
	fmt.Println("GSX-SIZEOF-SAME")
}
`

func replaySizeOf(rc *runCtx, h *harness, v *interp.Violation, file string) (bool, string) {
	if v.Kind == "panic" {
		return false, "the harness's own reference call of Sizeof may give up (stub); not a statement about SizeOf"
	}
	tmp, err := os.MkdirTemp("", "gsx-sizeof-")
	if err != nil {
		return false, err.Error()
	}
	defer os.RemoveAll(tmp)
	tf := filepath.Join(tmp, "zz_verif_sizeof_test.go")
	os.WriteFile(tf, []byte(sizeOfTest), 0o644)
	out, err := runGoTest(tmp, map[string]string{filepath.Join(repoDir, "linter", "zz_verif_sizeof_test.go"): tf},
		[]string{"-v", "-vet=off", "-count=1", "-run", "^TestGSXSizeOf$", "./linter"}, nil)
	if err != nil {
		return false, err.Error()
	}
	for _, l := range strings.Split(out, "\n") {
		if strings.HasPrefix(l, "GSX-SIZEOF-DIFF") {
			return true, strings.TrimPrefix(l, "GSX-SIZEOF-DIFF ")
		}
	}
	return false, "native: same-named types of different sizes are sized independently (" + lastLines(out, 2) + ")"
}

// ---- C03 rule run context: native confirmation with a user rule that looks at the package path.
const rulePkgTest = `package checkers_test

import (
	"fmt"
	"go/ast"
	"go/importer"
	"go/parser"
	"go/token"
	"go/types"
	"os"
	"path/filepath"
	"testing"

	"github.com/go-critic/go-critic/checkers"
	"github.com/go-critic/go-critic/linter"
)

const gsxPkgRule = "package gorules\n\nimport \"github.com/quasilyte/go-ruleguard/dsl\"\n\nfunc inB(m dsl.Matcher) {\n\tm.Match(` + "`gsxTarget($x)`" + `).Where(m.File().PkgPath.Matches(\"^b$\")).Report(\"target in package b\")\n}\n"

func TestGSXRulePkg(t *testing.T) {
	_ = checkers.InitEmbeddedRules
	dir := t.TempDir()
	rules := filepath.Join(dir, "rules.go")
	os.WriteFile(rules, []byte(gsxPkgRule), 0o644)
	fset := token.NewFileSet()
	load := func(path string) (*ast.File, *types.Info, *types.Package) {
		f, err := parser.ParseFile(fset, path+".go", "package "+path+"\n\nfunc gsxTarget(x int) {}\n\nfunc f() { gsxTarget(1) }\n", 0)
		if err != nil {
			t.Fatal(err)
		}
		tinfo := &types.Info{Types: map[ast.Expr]types.TypeAndValue{}, Defs: map[*ast.Ident]types.Object{}, Uses: map[*ast.Ident]types.Object{},
			Implicits: map[ast.Node]types.Object{}, Selections: map[*ast.SelectorExpr]*types.Selection{}, Scopes: map[ast.Node]*types.Scope{}}
		pkg, err := (&types.Config{Importer: importer.Default()}).Check(path, fset, []*ast.File{f}, tinfo)
		if err != nil {
			t.Fatal(err)
		}
		return f, tinfo, pkg
	}
	var info *linter.CheckerInfo
	for _, x := range linter.GetCheckersInfo() {
		if x.Name == "ruleguard" {
			info = x
		}
	}
	info.Params["rules"].Value = rules
	run := func(order []string) string {
		ctx := linter.NewContext(fset, types.SizesFor("gc", "amd64"))
		c, err := linter.NewChecker(ctx, info)
		if err != nil {
			t.Fatal(err)
		}
		out := ""
		for _, p := range order {
			f, tinfo, pkg := load(p)
			ctx.SetPackageInfo(tinfo, pkg)
			ctx.SetFileInfo(p+".go", f)
			out = fmt.Sprint(len(c.Check(f)))
		}
		return out // diagnostics of the last file
	}
	fresh, after := run([]string{"b"}), run([]string{"a", "b"})
	fresh2, after2 := run([]string{"a"}), run([]string{"b", "a"})
	if fresh != after || fresh2 != after2 {
		fmt.Printf("GSX-RULEPKG-DIFF diagnostics for package b: %s fresh, %s after package a; for package a: %s fresh, %s after package b\n", fresh, after, fresh2, after2)
		return
	}
	fmt.Println("GSX-RULEPKG-SAME", fresh, fresh2)
}
`

func replayRulePkg(rc *runCtx, h *harness, v *interp.Violation, file string) (bool, string) {
	if v.Kind == "panic" {
		return false, "engine model"
	}
	tmp, err := os.MkdirTemp("", "gsx-rulepkg-")
	if err != nil {
		return false, err.Error()
	}
	defer os.RemoveAll(tmp)
	tf := filepath.Join(tmp, "zz_verif_rulepkg_test.go")
	os.WriteFile(tf, []byte(rulePkgTest), 0o644)
	out, err := runGoTest(tmp, map[string]string{filepath.Join(repoDir, "checkers", "zz_verif_rulepkg_test.go"): tf},
		[]string{"-v", "-vet=off", "-count=1", "-run", "^TestGSXRulePkg$", "./checkers"}, nil)
	if err != nil {
		return false, err.Error()
	}
	for _, l := range strings.Split(out, "\n") {
		if strings.HasPrefix(l, "GSX-RULEPKG-DIFF") {
			return true, strings.TrimPrefix(l, "GSX-RULEPKG-DIFF ")
		}
	}
	if strings.Contains(out, "GSX-RULEPKG-SAME 1 0") {
		return false, "native: the user rule sees the package of the file being analysed in both orders"
	}
	return false, "native run inconclusive: " + lastLines(out, 3)
}

// ---- C12 caseOrder: native confirmation. The real checker analyses a small family of
// programs (a nil case after an interface case; same-named function-local types of which
// only one implements the interface, in both orders); every "case X must go before the Y
// case" diagnostic is judged with go/types: X must be a type (not nil) implementing Y.
var caseOrderPrograms = []string{
	"package cand\n\nfunc f(v interface{}) int {\n\tswitch v.(type) {\n\tcase interface{}:\n\t\treturn 1\n\tcase nil:\n\t\treturn 2\n\t}\n\treturn 0\n}\n",
	"package cand\n\nfunc f(v interface{}) int {\n\tswitch v.(type) {\n\tcase any:\n\t\treturn 1\n\tcase nil:\n\t\treturn 2\n\t}\n\treturn 0\n}\n",
	"package cand\n\ntype base struct{}\n\nfunc (base) Error() string { return \"\" }\n\nfunc f1(v interface{}) int {\n\ttype failure struct{ base }\n\tswitch v.(type) {\n\tcase error:\n\t\treturn 1\n\tcase failure:\n\t\treturn 2\n\t}\n\treturn 0\n}\n\nfunc f2(v interface{}) int {\n\ttype failure struct{ code int }\n\tswitch v.(type) {\n\tcase error:\n\t\treturn 1\n\tcase failure:\n\t\treturn 2\n\t}\n\treturn 0\n}\n",
	"package cand\n\ntype base struct{}\n\nfunc (base) Error() string { return \"\" }\n\nfunc f2(v interface{}) int {\n\ttype failure struct{ code int }\n\tswitch v.(type) {\n\tcase error:\n\t\treturn 1\n\tcase failure:\n\t\treturn 2\n\t}\n\treturn 0\n}\n\nfunc f1(v interface{}) int {\n\ttype failure struct{ base }\n\tswitch v.(type) {\n\tcase error:\n\t\treturn 1\n\tcase failure:\n\t\treturn 2\n\t}\n\treturn 0\n}\n",
}

func replayCaseOrder(rc *runCtx, h *harness, v *interp.Violation, file string) (bool, string) {
	if v.Kind == "panic" {
		return false, "harness"
	}
	results, err := runRealised("caseOrder", nil, caseOrderPrograms, "")
	if err != nil {
		return false, err.Error()
	}
	for i, r := range results {
		if r.Status != "OK" || i >= len(caseOrderPrograms) {
			continue
		}
		var ws []struct {
			Text   string
			Offset int
			Line   int
		}
		json.Unmarshal([]byte(r.JSON), &ws)
		if len(ws) == 0 {
			continue
		}
		src := caseOrderPrograms[i]
		_, f, info, _, err := tvLoad(src)
		if err != nil {
			continue
		}
		for _, w := range ws {
			// the clause at the diagnostic's offset
			var clause *ast.CaseClause
			var sw *ast.TypeSwitchStmt
			ast.Inspect(f, func(n ast.Node) bool {
				if s, ok := n.(*ast.TypeSwitchStmt); ok {
					for _, st := range s.Body.List {
						if cc, ok := st.(*ast.CaseClause); ok && int(cc.Pos())-1 == w.Offset {
							clause, sw = cc, s
						}
					}
				}
				return true
			})
			if clause == nil {
				continue
			}
			justified := false
			for _, x := range clause.List {
				t := info.Types[x].Type
				if b, ok := t.(*types.Basic); ok && b.Kind() == types.UntypedNil {
					continue
				}
				for _, st := range sw.Body.List {
					cc := st.(*ast.CaseClause)
					if cc == clause {
						break
					}
					for _, y := range cc.List {
						if it, ok := info.Types[y].Type.Underlying().(*types.Interface); ok && t != nil && types.Implements(t, it) {
							justified = true
						}
					}
				}
			}
			if !justified {
				return true, fmt.Sprintf("the real checker reports %q (line %d) for a clause that can be reached where it stands: %s", w.Text, w.Line, strings.ReplaceAll(src, "\n", "⏎"))
			}
		}
	}
	return false, "native: every reported clause is a type implementing an earlier interface case"
}

// ---- C14 analyzer parameters: native confirmation with the real analyzer and the real
// hugeParam checker: two passes in one process (checker cache disabled), the flag set to
// the model's values; the diagnostics of the second pass must be those of a fresh
// process given the second value.
const analyzerParamTest = `package analyzer

import (
	"fmt"
	"go/ast"
	"go/importer"
	"go/parser"
	"go/token"
	"go/types"
	"os"
	"strconv"
	"testing"

	_ "github.com/go-critic/go-critic/checkers"
	"golang.org/x/tools/go/analysis"
)

func TestGSXAnalyzerParam(t *testing.T) {
	v1, _ := strconv.Atoi(os.Getenv("GSX_V1"))
	v2, _ := strconv.Atoi(os.Getenv("GSX_V2"))
	size := (v1 + v2) / 2 // a parameter whose size lies between the two thresholds tells them apart
	src := "package p\n\ntype big struct{ a [" + strconv.Itoa(size) + "]byte }\n\nfunc f(x big) {}\n"
	run := func() int {
		fset := token.NewFileSet()
		f, err := parser.ParseFile(fset, "p.go", src, 0)
		if err != nil {
			t.Fatal(err)
		}
		info := &types.Info{Types: map[ast.Expr]types.TypeAndValue{}, Defs: map[*ast.Ident]types.Object{}, Uses: map[*ast.Ident]types.Object{},
			Implicits: map[ast.Node]types.Object{}, Selections: map[*ast.SelectorExpr]*types.Selection{}, Scopes: map[ast.Node]*types.Scope{}}
		pkg, err := (&types.Config{Importer: importer.Default()}).Check("p", fset, []*ast.File{f}, info)
		if err != nil {
			t.Fatal(err)
		}
		n := 0
		pass := &analysis.Pass{Analyzer: Analyzer, Fset: fset, Files: []*ast.File{f}, Pkg: pkg, TypesInfo: info, TypesSizes: types.SizesFor("gc", "amd64"),
			Report: func(analysis.Diagnostic) { n++ }}
		if _, err := Analyzer.Run(pass); err != nil {
			t.Fatal(err)
		}
		return n
	}
	DisableCache = true
	Analyzer.Flags.Set("enable", "hugeParam")
	Analyzer.Flags.Set("disable", "")
	// the parameter is reported iff its size reaches the threshold
	want := func(v int) int {
		if size >= v {
			return 1
		}
		return 0
	}
	Analyzer.Flags.Set("@hugeParam.sizeThreshold", strconv.Itoa(v1))
	n1 := run()
	Analyzer.Flags.Set("@hugeParam.sizeThreshold", strconv.Itoa(v2))
	n2 := run()
	if n1 != want(v1) || n2 != want(v2) {
		fmt.Printf("GSX-PARAM-DIFF a parameter of the size between the thresholds: threshold %d gives %d diagnostic(s) (expected %d); then threshold %d in the same process gives %d (expected %d)\n", v1, n1, want(v1), v2, n2, want(v2))
		return
	}
	fmt.Println("GSX-PARAM-SAME")
}
`

func replayAnalyzerParam(rc *runCtx, h *harness, v *interp.Violation, file string) (bool, string) {
	if v.Kind == "panic" {
		return false, "harness"
	}
	get := func(k string) int64 {
		if mv, ok := v.Model[k+"?i"]; ok && mv.I != nil {
			return mv.I.Int64()
		}
		return 0
	}
	// the harness checker's default is 7, hugeParam's is 80: a model value equal to the
	// default (the interesting boundary) is translated to the real checker's default
	conv := func(x int64) int64 {
		if x == 7 {
			return 80
		}
		if x == 80 {
			return 7
		}
		return x
	}
	v1, v2 := conv(get("flag in pass 1")), conv(get("flag in pass 2"))
	tmp, err := os.MkdirTemp("", "gsx-aparam-")
	if err != nil {
		return false, err.Error()
	}
	defer os.RemoveAll(tmp)
	tf := filepath.Join(tmp, "zz_verif_aparam_test.go")
	os.WriteFile(tf, []byte(analyzerParamTest), 0o644)
	out, err := runGoTest(tmp, map[string]string{filepath.Join(repoDir, "checkers", "analyzer", "zz_verif_aparam_test.go"): tf},
		[]string{"-v", "-vet=off", "-count=1", "-run", "^TestGSXAnalyzerParam$", "./checkers/analyzer"}, []string{fmt.Sprintf("GSX_V1=%d", v1), fmt.Sprintf("GSX_V2=%d", v2)})
	if err != nil {
		return false, err.Error()
	}
	for _, l := range strings.Split(out, "\n") {
		if strings.HasPrefix(l, "GSX-PARAM-DIFF") {
			return true, strings.TrimPrefix(l, "GSX-PARAM-DIFF ")
		}
	}
	return false, "native: both passes use the value of their flag (" + lastLines(out, 2) + ")"
}

// replayParamCombine rebuilds the function of the model with a call site that uses the
// signature, lets the real checker suggest, substitutes the suggestion and type-checks.
func replayParamCombine(rc *runCtx, h *harness, v *interp.Violation, file string) (bool, string) {
	if v.Kind == "panic" {
		return false, "harness"
	}
	ch := func(k string) int {
		if mv, ok := v.Model["choose:"+k+"?c"]; ok && mv.I != nil {
			return int(mv.I.Int64())
		}
		return 0
	}
	nfields := 2 + ch("fields")
	var fields, callArgs []string
	letter := 0
	for i := 0; i < nfields; i++ {
		p := fmt.Sprintf("field%d", i)
		kind, nn := ch(p+".type"), 1+ch(p+".names")
		var names []string
		for k := 0; k < nn; k++ {
			names = append(names, string(rune('a'+letter)))
			letter++
			switch kind {
			case 0:
				callArgs = append(callArgs, "1")
			case 1:
				callArgs = append(callArgs, `"s"`)
			case 2:
				callArgs = append(callArgs, "nil")
			default:
				callArgs = append(callArgs, "1", "2", "3")
			}
		}
		fields = append(fields, strings.Join(names, ", ")+" "+[]string{"int", "string", "[]int", "...int"}[kind&3])
	}
	src := "package cand\n\nfunc gsxF(" + strings.Join(fields, ", ") + ") {}\n\nfunc gsxUse() { gsxF(" + strings.Join(callArgs, ", ") + ") }\n"
	if ok, msg := typeCheck(src); !ok {
		return false, "the rebuilt program does not type-check: " + msg
	}
	results, err := runRealised("paramTypeCombine", nil, []string{src}, "")
	if err != nil || len(results) == 0 || results[0].Status != "OK" {
		return false, fmt.Sprintf("native run failed: %v", err)
	}
	var ws []struct{ Text string }
	json.Unmarshal([]byte(results[0].JSON), &ws)
	for _, w := range ws {
		i := strings.Index(w.Text, " could be replaced with ")
		if i < 0 {
			continue
		}
		orig, sugg := w.Text[:i], w.Text[i+len(" could be replaced with "):]
		old := "func gsxF" + strings.TrimPrefix(orig, "func")
		if !strings.Contains(src, old) {
			continue
		}
		fixed := strings.Replace(src, old, "func gsxF"+strings.TrimPrefix(sugg, "func"), 1)
		if ok, msg := typeCheck(fixed); !ok {
			return true, fmt.Sprintf("the real checker suggests %q for %q; with it the file no longer type-checks: %s | %s", sugg, orig, msg, strings.ReplaceAll(src, "\n", "⏎"))
		}
	}
	return false, "native: the suggested signature type-checks with the existing call"
}

// ---- C05 SizeOf: native confirmation that sizing a type writes to the shared context.
const ctxSizeOfTest = `package linter

import (
	"fmt"
	"go/token"
	"go/types"
	"testing"
)

func TestGSXCtxSizeOf(t *testing.T) {
	sizes := types.SizesFor("gc", "amd64")
	ctx := NewContext(token.NewFileSet(), sizes)
	ctx.SetPackageInfo(&types.Info{}, types.NewPackage("p", "p"))
	cc := &CheckerContext{Context: ctx}
	before := fmt.Sprintf("%#v", *ctx)
	cc.SizeOf(types.NewArray(types.Typ[types.Int64], 4))
	cc.SizeOf(types.NewNamed(types.NewTypeName(token.NoPos, ctx.Pkg, "T", nil), types.NewStruct(nil, nil), nil))
	after := fmt.Sprintf("%#v", *ctx)
	if before != after {
		i := 0
		for i < len(before) && i < len(after) && before[i] == after[i] {
			i++
		}
		lo := i - 60
		if lo < 0 {
			lo = 0
		}
		hi := func(s string) int {
			if i+80 < len(s) {
				return i + 80
			}
			return len(s)
		}
		fmt.Printf("GSX-CTX-DIFF the shared linter.Context differs after SizeOf: ...%s  =>  ...%s\n", before[lo:hi(before)], after[lo:hi(after)])
		return
	}
	fmt.Println("GSX-CTX-SAME")
}
`

func replayCtxSizeOf(rc *runCtx, h *harness, v *interp.Violation, file string) (bool, string) {
	if v.Kind != "write" {
		return false, "not a write"
	}
	tmp, err := os.MkdirTemp("", "gsx-ctxsizeof-")
	if err != nil {
		return false, err.Error()
	}
	defer os.RemoveAll(tmp)
	tf := filepath.Join(tmp, "zz_verif_ctxsizeof_test.go")
	os.WriteFile(tf, []byte(ctxSizeOfTest), 0o644)
	out, err := runGoTest(tmp, map[string]string{filepath.Join(repoDir, "linter", "zz_verif_ctxsizeof_test.go"): tf},
		[]string{"-v", "-vet=off", "-count=1", "-run", "^TestGSXCtxSizeOf$", "./linter"}, nil)
	if err != nil {
		return false, err.Error()
	}
	for _, l := range strings.Split(out, "\n") {
		if strings.HasPrefix(l, "GSX-CTX-DIFF") {
			return true, strings.TrimPrefix(l, "GSX-CTX-DIFF ")
		}
	}
	return false, "native: the context is unchanged after SizeOf (" + lastLines(out, 2) + ")"
}
