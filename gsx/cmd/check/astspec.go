package main

// Well-formedness tables for lazily initialised inputs, generated on every
// run from the go/ast sources of the toolchain the check is built with (what
// go/parser guarantees), plus a small hand-written part for token values.

import (
	"go/ast"
	"go/parser"
	"go/token"
	"path/filepath"
	"regexp"
	"runtime"
	"strings"

	"gsx/interp"
)

var lenGtRE = regexp.MustCompile(`len\((\w+)\) > 0`)

func buildLazySpec() (*interp.LazySpec, error) {
	spec := &interp.LazySpec{
		Nullable: map[string]bool{}, MinLen: map[string]int{}, AlwaysNil: map[string]bool{},
		IntSet: map[string][]int64{}, StringRe: map[string]string{}, OptPos: map[string]bool{},
		Universe: map[string][]string{}, Leaf: map[string][]string{},
	}
	src := filepath.Join(runtime.GOROOT(), "src", "go", "ast", "ast.go")
	fset := token.NewFileSet()
	f, err := parser.ParseFile(fset, src, nil, parser.ParseComments)
	if err != nil {
		return nil, err
	}
	for _, d := range f.Decls {
		gd, ok := d.(*ast.GenDecl)
		if !ok || gd.Tok != token.TYPE {
			continue
		}
		for _, s := range gd.Specs {
			ts := s.(*ast.TypeSpec)
			st, ok := ts.Type.(*ast.StructType)
			if !ok {
				continue
			}
			for _, fld := range st.Fields.List {
				text := ""
				if fld.Comment != nil {
					text = fld.Comment.Text()
				}
				if fld.Doc != nil {
					text += " " + fld.Doc.Text()
				}
				for _, name := range fld.Names {
					key := "go/ast." + ts.Name.Name + "." + name.Name
					if strings.Contains(text, "or nil") || strings.Contains(text, "nil means") || strings.Contains(text, "may be nil") || strings.Contains(text, "nil for ") {
						spec.Nullable[key] = true
					}
					if sel, ok := fld.Type.(*ast.SelectorExpr); ok && sel.Sel.Name == "Pos" {
						if strings.Contains(text, "if any") || strings.Contains(text, "NoPos") || strings.Contains(text, "or 0") {
							spec.OptPos[key] = true
						}
					}
					for _, m := range lenGtRE.FindAllStringSubmatch(text, -1) {
						if m[1] == name.Name {
							spec.MinLen[key] = 1
						}
					}
				}
			}
		}
	}
	// grammar facts not spelled out in field comments
	for _, k := range []string{"go/ast.AssignStmt.Lhs", "go/ast.AssignStmt.Rhs", "go/ast.ValueSpec.Names", "go/ast.CommentGroup.List"} {
		spec.MinLen[k] = 1
	}
	// deprecated object-resolution links and file-level bookkeeping are left empty
	for _, k := range []string{"go/ast.Ident.Obj", "go/ast.File.Scope", "go/ast.File.Unresolved", "go/ast.LabeledStmt.Obj",
		"go/ast.File.GoVersion"} {
		spec.AlwaysNil[k] = true
	}
	toks := func(ts ...token.Token) []int64 {
		var out []int64
		for _, t := range ts {
			out = append(out, int64(t))
		}
		return out
	}
	spec.IntSet["go/ast.BinaryExpr.Op"] = toks(token.ADD, token.SUB, token.MUL, token.QUO, token.REM, token.AND, token.OR, token.XOR, token.SHL, token.SHR,
		token.AND_NOT, token.LAND, token.LOR, token.EQL, token.LSS, token.GTR, token.NEQ, token.LEQ, token.GEQ)
	spec.IntSet["go/ast.UnaryExpr.Op"] = toks(token.ADD, token.SUB, token.NOT, token.XOR, token.AND, token.ARROW, token.TILDE)
	spec.IntSet["go/ast.AssignStmt.Tok"] = toks(token.ASSIGN, token.DEFINE, token.ADD_ASSIGN, token.SUB_ASSIGN, token.MUL_ASSIGN, token.QUO_ASSIGN, token.REM_ASSIGN,
		token.AND_ASSIGN, token.OR_ASSIGN, token.XOR_ASSIGN, token.SHL_ASSIGN, token.SHR_ASSIGN, token.AND_NOT_ASSIGN)
	spec.IntSet["go/ast.IncDecStmt.Tok"] = toks(token.INC, token.DEC)
	spec.IntSet["go/ast.BasicLit.Kind"] = toks(token.INT, token.FLOAT, token.IMAG, token.CHAR, token.STRING)
	spec.IntSet["go/ast.BranchStmt.Tok"] = toks(token.BREAK, token.CONTINUE, token.GOTO, token.FALLTHROUGH)
	spec.IntSet["go/ast.GenDecl.Tok"] = toks(token.IMPORT, token.CONST, token.TYPE, token.VAR)
	spec.IntSet["go/ast.RangeStmt.Tok"] = toks(token.ILLEGAL, token.ASSIGN, token.DEFINE)
	spec.IntSet["go/ast.ChanType.Dir"] = []int64{1, 2, 3}
	spec.StringRe["go/ast.Ident.Name"] = `^[A-Za-z_][A-Za-z0-9_]*$`
	spec.StringRe["go/ast.BasicLit.Value"] = `^.+$`
	// a comment is a //-line without line break or a /* */ block (the scanner's two forms)
	spec.StringRe["go/ast.Comment.Text"] = "^(//[\\t -~]*|/\\*[\\t\\n -)+-~]*\\*/)$" // printable ASCII; block comments without an inner '*': bounds

	spec.Leaf["go/ast.Expr"] = []string{"*go/ast.Ident", "*go/ast.BasicLit", "*go/ast.BadExpr"}
	spec.Leaf["go/ast.Stmt"] = []string{"*go/ast.EmptyStmt", "*go/ast.BadStmt"}
	spec.Leaf["go/ast.Decl"] = []string{"*go/ast.BadDecl"}
	spec.Leaf["go/ast.Node"] = []string{"*go/ast.Ident"}
	spec.Universe["go/types.Type"] = []string{"*go/types.Basic", "*go/types.Pointer", "*go/types.Named", "*go/types.Slice", "*go/types.Array", "*go/types.Map",
		"*go/types.Struct", "*go/types.Signature", "*go/types.Interface", "*go/types.Tuple", "*go/types.Chan", "*go/types.TypeParam", "*go/types.Alias"}
	spec.Leaf["go/types.Type"] = []string{"*go/types.Basic"}
	spec.Universe["go/types.Object"] = []string{"*go/types.Var", "*go/types.Func", "*go/types.TypeName", "*go/types.PkgName", "*go/types.Const", "*go/types.Builtin", "*go/types.Nil"}
	spec.Leaf["go/types.Object"] = []string{"*go/types.Var"}
	return spec, nil
}
