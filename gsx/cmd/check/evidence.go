package main

import (
	"encoding/json"
	"fmt"
	"os"
	"path/filepath"
	"sort"
	"strings"
	"time"

	"gsx/interp"
)

type harnessEvidence struct {
	Harness       string         `json:"harness"`
	Package       string         `json:"package"`
	Bounds        map[string]int `json:"bounds"`
	Solver        string         `json:"solver"`
	Paths         int            `json:"paths_explored"`
	Pruned        int            `json:"paths_pruned_by_assumption"`
	Forks         int            `json:"fork_points"`
	MaxDepth      int            `json:"max_decision_depth"`
	Steps         int64          `json:"ssa_instructions_executed"`
	Queries       int            `json:"solver_queries"`
	Sat           int            `json:"sat"`
	Unsat         int            `json:"unsat"`
	Unknown       int            `json:"unknown"`
	SolverErrors  int            `json:"solver_errors"`
	SolverSeconds float64        `json:"solver_seconds"`
	WallSeconds   float64        `json:"wall_seconds"`
	Asserts       int            `json:"assertion_checks"`
	Inconclusive  []string       `json:"inconclusive,omitempty"`
	Unexplored    []string       `json:"unexplored_or_cut_paths,omitempty"`
	Reached       map[string]int `json:"reachability_witnesses"`
	Candidates    int            `json:"violation_candidate_classes"`
	Confirmed     int            `json:"confirmed_by_replay"`
	Unconfirmed   int            `json:"unconfirmed"`
	Validated     int            `json:"paths_validated_natively"`
	Functions     []string       `json:"functions_encoded"`
	Samples       []string       `json:"samples,omitempty"`
}

type evidence struct {
	rc              *runCtx
	spec            *property
	Harnesses       []*harnessEvidence
	Broken          []string
	Unconfirmed     []string
	Violations      int
	Known           int
	TracesValidated int
	Exit            int
	ExtraCoverage   map[string]interface{}
	ExtraSamples    []interface{}
	ExtraStates     int
	ExtraTrans      int
}

func newEvidence(rc *runCtx, spec *property) *evidence {
	return &evidence{rc: rc, spec: spec, ExtraCoverage: map[string]interface{}{}}
}

func (ev *evidence) addHarness(h *harness, res *interp.Result, bounds map[string]int, opts interp.Options) *harnessEvidence {
	he := &harnessEvidence{Harness: h.Name, Package: h.Pkg, Bounds: bounds, Solver: opts.Solver,
		Paths: res.Paths, Pruned: res.Pruned, Forks: res.Forks, MaxDepth: res.MaxDepth, Steps: res.Steps,
		Queries: res.Stats.Queries, Sat: res.Stats.Sat, Unsat: res.Stats.Unsat, Unknown: res.Stats.Unknown, SolverErrors: res.Stats.Errors,
		SolverSeconds: res.Stats.SolveTime.Seconds(), WallSeconds: res.Wall.Seconds(), Asserts: res.Asserts,
		Reached: res.Reached, Samples: res.Samples}
	if !h.Tolerant {
		he.Inconclusive = res.Inconclusive
	}
	if he.Solver == "" {
		he.Solver = "cvc5"
	}
	for f := range res.Funcs {
		he.Functions = append(he.Functions, f)
	}
	sort.Strings(he.Functions)
	if len(he.Functions) > 80 {
		he.Functions = append(he.Functions[:80], fmt.Sprintf("… and %d more", len(he.Functions)-80))
	}
	ev.Harnesses = append(ev.Harnesses, he)
	return he
}

func (ev *evidence) write(rc *runCtx) {
	states, trans := ev.ExtraStates, ev.ExtraTrans
	var samples []interface{}
	queries, solverS := 0, 0.0
	for _, h := range ev.Harnesses {
		states += h.Paths + h.Pruned
		trans += h.Forks
		queries += h.Queries
		solverS += h.SolverSeconds
		for _, s := range h.Samples {
			if len(samples) < 12 {
				samples = append(samples, h.Harness+": "+s)
			}
		}
	}
	samples = append(samples, ev.ExtraSamples...)
	if len(samples) == 0 {
		samples = append(samples, "no paths explored")
	}
	if states < 1 {
		states = 1
	}
	if trans < 1 {
		trans = 1
	}
	cov := map[string]interface{}{
		"states":                        states,
		"transitions":                   trans,
		"traces_validated_against_impl": ev.TracesValidated,
		"samples":                       samples,
		"explanation": "states = symbolic execution paths of the real SSA (each stands for all inputs satisfying its path condition); " +
			"transitions = solver-decided fork points; traces validated = explored paths / counterexamples concretised from a solver model and re-run natively against /repo's build",
		"harnesses":              ev.Harnesses,
		"solver_queries":         queries,
		"solver_seconds":         solverS,
		"violations_confirmed":   ev.Violations,
		"known_findings_matched": ev.Known,
		"unconfirmed_candidates": ev.Unconfirmed,
		"broken":                 ev.Broken,
		"exit":                   ev.Exit,
	}
	if ev.spec.Level == "translation_validation" {
		cov["programs"] = states
		cov["disagreements_checked"] = ev.TracesValidated
	}
	// diagnostic-level properties: on which checkers did an explored path produce a diagnostic at all?
	if rc.id == "C07" || rc.id == "C09" {
		with, without := map[string]bool{}, map[string]bool{}
		for _, h := range ev.Harnesses {
			name := strings.TrimPrefix(strings.TrimPrefix(h.Harness, "gsxVisit_"), "gsxWalk_")
			if name == h.Harness {
				continue
			}
			if h.Reached["warning"] > 0 {
				with[name] = true
			} else {
				without[name] = true
			}
		}
		var none []string
		for n := range without {
			if !with[n] {
				none = append(none, n)
			}
		}
		sort.Strings(none)
		cov["checkers_with_a_diagnostic_on_an_explored_path"] = len(with)
		cov["checkers_without_a_diagnostic_within_the_bounds"] = none
	}
	for k, v := range ev.ExtraCoverage {
		cov[k] = v
	}
	doc := map[string]interface{}{
		"property_id": rc.id,
		"tier":        rc.tier,
		"seed":        rc.seed,
		"level":       ev.spec.Level,
		"coverage":    cov,
		"assumptions": append([]string{}, ev.spec.Assumptions...),
		"wall_s":      time.Since(rc.start).Seconds(),
		"violations":  ev.Violations,
	}
	os.MkdirAll(filepath.Join(outDir, "evidence"), 0o755)
	data, _ := json.MarshalIndent(doc, "", " ")
	os.WriteFile(filepath.Join(outDir, "evidence", rc.id+".json"), data, 0o644)
}
