package main

// C04 (ConcHB): happens-before encoding of go-critic's two concurrent drivers.
// The SSA of (*program).checkFile (both CLI copies) and of the analyzer's
// runAnalyzer/prepareGocritic chain is walked into per-thread event lists
// (memory accesses with a location term, go, WaitGroup, Mutex); the SMT
// solver then decides, over integer clocks, whether two conflicting accesses
// can be ordered either way under the synchronisation constraints (a data
// race / an order-dependent output).

import (
	"fmt"
	"go/types"
	"os"
	"path/filepath"
	"sort"
	"strings"
	"time"

	"golang.org/x/tools/go/ssa"

	"gsx/interp"
)

type hbEvent struct {
	thread string
	seq    int
	kind   string // read write go wait done lock unlock out
	loc    string
	pos    string
	target string // for go: spawned thread; for lock/unlock: mutex loc
}

type hbThread struct {
	name   string
	events []*hbEvent
}

type hbModel struct {
	threads map[string]*hbThread
	order   []string
	notes   []string
}

func (m *hbModel) thread(name string) *hbThread {
	t := m.threads[name]
	if t == nil {
		t = &hbThread{name: name}
		m.threads[name] = t
		m.order = append(m.order, name)
	}
	return t
}

func (m *hbModel) add(th, kind, loc, pos, target string) *hbEvent {
	t := m.thread(th)
	e := &hbEvent{thread: th, seq: len(t.events), kind: kind, loc: loc, pos: pos, target: target}
	t.events = append(t.events, e)
	return e
}

// extractor walks SSA functions abstractly.
type hbExtractor struct {
	prog  *ssa.Program
	m     *hbModel
	N     int
	depth int
	pkg   *ssa.Package
	cur   string // thread being walked
}

// absVal: abstract description of an SSA value that is (or holds) an address.
type absEnv map[ssa.Value]string

func inLoop(b *ssa.BasicBlock) bool {
	// a block is in a loop if it can reach itself
	seen := map[*ssa.BasicBlock]bool{}
	var stack []*ssa.BasicBlock
	stack = append(stack, b.Succs...)
	for len(stack) > 0 {
		x := stack[len(stack)-1]
		stack = stack[:len(stack)-1]
		if x == b {
			return true
		}
		if seen[x] {
			continue
		}
		seen[x] = true
		stack = append(stack, x.Succs...)
	}
	return false
}

// loc computes the location term of an address-valued SSA value.
func (x *hbExtractor) loc(v ssa.Value, env absEnv, iter string) string {
	if l, ok := env[v]; ok {
		return l
	}
	switch v := v.(type) {
	case *ssa.Alloc:
		name := v.Comment
		if name == "" {
			name = v.Name()
		}
		// an allocation belongs to the thread that executes it (other threads see it only
		// through closure bindings / arguments, which carry this very term)
		l := v.Parent().Name() + ":" + name + "#" + x.cur
		if v.Heap && inLoop(v.Block()) {
			l += "@" + iter // a fresh variable per iteration (Go 1.22 loop semantics included)
		} else if !v.Heap {
			l += "@" + iter + ".local"
		}
		return l
	case *ssa.Global:
		return "global:" + v.Name()
	case *ssa.FieldAddr:
		st := v.X.Type().Underlying().(*types.Pointer).Elem().Underlying().(*types.Struct)
		return x.pointee(v.X, env, iter) + "." + st.Field(v.Field).Name()
	case *ssa.IndexAddr:
		return x.pointee(v.X, env, iter) + "[" + x.indexKey(v.Index, env, iter) + "]"
	case *ssa.Parameter:
		return "param:" + v.Name() + "#" + x.cur // unbound parameters are taken as thread-local
	case *ssa.FreeVar:
		return "free:" + v.Name()
	}
	return "?" + v.Name()
}

// pointee: the object a pointer/slice-valued SSA value refers to.
func (x *hbExtractor) pointee(v ssa.Value, env absEnv, iter string) string {
	switch v := v.(type) {
	case *ssa.UnOp: // load of a pointer/slice variable
		return "*" + x.loc(v.X, env, iter)
	case *ssa.Parameter, *ssa.FreeVar, *ssa.Alloc, *ssa.Global:
		return "*" + x.loc(v, env, iter)
	case *ssa.Slice:
		return x.pointee(v.X, env, iter)
	case *ssa.Call:
		if b, ok := v.Call.Value.(*ssa.Builtin); ok && b.Name() == "append" {
			return x.pointee(v.Call.Args[0], env, iter) // may write in place into the same backing array
		}
	}
	// an object reached through something the walk cannot name (typically the result of a
	// call): taken as belonging to the executing thread
	return "?obj:" + v.Name() + "#" + x.cur
}

// indexKey: a term for an index value; the induction variable of the
// spawning loop becomes the iteration number.
func (x *hbExtractor) indexKey(v ssa.Value, env absEnv, iter string) string {
	switch v := v.(type) {
	case *ssa.Const:
		return v.Value.String()
	case *ssa.UnOp: // load from a variable
		l := x.loc(v.X, env, iter)
		if strings.Contains(l, "@") { // a per-iteration variable holds this iteration's index
			return "idx" + l[strings.Index(l, "@"):]
		}
		return "any(" + l + ")"
	case *ssa.Phi, *ssa.BinOp:
		return "idx@" + iter
	}
	return "any"
}

func calleeName(c *ssa.CallCommon) string {
	if f := c.StaticCallee(); f != nil {
		return f.String()
	}
	if b, ok := c.Value.(*ssa.Builtin); ok {
		return "builtin:" + b.Name()
	}
	if c.Method != nil {
		return "invoke:" + c.Method.Name()
	}
	return "dynamic"
}

// walk emits the events of fn executed by thread th.
func (x *hbExtractor) walk(fn *ssa.Function, th string, env absEnv, iter string, spawnLoop bool) {
	x.depth++
	saved := x.cur
	x.cur = th
	defer func() { x.depth--; x.cur = saved }()
	if x.depth > 6 || fn.Blocks == nil {
		return
	}
	var deferred []func()
	pos := func(i ssa.Instruction) string { return x.prog.Fset.Position(i.Pos()).String() }
	workers := 0
	var visit func(b *ssa.BasicBlock, it string)
	visitInstr := func(ins ssa.Instruction, it string) {
		switch ins := ins.(type) {
		case *ssa.Store:
			x.m.add(th, "write", x.loc(ins.Addr, env, it), pos(ins), "")
		case *ssa.UnOp:
			if ins.Op.String() == "*" {
				x.m.add(th, "read", x.loc(ins.X, env, it), pos(ins), "")
			}
		case *ssa.MapUpdate:
			x.m.add(th, "write", x.pointee(ins.Map, env, it)+"[map]", pos(ins), "")
		case *ssa.Lookup:
			x.m.add(th, "read", x.pointee(ins.X, env, it)+"[map]", pos(ins), "")
		case *ssa.Go:
			mc, ok := ins.Call.Value.(*ssa.MakeClosure)
			if !ok {
				x.m.notes = append(x.m.notes, "go statement without a closure literal at "+pos(ins))
				return
			}
			w := fmt.Sprintf("%s/worker%s", th, it)
			x.m.add(th, "go", "", pos(ins), w)
			cenv := absEnv{}
			cfn := mc.Fn.(*ssa.Function)
			for k, fv := range cfn.FreeVars {
				cenv[fv] = x.loc(mc.Bindings[k], env, it)
			}
			x.walk(cfn, w, cenv, it, false)
			workers++
		case *ssa.Defer:
			if mc, ok := ins.Call.Value.(*ssa.MakeClosure); ok {
				cfn := mc.Fn.(*ssa.Function)
				cenv := absEnv{}
				for k, fv := range cfn.FreeVars {
					cenv[fv] = x.loc(mc.Bindings[k], env, it)
				}
				itc := it
				deferred = append(deferred, func() { x.walk(cfn, th, cenv, itc, false) })
			} else {
				call := ins.Call
				itc := it
				deferred = append(deferred, func() { x.call(&call, th, env, itc, pos(ins)) })
			}
		case *ssa.Call:
			x.call(&ins.Call, th, env, it, pos(ins))
		case *ssa.Send:
			x.m.add(th, "send", x.pointee(ins.Chan, env, it), pos(ins), "")
		}
	}
	done := map[*ssa.BasicBlock]bool{}
	visit = func(b *ssa.BasicBlock, it string) {
		for _, ins := range b.Instrs {
			visitInstr(ins, it)
		}
	}
	for _, b := range fn.Blocks {
		if done[b] {
			continue
		}
		done[b] = true
		hasGo := false
		for _, ins := range b.Instrs {
			if _, ok := ins.(*ssa.Go); ok {
				hasGo = true
			}
		}
		if hasGo && inLoop(b) {
			for k := 0; k < x.N; k++ {
				visit(b, fmt.Sprint(k))
			}
			continue
		}
		visit(b, iter)
	}
	for i := len(deferred) - 1; i >= 0; i-- {
		deferred[i]()
	}
}

func (x *hbExtractor) call(c *ssa.CallCommon, th string, env absEnv, it, pos string) {
	name := calleeName(c)
	switch {
	case name == "(*sync.WaitGroup).Done":
		x.m.add(th, "done", x.pointee(c.Args[0], env, it), pos, "")
	case name == "(*sync.WaitGroup).Wait":
		x.m.add(th, "wait", x.pointee(c.Args[0], env, it), pos, "")
	case name == "(*sync.WaitGroup).Add":
	case name == "(*sync.Mutex).Lock" || name == "(*sync.RWMutex).Lock":
		x.m.add(th, "lock", x.pointee(c.Args[0], env, it), pos, "")
	case name == "(*sync.Mutex).Unlock" || name == "(*sync.RWMutex).Unlock":
		x.m.add(th, "unlock", x.pointee(c.Args[0], env, it), pos, "")
	case strings.HasPrefix(name, "log.") || strings.HasPrefix(name, "fmt.Print") || strings.HasPrefix(name, "fmt.Fprint"):
		x.m.add(th, "write", "output", pos, "")
	case name == "builtin:append":
		// may write in place into the backing array of its first argument
		if len(c.Args) > 0 {
			x.m.add(th, "write", x.pointee(c.Args[0], env, it)+"[backing]", pos, "")
		}
	case name == "(*github.com/go-critic/go-critic/linter.Checker).Check":
		// effect summary (established by C05): reads the shared tree/context, writes checker-owned state only
		x.m.add(th, "read", "shared:syntax+types+context", pos, "")
		x.m.add(th, "write", "owned:"+x.pointee(c.Args[0], env, it), pos, "")
	default:
		if f := c.StaticCallee(); f != nil && f.Pkg != nil && f.Blocks != nil && c.Method == nil &&
			(f.Pkg == x.pkg || strings.HasPrefix(f.Pkg.Pkg.Path(), modPath+"/linter")) {
			// callee in the same package or in the linter package (the shared context's
			// methods): walk it with arguments bound to the caller's locations
			cenv := absEnv{}
			for k, p := range f.Params {
				if k < len(c.Args) {
					if _, isPtr := c.Args[k].Type().Underlying().(*types.Pointer); isPtr {
						cenv[p] = strings.TrimPrefix(x.pointee(c.Args[k], env, it), "*")
					}
				}
			}
			x.walk(f, th, cenv, it, false)
		}
	}
}

// ---- SMT

func clk(e *hbEvent, copy int) string {
	return fmt.Sprintf("|c%d:%s:%d|", copy, e.thread, e.seq)
}

// constraints emits the synchronisation constraints over one copy of the clocks.
func (m *hbModel) constraints(copy int, b *strings.Builder) {
	var locks []*hbEvent
	for _, tn := range m.order {
		t := m.threads[tn]
		for i, e := range t.events {
			fmt.Fprintf(b, "(declare-const %s Int)\n", clk(e, copy))
			if i > 0 {
				fmt.Fprintf(b, "(assert (< %s %s))\n", clk(t.events[i-1], copy), clk(e, copy))
			}
			if e.kind == "lock" {
				locks = append(locks, e)
			}
		}
	}
	for _, tn := range m.order {
		for _, e := range m.threads[tn].events {
			switch e.kind {
			case "go":
				if w := m.threads[e.target]; w != nil && len(w.events) > 0 {
					fmt.Fprintf(b, "(assert (< %s %s))\n", clk(e, copy), clk(w.events[0], copy))
				}
			case "wait":
				// every Done on the same WaitGroup by a thread spawned before the Wait precedes its return
				for _, on := range m.order {
					for _, d := range m.threads[on].events {
						if d.kind == "done" && d.loc == e.loc && strings.HasPrefix(on, e.thread+"/") {
							fmt.Fprintf(b, "(assert (< %s %s))\n", clk(d, copy), clk(e, copy))
						}
					}
				}
			}
		}
	}
	// critical sections on the same mutex are totally ordered (either order)
	unlockOf := func(l *hbEvent) *hbEvent {
		for _, e := range m.threads[l.thread].events[l.seq+1:] {
			if e.kind == "unlock" && e.loc == l.loc {
				return e
			}
		}
		return nil
	}
	for i := 0; i < len(locks); i++ {
		for j := i + 1; j < len(locks); j++ {
			a, c := locks[i], locks[j]
			if a.loc != c.loc || a.thread == c.thread {
				continue
			}
			ua, uc := unlockOf(a), unlockOf(c)
			if ua == nil || uc == nil {
				continue
			}
			// the acquisition order sigma is one Boolean per pair of critical sections, shared by
			// both clock copies: two accesses race iff, for one and the same sigma, the clocks can
			// order them either way (i.e. they are unordered by happens-before in that execution)
			sig := fmt.Sprintf("|sigma:%s:%d<%s:%d|", a.thread, a.seq, c.thread, c.seq)
			if copy == 1 {
				fmt.Fprintf(b, "(declare-const %s Bool)\n", sig)
			}
			fmt.Fprintf(b, "(assert (ite %s (< %s %s) (< %s %s)))\n", sig, clk(ua, copy), clk(c, copy), clk(uc, copy), clk(a, copy))
		}
	}
}

func mayAlias(a, b string) bool {
	if a == b {
		return true
	}
	if strings.Contains(a, "any") || strings.Contains(b, "any") {
		// unknown index: same base object may alias
		ba, bb := a, b
		if i := strings.LastIndex(a, "["); i >= 0 {
			ba = a[:i]
		}
		if i := strings.LastIndex(b, "["); i >= 0 {
			bb = b[:i]
		}
		return ba == bb
	}
	return false
}

type hbRace struct {
	a, b *hbEvent
}

// races asks the solver, for every pair of conflicting accesses in different
// threads, whether both orders are consistent with the synchronisation.
func (m *hbModel) races() ([]hbRace, int, time.Duration, error) {
	var pairs []hbRace
	for i, tn := range m.order {
		for _, un := range m.order[i+1:] {
			for _, a := range m.threads[tn].events {
				if a.kind != "read" && a.kind != "write" {
					continue
				}
				if strings.Contains(a.loc, ".local") || strings.HasPrefix(a.loc, "owned:") || strings.HasPrefix(a.loc, "?") {
					continue
				}
				for _, b := range m.threads[un].events {
					if b.kind != "read" && b.kind != "write" {
						continue
					}
					if a.kind == "read" && b.kind == "read" {
						continue
					}
					if mayAlias(a.loc, b.loc) {
						pairs = append(pairs, hbRace{a, b})
					}
				}
			}
		}
	}
	var found []hbRace
	t0 := time.Now()
	seen := map[string]bool{}
	for _, p := range pairs {
		key := p.a.pos + "|" + p.b.pos + "|" + p.a.loc
		if seen[key] {
			continue
		}
		var b strings.Builder
		b.WriteString("(set-logic QF_LIA)\n")
		m.constraints(1, &b)
		m.constraints(2, &b)
		fmt.Fprintf(&b, "(assert (< %s %s))\n(assert (< %s %s))\n(check-sat)\n", clk(p.a, 1), clk(p.b, 1), clk(p.b, 2), clk(p.a, 2))
		v, _ := runSolverOnce("z3", b.String(), 20)
		switch v {
		case "sat":
			seen[key] = true
			found = append(found, p)
		case "unsat":
		default:
			return nil, len(pairs), time.Since(t0), fmt.Errorf("solver answered %q on a clock query", v)
		}
	}
	return found, len(pairs), time.Since(t0), nil
}

func c04Extract(prog *interp.Program, pkgPath, fnName, recv string, N int) (*hbModel, error) {
	pkg := prog.Pkgs[pkgPath]
	if pkg == nil {
		return nil, fmt.Errorf("package %s not loaded", pkgPath)
	}
	var fn *ssa.Function
	if recv != "" {
		t := pkg.Type(recv)
		if t == nil {
			return nil, fmt.Errorf("type %s not found", recv)
		}
		fn = prog.Prog.LookupMethod(types.NewPointer(t.Type()), pkg.Pkg, fnName)
	} else {
		fn = pkg.Func(fnName)
	}
	if fn == nil {
		return nil, fmt.Errorf("function %s not found in %s", fnName, pkgPath)
	}
	m := &hbModel{threads: map[string]*hbThread{}}
	x := &hbExtractor{prog: prog.Prog, m: m, N: N, pkg: pkg}
	if recv != "" {
		x.walk(fn, "main", absEnv{}, "-", false)
	} else {
		// the analysis driver runs the function once per package, possibly concurrently
		for k := 0; k < N; k++ {
			x.walk(fn, fmt.Sprintf("pass%d", k), absEnv{}, fmt.Sprint(k), false)
		}
	}
	return m, nil
}

func runC04(rc *runCtx, ev *evidence) (int, bool) {
	prog, err := interp.Load(interp.LoadConfig{Dir: repoDir, Patterns: []string{"./cmd/go-critic", "./cmd/gocritic", "./checkers/analyzer"}, InitAllow: initAllow})
	if err != nil {
		fmt.Println("BROKEN: cannot load /repo:", err)
		return 0, true
	}
	N := 3
	known := loadKnown()
	violations := 0
	type target struct{ pkg, fn, recv string }
	targets := []target{
		{modPath + "/cmd/go-critic", "checkFile", "program"},
		{modPath + "/cmd/gocritic", "checkFile", "program"},
		{modPath + "/checkers/analyzer", "runAnalyzer", ""},
	}
	dir := filepath.Join(outDir, "replays", "C04")
	os.MkdirAll(dir, 0o755)
	totalPairs, totalEvents := 0, 0
	var solverTime time.Duration
	for _, tg := range targets {
		m, err := c04Extract(prog, tg.pkg, tg.fn, tg.recv, N)
		if err != nil {
			fmt.Println("BROKEN: C04 extraction:", err)
			ev.Broken = append(ev.Broken, err.Error())
			return violations, true
		}
		nev := 0
		for _, tn := range m.order {
			nev += len(m.threads[tn].events)
		}
		totalEvents += nev
		races, pairs, st, err := m.races()
		totalPairs += pairs
		solverTime += st
		if err != nil {
			fmt.Println("BROKEN: C04:", err)
			return violations, true
		}
		if os.Getenv("GSX_C04_DUMP") != "" {
			for _, tn := range m.order {
				for _, e := range m.threads[tn].events {
					if e.kind != "read" || strings.HasPrefix(e.loc, "global:") {
						fmt.Fprintf(os.Stderr, "  %s#%d %s %s %s %s\n", e.thread, e.seq, e.kind, e.loc, shortPos(e.pos), e.target)
					}
				}
			}
		}
		rc.logf("C04 %s.%s: %d threads, %d events, %d conflicting pairs decided, %d unordered (%.1fs)", filepath.Base(tg.pkg), tg.fn, len(m.order), nev, pairs, len(races), st.Seconds())
		if nev < 10 || len(m.order) < N {
			fmt.Printf("HARNESS-VACUOUS: C04 extraction of %s.%s produced %d threads / %d events\n", tg.pkg, tg.fn, len(m.order), nev)
			return violations, true
		}
		var samples []string
		for _, tn := range m.order {
			for _, e := range m.threads[tn].events {
				if len(samples) < 14 && e.kind != "read" {
					samples = append(samples, fmt.Sprintf("%s#%d %s %s", e.thread, e.seq, e.kind, e.loc))
				}
			}
		}
		ev.ExtraSamples = append(ev.ExtraSamples, map[string]interface{}{"target": tg.pkg + "." + tg.fn, "events": samples})
		sort.Slice(races, func(i, j int) bool {
			oi, oj := races[i].a.loc == "output", races[j].a.loc == "output"
			if oi != oj {
				return !oi // memory locations before the (branch-over-approximated) output events
			}
			return races[i].a.pos+races[i].b.pos < races[j].a.pos+races[j].b.pos
		})
		for _, r := range races {
			class := fmt.Sprintf("%s: %s %s / %s %s on %s", filepath.Base(tg.pkg), r.a.kind, shortPos(r.a.pos), r.b.kind, shortPos(r.b.pos), r.a.loc)
			isKnown := false
			for _, k := range known.Findings {
				if k.Property == "C04" && strings.Contains(class, k.Witness) {
					isKnown = true
					fmt.Printf("KNOWN-FINDING: property=C04 %s\n", k.What)
				}
			}
			if isKnown {
				continue
			}
			// replay: the real code under the race detector
			ok, detail := c04Replay(rc, tg.pkg)
			if !ok {
				ev.Unconfirmed = append(ev.Unconfirmed, class+" ("+firstLine(detail)+")")
				rc.logf("unconfirmed C04 candidate: %s [%s]", class, firstLine(detail))
				continue
			}
			violations++
			file := filepath.Join(dir, fmt.Sprintf("race-%d.txt", violations))
			os.WriteFile(file, []byte(class+"\n\n"+detail), 0o644)
			fmt.Printf("VIOLATION property=C04 replay=%s\n  %s\n  %s\n", file, class, firstLine(detail))
			break // one confirmed report per driver is enough
		}
	}
	ev.Violations += violations
	ev.ExtraStates += totalEvents
	ev.ExtraTrans += totalPairs
	ev.ExtraCoverage["conflicting_access_pairs_decided"] = totalPairs
	ev.ExtraCoverage["events_extracted"] = totalEvents
	ev.ExtraCoverage["workers_or_passes"] = N
	ev.ExtraCoverage["solver_seconds"] = solverTime.Seconds()
	return violations, false
}

func shortPos(p string) string {
	if i := strings.LastIndex(p, "/"); i >= 0 {
		return p[i+1:]
	}
	return p
}

// c04Replay runs the real driver code natively under the race detector.
func c04Replay(rc *runCtx, pkg string) (bool, string) {
	rel := strings.TrimPrefix(pkg, modPath+"/")
	h := &harness{Name: "gsxC04Native", Pkg: rel}
	_, ovPaths, err := buildOverlay()
	if err != nil {
		return false, err.Error()
	}
	out, err := nativeRace(h, ovPaths)
	if err != nil {
		return false, err.Error()
	}
	if strings.Contains(out, "WARNING: DATA RACE") {
		i := strings.Index(out, "WARNING: DATA RACE")
		end := i + 1500
		if end > len(out) {
			end = len(out)
		}
		return true, "race detector: " + strings.ReplaceAll(out[i:end], "\n", " | ")
	}
	if strings.Contains(out, "GSX-ORDER-DIFF") {
		return true, "outputs differ between runs: " + lastLines(out, 3)
	}
	return false, "race detector silent: " + lastLines(out, 2)
}

const raceTestTmpl = `package %s

import "testing"

func TestGSXRace(t *testing.T) { gsxC04Native() }
`

// nativeRace runs gsxC04Native of the package under `go test -race`.
func nativeRace(h *harness, ovPaths map[string]string) (string, error) {
	tmp, err := os.MkdirTemp("", "gsx-race-")
	if err != nil {
		return "", err
	}
	defer os.RemoveAll(tmp)
	testFile := filepath.Join(tmp, "zz_verif_race_test.go")
	os.WriteFile(testFile, []byte(fmt.Sprintf(raceTestTmpl, pkgName(h))), 0o644)
	repl := map[string]string{}
	for dst, src := range ovPaths {
		repl[dst] = src
	}
	repl[filepath.Join(repoDir, h.Pkg, "zz_verif_race_test.go")] = testFile
	return runGoTest(tmp, repl, []string{"-race", "-v", "-vet=off", "-count=1", "-run", "^TestGSXRace$", "-timeout", "300s", "./" + h.Pkg}, nil)
}
