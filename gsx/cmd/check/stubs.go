package main

import (
	"regexp"
	"strings"

	"gsx/interp"
)

var stubRE = regexp.MustCompile(`(?m)^//gsx:stub\s+(\S+)\s*=\s*(\S+)\s*$`)

// bindStubs reads `//gsx:stub <env function> = <pkgdir>.<harness func>` lines
// from the overlay files and binds the environment function to the model.
func bindStubs(prog *interp.Program, overlay map[string][]byte) {
	for path, data := range overlay {
		for _, m := range stubRE.FindAllStringSubmatch(string(data), -1) {
			target := m[2]
			// harness function lives in the package of the overlay file
			rel := strings.TrimPrefix(path, repoDir+"/")
			dir := rel[:strings.LastIndex(rel, "/")]
			fn := prog.FindFunc(modPath+"/"+dir, target)
			if fn != nil {
				prog.BindStub(m[1], modPath+"/"+dir, fn)
			}
		}
	}
}
