package main

import (
	"encoding/json"
	"fmt"
	"os"
	"path/filepath"
	"regexp"
	"runtime"
	"sort"
	"strconv"
	"strings"
	"time"
)

// ---- C15 (d): the Where filter of every shipped rule implies the Go version
// in which the standard-library API it recommends appeared.
//
// The rule IR is dumped from /repo's current rulesdata by a native test; each
// filter becomes a propositional formula over its non-version atoms plus a
// linear constraint over the configured version (major, minor); the solver is
// asked for an assignment with Where true and version < needed version.

type irFilter struct {
	Op    string      `json:"op"`
	Src   string      `json:"src"`
	Value interface{} `json:"value"`
	Args  []irFilter  `json:"args"`
}

type irRule struct {
	Group, Report, Suggest string
	Line                   int
	Patterns               []string
	Where                  irFilter
	Doc                    string
	Location, Do           string
	Comments               []string
}

const irDumpTest = `package rulesdata

import (
	"encoding/json"
	"fmt"
	"go/ast"
	"go/importer"
	"go/parser"
	"go/token"
	"go/types"
	"os"
	"testing"

	"github.com/quasilyte/go-ruleguard/ruleguard/ir"
	"github.com/quasilyte/go-ruleguard/ruleguard/irconv"
)

type gsxFilter struct {
	Op    string      ` + "`json:\"op\"`" + `
	Src   string      ` + "`json:\"src\"`" + `
	Value interface{} ` + "`json:\"value,omitempty\"`" + `
	Args  []gsxFilter ` + "`json:\"args,omitempty\"`" + `
}

func gsxConv(f ir.FilterExpr) gsxFilter {
	out := gsxFilter{Op: f.Op.String(), Src: f.Src, Value: f.Value}
	for _, a := range f.Args {
		out.Args = append(out.Args, gsxConv(a))
	}
	return out
}

type gsxRule struct {
	Group, Report, Suggest string
	Line                   int
	Patterns               []string
	Where                  gsxFilter
	Doc                    string
	Location, Do           string
	Comments               []string
}

func gsxRules(f *ir.File) []gsxRule {
	var rules []gsxRule
	for _, g := range f.RuleGroups {
		for _, r := range g.Rules {
			x := gsxRule{Group: g.Name, Report: r.ReportTemplate, Suggest: r.SuggestTemplate, Line: r.Line, Where: gsxConv(r.WhereExpr),
				Doc: fmt.Sprintf("%q %q %q %q %q", g.DocTags, g.DocSummary, g.DocBefore, g.DocAfter, g.DocNote), Location: r.LocationVar, Do: r.DoFuncName}
			for _, p := range r.SyntaxPatterns {
				x.Patterns = append(x.Patterns, p.Value)
			}
			for _, p := range r.CommentPatterns {
				x.Comments = append(x.Comments, p.Value)
			}
			rules = append(rules, x)
		}
	}
	return rules
}

func TestGSXDumpIR(t *testing.T) {
	js, _ := json.Marshal(gsxRules(PrecompiledRules))
	fmt.Printf("GSX-IR\t%s\n", js)
}

// TestGSXCompileIR compiles ../rules/rules.go the way rules/precompile.go does.
func TestGSXCompileIR(t *testing.T) {
	fset := token.NewFileSet()
	filename := "../rules/rules.go"
	data, err := os.ReadFile(filename)
	if err != nil {
		t.Fatal(err)
	}
	f, err := parser.ParseFile(fset, filename, data, parser.ParseComments)
	if err != nil {
		t.Fatal(err)
	}
	info := &types.Info{Types: map[ast.Expr]types.TypeAndValue{}, Uses: map[*ast.Ident]types.Object{}, Defs: map[*ast.Ident]types.Object{}}
	pkg, err := (&types.Config{Importer: importer.For("source", nil)}).Check("gorules", fset, []*ast.File{f}, info)
	if err != nil {
		t.Fatal(err)
	}
	irfile, err := irconv.ConvertFile(&irconv.Context{Pkg: pkg, Types: info, Fset: fset, Src: data}, f)
	if err != nil {
		t.Fatal(err)
	}
	js, _ := json.Marshal(gsxRules(irfile))
	fmt.Printf("GSX-IR\t%s\n", js)
}
`

func dumpRuleIR() ([]irRule, error) { return dumpRuleIRFrom("TestGSXDumpIR") }

// dumpRuleIRFrom runs one of the dump tests: TestGSXDumpIR (the shipped data) or
// TestGSXCompileIR (the rule source compiled now).
func dumpRuleIRFrom(test string) ([]irRule, error) {
	tmp, err := os.MkdirTemp("", "gsx-irdump-")
	if err != nil {
		return nil, err
	}
	defer os.RemoveAll(tmp)
	tf := filepath.Join(tmp, "zz_verif_irdump_test.go")
	os.WriteFile(tf, []byte(irDumpTest), 0o644)
	out, err := runGoTest(tmp, map[string]string{filepath.Join(repoDir, "checkers", "rulesdata", "zz_verif_irdump_test.go"): tf},
		[]string{"-v", "-vet=off", "-count=1", "-run", "^" + test + "$", "./checkers/rulesdata"}, nil)
	if err != nil {
		return nil, err
	}
	for _, l := range strings.Split(out, "\n") {
		if strings.HasPrefix(l, "GSX-IR\t") {
			var rules []irRule
			if err := json.Unmarshal([]byte(strings.TrimPrefix(l, "GSX-IR\t")), &rules); err != nil {
				return nil, err
			}
			return rules, nil
		}
	}
	return nil, fmt.Errorf("no IR dump in: %s", lastLines(out, 5))
}

// apiTable maps "pkg.Func" and method names to the minor version (1.N) of the
// Go release that first listed them in $GOROOT/api; a method name shared by
// several types takes the earliest version (weakest requirement).
type apiTable struct {
	funcs   map[string]int // "strings.Cut" (last path element of the package)
	methods map[string]int
}

var apiLineRE = regexp.MustCompile(`^pkg ([\w/.-]+)(?: \([\w-]+\))?, (?:func (\w+)\(|method \(\*?\w+(?:\[[^\]]*\])?\) (\w+)\()`)

func loadAPITable() (*apiTable, error) {
	dir := filepath.Join(runtime.GOROOT(), "api")
	files, err := filepath.Glob(filepath.Join(dir, "go1*.txt"))
	if err != nil || len(files) == 0 {
		return nil, fmt.Errorf("no api files under %s", dir)
	}
	t := &apiTable{funcs: map[string]int{}, methods: map[string]int{}}
	put := func(m map[string]int, k string, v int) {
		if old, ok := m[k]; !ok || v < old {
			m[k] = v
		}
	}
	for _, f := range files {
		base := strings.TrimSuffix(filepath.Base(f), ".txt")
		ver := 0
		if base != "go1" {
			n, err := strconv.Atoi(strings.TrimPrefix(base, "go1."))
			if err != nil {
				continue
			}
			ver = n
		}
		data, err := os.ReadFile(f)
		if err != nil {
			return nil, err
		}
		for _, l := range strings.Split(string(data), "\n") {
			m := apiLineRE.FindStringSubmatch(l)
			if m == nil {
				continue
			}
			pkg := m[1][strings.LastIndex(m[1], "/")+1:]
			if m[2] != "" {
				put(t.funcs, pkg+"."+m[2], ver)
			}
			if m[3] != "" {
				put(t.methods, m[3], ver)
			}
		}
	}
	return t, nil
}

var (
	tmplFuncRE   = regexp.MustCompile(`\b([a-z][a-z0-9]*)\.([A-Z]\w*)\b`)
	tmplMethodRE = regexp.MustCompile(`\.([A-Z]\w*)\(`)
)

// neededVersion returns the newest "first listed in 1.N" among the std
// functions / methods a template recommends, and the name that needs it.
func (t *apiTable) neededVersion(tmpl string, patterns []string) (int, string) {
	need, name := 0, ""
	isFunc := map[string]bool{}
	used := strings.Join(patterns, "\n") // what the matched code already calls is not a recommendation
	for _, m := range tmplFuncRE.FindAllStringSubmatch(tmpl, -1) {
		if strings.Contains(used, m[1]+"."+m[2]) {
			isFunc[m[2]] = true
			continue
		}
		if v, ok := t.funcs[m[1]+"."+m[2]]; ok {
			isFunc[m[2]] = true
			if v > need {
				need, name = v, m[1]+"."+m[2]
			}
		}
	}
	for _, m := range tmplMethodRE.FindAllStringSubmatch(tmpl, -1) {
		if isFunc[m[1]] || strings.Contains(used, "."+m[1]+"(") {
			continue
		}
		if v, ok := t.methods[m[1]]; ok && v > need {
			need, name = v, "method "+m[1]
		}
	}
	return need, name
}

// filterSMT renders a Where filter; atoms collects the Boolean atoms (by source text).
func filterSMT(f irFilter, atoms map[string]string, order *[]string) (string, error) {
	ver := func(cmp string) (string, error) {
		s, _ := f.Value.(string)
		p := strings.Split(s, ".")
		if len(p) != 2 {
			return "", fmt.Errorf("version literal %q", s)
		}
		a, err1 := strconv.Atoi(p[0])
		b, err2 := strconv.Atoi(p[1])
		if err1 != nil || err2 != nil {
			return "", fmt.Errorf("version literal %q", s)
		}
		// lexicographic comparison of (major, minor); an unset version passes every filter
		lt := fmt.Sprintf("(or (< major %d) (and (= major %d) (< minor %d)))", a, a, b)
		eq := fmt.Sprintf("(and (= major %d) (= minor %d))", a, b)
		var c string
		switch cmp {
		case "ge":
			c = "(not " + lt + ")"
		case "gt":
			c = "(not (or " + lt + " " + eq + "))"
		case "lt":
			c = lt
		case "le":
			c = "(or " + lt + " " + eq + ")"
		default:
			c = eq
		}
		return "(or unset " + c + ")", nil
	}
	switch f.Op {
	case "And", "Or":
		var parts []string
		for _, a := range f.Args {
			s, err := filterSMT(a, atoms, order)
			if err != nil {
				return "", err
			}
			parts = append(parts, s)
		}
		return "(" + strings.ToLower(f.Op) + " " + strings.Join(parts, " ") + ")", nil
	case "Not":
		s, err := filterSMT(f.Args[0], atoms, order)
		if err != nil {
			return "", err
		}
		return "(not " + s + ")", nil
	case "GoVersionGreaterEqThan":
		return ver("ge")
	case "GoVersionGreaterThan":
		return ver("gt")
	case "GoVersionLessThan":
		return ver("lt")
	case "GoVersionLessEqThan":
		return ver("le")
	case "GoVersionEq":
		return ver("eq")
	case "Invalid":
		return "true", nil // no Where clause
	}
	name, ok := atoms[f.Src]
	if !ok {
		name = fmt.Sprintf("a%d", len(atoms))
		atoms[f.Src] = name
		*order = append(*order, f.Src)
	}
	return name, nil
}

type c15Finding struct {
	Rule    irRule
	Need    int
	API     string
	Model   string
	Version string
	Atoms   map[string]bool
}

func runC15Rules(rc *runCtx, ev *evidence) (int, bool) {
	t0 := time.Now()
	rules, err := dumpRuleIR()
	if err != nil {
		fmt.Println("BROKEN: cannot dump the shipped rule IR:", err)
		ev.Broken = append(ev.Broken, err.Error())
		return 0, true
	}
	api, err := loadAPITable()
	if err != nil {
		fmt.Println("BROKEN:", err)
		ev.Broken = append(ev.Broken, err.Error())
		return 0, true
	}
	stats := map[string]int{}
	var solverTime time.Duration
	var findings []c15Finding
	gated := 0
	for _, r := range rules {
		need, name := api.neededVersion(r.Report+" "+r.Suggest, r.Patterns)
		if need == 0 {
			stats["rules without a versioned std API"]++
			continue
		}
		gated++
		atoms := map[string]string{}
		var order []string
		where, err := filterSMT(r.Where, atoms, &order)
		if err != nil {
			stats["filter not encoded"]++
			ev.Broken = append(ev.Broken, fmt.Sprintf("%s (rules.go:%d): %v", r.Group, r.Line, err))
			continue
		}
		var b strings.Builder
		b.WriteString("(set-logic ALL)\n(declare-const major Int)\n(declare-const minor Int)\n(declare-const unset Bool)\n")
		names := make([]string, 0, len(atoms))
		for _, src := range order {
			fmt.Fprintf(&b, "(declare-const %s Bool)\n", atoms[src])
			names = append(names, atoms[src])
		}
		// a version is configured: major.minor with major >= 1
		b.WriteString("(assert (not unset))\n(assert (>= major 1))\n(assert (>= minor 0))\n")
		fmt.Fprintf(&b, "(assert %s)\n", where)
		fmt.Fprintf(&b, "(assert (and (= major 1) (< minor %d)))\n", need)
		tail := fmt.Sprintf("(check-sat)\n(get-value (major minor %s))\n", strings.Join(names, " "))
		t := time.Now()
		// the version just below the needed one first (the most telling witness), then any lower version
		v, text := runSolverOnce("z3", b.String()+fmt.Sprintf("(assert (= minor %d))\n", need-1)+tail, 20)
		if v != "sat" {
			v, text = runSolverOnce("z3", b.String()+tail, 20)
		}
		solverTime += time.Since(t)
		stats["query:"+v]++
		if v == "sat" {
			f := c15Finding{Rule: r, Need: need, API: name, Model: strings.Join(strings.Fields(text), " "), Atoms: map[string]bool{}}
			mm := regexp.MustCompile(`\((\w+) (\(- )?(\w+)\)?\)`).FindAllStringSubmatch(text, -1)
			vals := map[string]string{}
			for _, x := range mm {
				vals[x[1]] = x[3]
			}
			f.Version = "1." + vals["minor"]
			for src, a := range atoms {
				f.Atoms[src] = vals[a] == "true"
			}
			findings = append(findings, f)
		} else if v != "unsat" {
			ev.Broken = append(ev.Broken, fmt.Sprintf("%s (rules.go:%d): solver answered %s", r.Group, r.Line, v))
		}
	}
	rc.logf("C15 rules: %d rules, %d recommend a std API first listed in go1.N (N>0); queries %v (%.1fs)", len(rules), gated, stats, time.Since(t0).Seconds())
	violations := 0
	dir := filepath.Join(outDir, "replays", "C15")
	os.MkdirAll(dir, 0o755)
	known := loadKnown()
	var fe *frontends
	defer func() {
		if fe != nil {
			fe.close()
		}
	}()
	sort.Slice(findings, func(i, j int) bool { return findings[i].Rule.Line < findings[j].Rule.Line })
	for _, f := range findings {
		if fe == nil {
			fe, err = buildFrontends()
			if err != nil {
				ev.Broken = append(ev.Broken, err.Error())
				return violations, true
			}
		}
		ok, detail := replayC15Rule(fe, f)
		ev.TracesValidated++
		if !ok {
			fmt.Printf("unconfirmed candidate C15 rule %s (rules.go:%d): filter allows go%s although %s needs go1.%d [%s]\n", f.Rule.Group, f.Rule.Line, f.Version, f.API, f.Need, detail)
			stats["unconfirmed"]++
			continue
		}
		witness := fmt.Sprintf("%s:%s", f.Rule.Group, f.API)
		isKnown := false
		for _, k := range known.Findings {
			if k.Property == "C15" && k.Witness == witness {
				isKnown = true
				fmt.Printf("KNOWN-FINDING: property=C15 %s\n", k.What)
				ev.Known++
			}
		}
		if isKnown {
			continue
		}
		violations++
		file := filepath.Join(dir, fmt.Sprintf("rule-%s-%d.json", f.Rule.Group, f.Rule.Line))
		data, _ := json.MarshalIndent(map[string]interface{}{"property": "C15", "kind": "rule-filter", "group": f.Rule.Group, "line": f.Rule.Line, "api": f.API, "needs": fmt.Sprintf("1.%d", f.Need),
			"version": f.Version, "atoms": f.Atoms, "detail": detail, "class": witness}, "", " ")
		os.WriteFile(file, data, 0o644)
		fmt.Printf("VIOLATION property=C15 replay=%s\n  rule group %s (rules.go:%d): with -go=%s configured the filter `%s` still admits a recommendation of %s (first listed in go1.%d): %s\n",
			file, f.Rule.Group, f.Rule.Line, f.Version, f.Rule.Where.Src, f.API, f.Need, detail)
	}
	ev.Violations += violations
	ev.ExtraCoverage["rules"] = len(rules)
	ev.ExtraCoverage["rules_recommending_versioned_api"] = gated
	ev.ExtraCoverage["rule_filter_queries"] = stats
	ev.ExtraCoverage["rule_filter_solver_seconds"] = solverTime.Seconds()
	return violations, false
}

var metaVarRE = regexp.MustCompile(`\$(\w+)`)

// replayC15Rule instantiates the rule's pattern with variables of the types
// the solver's assignment asks for, and runs the real command with the
// model's -go value; falls back to the group's example package.
func replayC15Rule(fe *frontends, f c15Finding) (bool, string) {
	apiName := f.API[strings.LastIndexAny(f.API, ". ")+1:]
	if !strings.HasPrefix(f.API, "method ") {
		apiName = f.API // package-qualified function: the diagnostic must name exactly it
	}
	check := func(args ...string) (bool, string) {
		set, raw := fe.run("go-critic", append([]string{"check", "-shorterErrLocation=false", "-enable=" + f.Rule.Group, "-disable=", "-go=" + f.Version}, args...)...)
		for line := range set {
			if strings.Contains(line, apiName) {
				return true, fmt.Sprintf("go-critic check -enable=%s -go=%s reports: %s", f.Rule.Group, f.Version, line)
			}
		}
		return false, firstLines(raw, 2)
	}
	// synthesised program
	types := map[string]string{}
	for src, val := range f.Atoms {
		if m := regexp.MustCompile("^m\\[\"(\\w+)\"\\]\\.Type\\.Is\\([`\"]([^`\"]+)[`\"]\\)$").FindStringSubmatch(src); m != nil && val {
			types[m[1]] = m[2]
		}
	}
	menu := []string{"int", "string", "[]byte", "rune", "byte"}
	var mvNames []string
	if len(f.Rule.Patterns) > 0 {
		for _, m := range metaVarRE.FindAllStringSubmatch(f.Rule.Patterns[0], -1) {
			dup := false
			for _, n := range mvNames {
				dup = dup || n == m[1]
			}
			if !dup && types[m[1]] == "" {
				mvNames = append(mvNames, m[1])
			}
		}
	}
	combos := 1
	for range mvNames {
		combos *= len(menu)
	}
	for c := 0; len(f.Rule.Patterns) > 0 && c < combos && c < 625; c++ {
		k := c
		for _, n := range mvNames {
			types[n] = menu[k%len(menu)]
			k /= len(menu)
		}
		pat := f.Rule.Patterns[0]
		var decls strings.Builder
		imports := map[string]bool{}
		for _, m := range regexp.MustCompile(`\b([a-z][a-z0-9]*)\.[A-Z]`).FindAllStringSubmatch(pat, -1) {
			imports[m[1]] = true
		}
		seen := map[string]bool{}
		expr := metaVarRE.ReplaceAllStringFunc(pat, func(mv string) string {
			name := strings.TrimPrefix(mv, "$")
			if !seen[name] {
				seen[name] = true
				typ := types[name]
				if typ == "" {
					typ = "int"
				}
				if i := strings.Index(strings.TrimLeft(typ, "*[]"), "."); i > 0 {
					imports[strings.TrimLeft(typ, "*[]")[:i]] = true
				}
				fmt.Fprintf(&decls, "var gsx_%s %s\n", name, typ)
			}
			return "gsx_" + name
		})
		var imp strings.Builder
		for p := range imports {
			fmt.Fprintf(&imp, "import %q\n", p)
		}
		src := "package cand\n\n" + imp.String() + "\n" + decls.String() + "\nfunc gsxF() { _ = " + expr + " }\n"
		if ok, _ := typeCheck(src); ok {
			dir, err := os.MkdirTemp("", "gsx-c15-")
			if err == nil {
				defer os.RemoveAll(dir)
				file := filepath.Join(dir, "cand.go")
				os.WriteFile(file, []byte(src), 0o644)
				if ok, d := check(file); ok {
					return true, d + " on `" + expr + "` with " + strings.ReplaceAll(strings.TrimSpace(decls.String()), "\n", "; ")
				}
			}
		}
	}
	if _, err := os.Stat(filepath.Join(repoDir, "checkers", "testdata", f.Rule.Group)); err == nil {
		if ok, d := check("./checkers/testdata/" + f.Rule.Group); ok {
			return true, d
		}
	}
	return false, "the real command stays silent under that version on the synthesised program and on the group's examples"
}
