package main

// C11: regexp rewrites accept the same language, with the same leftmost-first
// match extents and capture groups. Translation validation: the real
// regexpSimplify checker runs natively on an enumerated family of patterns;
// every rewrite A -> B it proposes is judged by the solver over all subjects
// (language: unbounded, in the solvers' regex theory; extents and groups: all
// subjects up to length L through the regexsem encoding).

import (
	"bytes"
	"encoding/json"
	"fmt"
	"os"
	"os/exec"
	"path/filepath"
	"regexp"
	"regexp/syntax"
	"sort"
	"strconv"
	"strings"
	"sync"
	"time"

	"gsx/interp"
	"gsx/regexsem"
)

func c11Patterns(tier string) []string {
	atoms := []string{"a", "b", "x", "-", "]", "^", "{", "}", ",", "0", "1", ".", `\.`, `\d`, `\w`, "[ab]", "[^a]", "[a-c]", "[a]", "[{]", "[-]", "[0-9]", `[\d]`, "[a-a]", "aa", "ab",
		"(a)", "(?:a)", "(ab)", `\,`, `\{`, "[}]", "[,]"}
	ops := []string{"", "*", "+", "?", "*?", "{0}", "{1}", "{0,1}", "{1,}", "{0,}", "{2}", "{1,1}", "+?", "??", "{1}?", "{0}?", "{0,1}?", "{1,}?", "{2}?",
		// counts Go's regexp does not take as repetitions (a leading zero makes the braces literal text) and equal bounds
		"{01}", "{00}", "{0,01}", "{01,}", "{02,2}", "{2,2}"}
	var terms []string
	for _, a := range atoms {
		for _, o := range ops {
			terms = append(terms, a+o)
		}
	}
	set := map[string]bool{}
	add := func(p string) {
		if len(p) <= 60 {
			set[p] = true
		}
	}
	for _, t := range terms {
		add(t)
		add("(" + t + ")")
		add("(?:" + t + ")")
		add("(?P<n>" + t + ")")
		add("(?i:" + t + ")")
		add("^" + t + "$")
	}
	small := []string{"a", "b", "ab", "a*", "aa", "x?", "[a]", "[ab]", `\d`, "a+", "-", "0", "{", "a{1}", "(a)", "(?:a)", "b{0,1}", "aa*", "a|b"}
	for _, s := range small {
		for _, t := range terms {
			add(s + t)
			add(t + s)
			add(s + "|" + t)
			add("(" + s + ")" + t)
			add("(?:" + s + "|" + t + ")")
		}
	}
	if tier == "thorough" {
		// three-part patterns over a sub-list (the full cube is ~700k patterns, half an hour of queries)
		small3 := []string{"a", "ab", "a*", "[ab]", "(a)", "a|b"}
		for _, s1 := range small3 {
			for _, s2 := range small3 {
				for _, t := range terms {
					add(s1 + t + s2)
					add(s1 + "|" + t + "|" + s2)
					add("(" + s1 + t + ")" + s2)
				}
			}
		}
	}
	// text that only looks like a repetition once brackets or escapes are removed
	for _, pre := range []string{"a", "ab", "(a)", "[a]"} {
		for _, mid := range []string{"[{]", `\{`, "{"} {
			for _, tail := range []string{"2}", "1,2}", `1\,2}`, "1[,]2}", "1,}", ",2}", "2[}]", `2\}`} {
				add(pre + mid + tail)
				add(pre + mid + tail + "b")
			}
		}
	}
	// literal alternations with common prefixes / suffixes (factoring rules)
	words := []string{"http", "https", "ab", "abc", "xab", "a", "ba", "aab", "abb"}
	for _, w1 := range words {
		for _, w2 := range words {
			add(w1 + "|" + w2)
			add("(?:" + w1 + "|" + w2 + ")x")
			add("(" + w1 + "|" + w2 + ")")
		}
	}
	// alternations of single characters and character classes, including classes whose
	// '-' / ']' is literal only because of where it stands (merging rules)
	classes := []string{"[a-]", "[-z]", "[]]", "[]a]", "[0-9+-]", "[Ee]", "[ab]", "[^a]", "[a-c]", `[\d]`, `[a\-]`, "[z-]", "[-]", "[a^]"}
	chars := []string{"a", "z", "b", "-", "]", "^", "e"}
	var alts []string
	alts = append(alts, classes...)
	alts = append(alts, chars...)
	for _, x := range alts {
		for _, y := range alts {
			add(x + "|" + y)
			add("(?:" + x + "|" + y + ")")
			add("(" + x + "|" + y + ")b")
			if tier == "thorough" {
				for _, z := range chars {
					add(x + "|" + y + "|" + z)
					add(z + "|" + x + "|" + y)
				}
			}
		}
	}
	var out []string
	for p := range set {
		if _, err := regexp.Compile(p); err == nil {
			out = append(out, p)
		}
	}
	sort.Strings(out)
	return out
}

// testdataPairs: the repository's own before patterns.
func c11TestdataPatterns() []string {
	data, err := os.ReadFile(filepath.Join(repoDir, "checkers/testdata/regexpSimplify/positive_tests.go"))
	if err != nil {
		return nil
	}
	re := regexp.MustCompile("regexp\\.(?:MustCompile|Compile)\\((`[^`]*`|\"(?:[^\"\\\\]|\\\\.)*\")\\)")
	var out []string
	for _, m := range re.FindAllStringSubmatch(string(data), -1) {
		if s, err := strconv.Unquote(m[1]); err == nil {
			if _, err := regexp.Compile(s); err == nil {
				out = append(out, s)
			}
		}
	}
	return out
}

var rewriteRE = regexp.MustCompile("^can re-write `(.*)` as `(.*)`$")

// c11Rewrites runs the real checker on the patterns and returns A -> B.
func c11Rewrites(patterns []string) (map[string]string, error) {
	var src strings.Builder
	src.WriteString("package cand\n\nimport \"regexp\"\n\n")
	for _, p := range patterns {
		fmt.Fprintf(&src, "var _ = regexp.MustCompile(%s)\n", strconv.Quote(p))
	}
	res, err := runRealised("regexpSimplify", nil, []string{src.String()}, "")
	if err != nil {
		return nil, err
	}
	out := map[string]string{}
	for _, r := range res {
		if r.Status != "OK" {
			return nil, fmt.Errorf("native regexpSimplify run: %s %s", r.Status, r.Detail)
		}
		var ws []struct {
			Text string
			Line int
		}
		json.Unmarshal([]byte(r.JSON), &ws)
		for _, w := range ws {
			idx := w.Line - 5
			if idx < 0 || idx >= len(patterns) {
				continue
			}
			a := patterns[idx]
			// the message quotes A and B with backticks; B is everything after "` as `"
			q := "can re-write `" + a + "` as `"
			if strings.HasPrefix(w.Text, q) && strings.HasSuffix(w.Text, "`") {
				out[a] = w.Text[len(q) : len(w.Text)-1]
			}
		}
	}
	return out, nil
}

func runSolverOnce(kind, script string, timeoutS int) (string, string) {
	var cmd *exec.Cmd
	switch kind {
	case "cvc5":
		cmd = exec.Command("cvc5", "--strings-exp", "--produce-models", "--lang=smt2", fmt.Sprintf("--tlimit=%d", timeoutS*1000))
	default:
		cmd = exec.Command(kind, "-in", "-smt2", fmt.Sprintf("-T:%d", timeoutS))
	}
	cmd.Stdin = strings.NewReader(script)
	var out bytes.Buffer
	cmd.Stdout = &out
	cmd.Stderr = &out
	cmd.Run()
	text := strings.TrimSpace(out.String())
	first := text
	if i := strings.IndexByte(text, '\n'); i >= 0 {
		first = text[:i]
	}
	return strings.TrimSpace(first), text
}

type c11Finding struct {
	A, B    string
	Kind    string // language | extent | names
	Subject string
	Detail  string
}

func c11Language(a, b string) (verdict string, witness string) {
	ra, err1 := syntax.Parse(a, syntax.Perl)
	rb, err2 := syntax.Parse(b, syntax.Perl)
	if err1 != nil || err2 != nil {
		return "skip", ""
	}
	// language of whole-string matches: anchors and word boundaries are not part of this query
	sa, err1 := interp.RegexToSMT(stripCaptures(ra.Simplify()))
	sb, err2 := interp.RegexToSMT(stripCaptures(rb.Simplify()))
	if err1 != nil || err2 != nil {
		return "skip", ""
	}
	script := fmt.Sprintf("(set-logic ALL)\n(declare-const s String)\n(assert (str.in_re s (re.* (re.range \"\\u{0}\" \"\\u{ff}\"))))\n(assert (xor (str.in_re s %s) (str.in_re s %s)))\n(check-sat)\n(get-value (s))\n", sa, sb)
	for _, k := range []string{"z3-new", "cvc5"} {
		v, text := runSolverOnce(k, script, 20)
		switch v {
		case "unsat":
			return "unsat", ""
		case "sat":
			if i := strings.Index(text, "\""); i >= 0 {
				w := text[i+1:]
				if j := strings.LastIndex(w, "\""); j >= 0 {
					w = w[:j]
				}
				return "sat", unescapeSMTString(w)
			}
			return "sat", ""
		}
	}
	return "unknown", ""
}

func stripCaptures(re *syntax.Regexp) *syntax.Regexp { return re }

func unescapeSMTString(s string) string {
	var b []byte
	for i := 0; i < len(s); i++ {
		if s[i] == '\\' && i+2 < len(s) && s[i+1] == 'u' && s[i+2] == '{' {
			j := strings.IndexByte(s[i:], '}')
			if j > 0 {
				v, err := strconv.ParseUint(s[i+3:i+j], 16, 32)
				if err == nil && v < 256 {
					b = append(b, byte(v))
					i += j
					continue
				}
			}
		}
		if s[i] == '"' && i+1 < len(s) && s[i+1] == '"' {
			b = append(b, '"')
			i++
			continue
		}
		b = append(b, s[i])
	}
	return string(b)
}

// c11Extent asks for a subject (<= L bytes) where the submatch indexes differ.
func c11Extent(a, b string, L int) (verdict string, subject string) {
	script, err := regexsem.Query(a, b, L)
	if err != nil {
		if strings.Contains(err.Error(), "capture groups") {
			return "names", ""
		}
		return "skip", ""
	}
	v, text := runSolverOnce("z3", script, 30)
	if v != "sat" && v != "unsat" {
		v, text = runSolverOnce("z3-new", script, 30)
	}
	switch v {
	case "unsat":
		return "unsat", ""
	case "sat":
		// parse (get-value (n c0 c1 ...))
		vals := regexp.MustCompile(`\((n|c\d+) (\(- \d+\)|\d+)\)`).FindAllStringSubmatch(text, -1)
		n := 0
		cs := map[int]byte{}
		for _, m := range vals {
			x, _ := strconv.Atoi(strings.Trim(strings.ReplaceAll(m[2], "(- ", "-"), ")"))
			if m[1] == "n" {
				n = x
			} else {
				k, _ := strconv.Atoi(m[1][1:])
				cs[k] = byte(x)
			}
		}
		var sb []byte
		for i := 0; i < n; i++ {
			sb = append(sb, cs[i])
		}
		return "sat", string(sb)
	}
	return "unknown", ""
}

func c11Differs(a, b, subject string) (bool, string) {
	ra, err1 := regexp.Compile(a)
	rb, err2 := regexp.Compile(b)
	if err1 != nil || err2 != nil {
		return err1 == nil && err2 != nil, fmt.Sprintf("compile: %v / %v", err1, err2)
	}
	ia, ib := ra.FindStringSubmatchIndex(subject), rb.FindStringSubmatchIndex(subject)
	if fmt.Sprint(ia) != fmt.Sprint(ib) {
		return true, fmt.Sprintf("FindStringSubmatchIndex(%q): %v vs %v", subject, ia, ib)
	}
	if fmt.Sprint(ra.SubexpNames()) != fmt.Sprint(rb.SubexpNames()) {
		return true, fmt.Sprintf("SubexpNames: %q vs %q", ra.SubexpNames(), rb.SubexpNames())
	}
	return false, ""
}

func runC11(rc *runCtx, ev *evidence) (int, bool) {
	patterns := append(c11TestdataPatterns(), c11Patterns(rc.tier)...)
	L := 4
	if rc.tier == "thorough" {
		L = 6
	}
	t0 := time.Now()
	rewrites, err := c11Rewrites(patterns)
	if err != nil {
		fmt.Println("BROKEN: cannot run the real regexpSimplify natively:", err)
		ev.Broken = append(ev.Broken, err.Error())
		return 0, true
	}
	rc.logf("C11: %d patterns, %d rewrites proposed by the real checker (%.1fs)", len(patterns), len(rewrites), time.Since(t0).Seconds())
	var keys []string
	for a := range rewrites {
		keys = append(keys, a)
	}
	sort.Strings(keys)
	type job struct{ a, b string }
	jobs := make(chan job)
	var mu sync.Mutex
	var findings []c11Finding
	stats := map[string]int{}
	var solverTime time.Duration
	var wg sync.WaitGroup
	for w := 0; w < 14; w++ {
		wg.Add(1)
		go func() {
			defer wg.Done()
			for j := range jobs {
				t := time.Now()
				lv, lw := c11Language(j.a, j.b)
				xv, xs := c11Extent(j.a, j.b, L)
				d := time.Since(t)
				mu.Lock()
				solverTime += d
				stats["language:"+lv]++
				stats["extent:"+xv]++
				if lv == "sat" {
					if diff, det := c11Differs(j.a, j.b, lw); diff {
						findings = append(findings, c11Finding{j.a, j.b, "language", lw, det})
					} else {
						stats["language:unconfirmed"]++
					}
				}
				if xv == "sat" {
					if diff, det := c11Differs(j.a, j.b, xs); diff {
						findings = append(findings, c11Finding{j.a, j.b, "extent", xs, det})
					} else {
						stats["extent:unconfirmed"]++
					}
				}
				if xv == "names" {
					if diff, det := c11Differs(j.a, j.b, ""); diff {
						findings = append(findings, c11Finding{j.a, j.b, "groups", "", det})
					}
				}
				mu.Unlock()
			}
		}()
	}
	for _, a := range keys {
		jobs <- job{a, rewrites[a]}
	}
	close(jobs)
	wg.Wait()

	known := loadKnown()
	violations := 0
	sort.Slice(findings, func(i, j int) bool { return findings[i].A+findings[i].Kind < findings[j].A+findings[j].Kind })
	seenClass := map[string]bool{}
	knownPrinted := map[string]bool{}
	dir := filepath.Join(outDir, "replays", "C11")
	os.MkdirAll(dir, 0o755)
	for _, f := range findings {
		class := c11Class(f.A, f.B)
		isKnown := false
		for _, k := range known.Findings {
			if k.Property == "C11" && k.Witness == class {
				isKnown = true
				if !knownPrinted[class] {
					knownPrinted[class] = true
					fmt.Printf("KNOWN-FINDING: property=C11 %s\n", k.What)
				}
			}
		}
		if isKnown {
			ev.Known++
			continue
		}
		if seenClass[class] {
			continue
		}
		seenClass[class] = true
		violations++
		file := filepath.Join(dir, fmt.Sprintf("rewrite-%d.json", violations))
		data, _ := json.MarshalIndent(map[string]interface{}{"property": "C11", "A": f.A, "B": f.B, "kind": f.Kind, "subject": f.Subject, "detail": f.Detail, "class": class}, "", " ")
		os.WriteFile(file, data, 0o644)
		fmt.Printf("VIOLATION property=C11 replay=%s\n  rewrite `%s` -> `%s` (%s): %s\n", file, f.A, f.B, class, f.Detail)
	}
	ev.Violations += violations
	ev.ExtraStates += len(patterns)
	ev.ExtraTrans += len(rewrites) * 2
	ev.TracesValidated += len(findings)
	ev.ExtraCoverage["programs"] = len(rewrites)
	ev.ExtraCoverage["disagreements_checked"] = len(findings)
	ev.ExtraCoverage["patterns_enumerated"] = len(patterns)
	ev.ExtraCoverage["rewrites_judged"] = len(rewrites)
	ev.ExtraCoverage["subject_length_bound"] = L
	ev.ExtraCoverage["queries"] = stats
	ev.ExtraCoverage["solver_seconds"] = solverTime.Seconds()
	n := 0
	for _, a := range keys {
		if n < 8 {
			ev.ExtraSamples = append(ev.ExtraSamples, fmt.Sprintf("`%s` -> `%s`", a, rewrites[a]))
			n++
		}
	}
	inconclusive := stats["language:unknown"] + stats["extent:unknown"]
	if inconclusive > 0 {
		rc.logf("C11: %d queries undecided (reported in evidence)", inconclusive)
	}
	rc.logf("C11: queries %v", stats)
	return violations, false
}

// c11Class names the rewrite rule by the shape of the difference between A and B.
func c11Class(a, b string) string {
	switch {
	case strings.Contains(a, "[[:space:]]") || strings.Contains(a, "[[:^space:]]"):
		return "posix-space-class"
	case strings.Contains(a, "[][]"):
		return "bracket-class-with-leading-bracket"
	case strings.Contains(a, "|") && strings.Count(b, "|") < strings.Count(a, "|") && strings.Contains(b, "?"):
		return "alternation-factoring"
	}
	return c11Diff(a, b)
}

func c11Diff(a, b string) string {
	// common prefix / suffix stripped: what was rewritten into what
	i := 0
	for i < len(a) && i < len(b) && a[i] == b[i] {
		i++
	}
	j := 0
	for j < len(a)-i && j < len(b)-i && a[len(a)-1-j] == b[len(b)-1-j] {
		j++
	}
	return fmt.Sprintf("`%s` => `%s`", a[i:len(a)-j], b[i:len(b)-j])
}

func replayC11(rc *runCtx, path string, data []byte) int {
	var f struct{ A, B, Subject string }
	if err := json.Unmarshal(data, &f); err != nil {
		return 2
	}
	diff, det := c11Differs(f.A, f.B, f.Subject)
	fmt.Printf("replay %s: differs=%v %s\n", path, diff, det)
	if diff {
		fmt.Printf("VIOLATION property=C11 replay=%s\n", path)
		return 1
	}
	return 0
}
