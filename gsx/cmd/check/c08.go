package main

import (
	"bytes"
	"fmt"
	"os"
	"os/exec"
	"path/filepath"
	"regexp"
	"sort"
	"strings"

	"gsx/interp"
)

// ---- C08: native differential replay over the real binaries ----

// embeddedGroups lists the rule groups of /repo's rule source that have a
// positive example file (name -> example directory).
func embeddedGroups() ([]string, error) {
	src, err := os.ReadFile(filepath.Join(repoDir, "checkers", "rules", "rules.go"))
	if err != nil {
		return nil, err
	}
	var names []string
	for _, m := range regexp.MustCompile(`(?m)^func (\w+)\(m dsl\.Matcher\)`).FindAllStringSubmatch(string(src), -1) {
		if _, err := os.Stat(filepath.Join(repoDir, "checkers", "testdata", m[1], "positive_tests.go")); err == nil {
			names = append(names, m[1])
		}
	}
	sort.Strings(names)
	return names, nil
}

type frontends struct {
	dir string
}

func buildFrontends() (*frontends, error) {
	tmp, err := os.MkdirTemp("", "gsx-c08-")
	if err != nil {
		return nil, err
	}
	for _, b := range []string{"go-critic", "gocritic", "go-critic-analysis", "gocritic-analysis"} {
		cmd := exec.Command("go", "build", "-o", filepath.Join(tmp, b), "./cmd/"+b)
		cmd.Dir = repoDir
		cmd.Env = append(os.Environ(), "GOFLAGS=-mod=mod", "GOPROXY=off", "GOSUMDB=off", "GOTOOLCHAIN=local")
		if out, err := cmd.CombinedOutput(); err != nil {
			os.RemoveAll(tmp)
			return nil, fmt.Errorf("build %s: %v\n%s", b, err, out)
		}
	}
	return &frontends{dir: tmp}, nil
}

func (f *frontends) close() { os.RemoveAll(f.dir) }

var diagLineRE = regexp.MustCompile(`^(\S+?):(\d+):(\d+): (\w+): (.*)$`)

// run returns the multiset of "file:line:col: checker: message" lines (file
// reduced to its base name) printed by a front end, plus the raw output.
func (f *frontends) run(bin string, args ...string) (map[string]int, string) {
	cmd := exec.Command(filepath.Join(f.dir, bin), args...)
	cmd.Dir = repoDir
	cmd.Env = append(os.Environ(), "GOFLAGS=-mod=mod", "GOPROXY=off", "GOSUMDB=off", "GOTOOLCHAIN=local")
	var out bytes.Buffer
	cmd.Stdout = &out
	cmd.Stderr = &out
	cmd.Run()
	set := map[string]int{}
	for _, l := range strings.Split(out.String(), "\n") {
		if m := diagLineRE.FindStringSubmatch(strings.TrimSpace(l)); m != nil {
			set[fmt.Sprintf("%s:%s:%s: %s: %s", filepath.Base(m[1]), m[2], m[3], m[4], m[5])]++
		}
	}
	return set, out.String()
}

// replayC08Offer: for a rule group of the real rule data (the candidate's
// group index picks where to start) the CLI and the analyzer binary are run on
// the group's example package with only that group enabled.
func replayC08Offer(rc *runCtx, h *harness, v *interp.Violation, file string) (bool, string) {
	groups, err := embeddedGroups()
	if err != nil || len(groups) == 0 {
		return false, "no rule group with an example package found"
	}
	fe, err := buildFrontends()
	if err != nil {
		return false, err.Error()
	}
	defer fe.close()
	cli, ana := "go-critic", "go-critic-analysis"
	if strings.Contains(h.Pkg, "gocritic") {
		cli, ana = "gocritic", "gocritic-analysis"
	}
	start := 0
	if strings.HasSuffix(v.Model["enable"].Str, "1") {
		start = 1
	}
	for k := 0; k < 3 && start+k < len(groups); k++ {
		g := groups[start+k]
		pkg := "./checkers/testdata/" + g
		a, rawA := fe.run(cli, "check", "-shorterErrLocation=false", "-enable="+g, "-disable=", pkg)
		b, rawB := fe.run(ana, "-enable="+g, "-disable=", pkg)
		if len(a) == 0 {
			continue // the example does not trigger natively (not a usable witness)
		}
		if diff := diffSets(a, b); diff != "" {
			return true, fmt.Sprintf("%s check -enable=%s -disable= %s reports %d diagnostic(s), %s -enable=%s -disable= %s differs: %s | analyzer output: %s",
				cli, g, pkg, len(a), ana, g, pkg, diff, firstLines(rawB, 2))
		}
		_ = rawA
	}
	return false, "the real binaries agree on the rule groups tried"
}

func diffSets(a, b map[string]int) string {
	var only []string
	for k, n := range a {
		if b[k] != n {
			only = append(only, fmt.Sprintf("CLI x%d / analyzer x%d: %s", n, b[k], k))
		}
	}
	for k, n := range b {
		if _, ok := a[k]; !ok {
			only = append(only, fmt.Sprintf("CLI x0 / analyzer x%d: %s", n, k))
		}
	}
	sort.Strings(only)
	if len(only) > 3 {
		only = append(only[:3], fmt.Sprintf("... (%d differences)", len(only)))
	}
	return strings.Join(only, "; ")
}

func firstLines(s string, n int) string {
	ls := strings.Split(strings.TrimSpace(s), "\n")
	if len(ls) > n {
		ls = ls[:n]
	}
	return strings.Join(ls, " / ")
}

// replayC08Param: both front ends are run on the example packages of the
// threshold checkers over a sweep of parameter values; any difference in the
// reported sets confirms that a parameter does not reach the checker alike.
func replayC08Param(rc *runCtx, h *harness, v *interp.Violation, file string) (bool, string) {
	fe, err := buildFrontends()
	if err != nil {
		return false, err.Error()
	}
	defer fe.close()
	cli, ana := "go-critic", "go-critic-analysis"
	if strings.Contains(h.Pkg, "gocritic") {
		cli, ana = "gocritic", "gocritic-analysis"
	}
	sweeps := []struct {
		checker, dir, param string
		vals                []int
	}{
		{"tooManyResultsChecker", "tooManyResults", "maxResults", []int{1, 2, 3, 4, 5, 6, 7, 8}},
		{"nestingReduce", "nestingReduce", "bodyWidth", []int{1, 2, 3, 4, 5, 6, 7, 8}},
		{"hugeParam", "hugeParam", "sizeThreshold", []int{8, 16, 24, 32, 48, 64, 80, 96, 128, 256}},
	}
	for _, sw := range sweeps {
		pkg := "./checkers/testdata/" + sw.dir
		for _, val := range sw.vals {
			flag := fmt.Sprintf("-@%s.%s=%d", sw.checker, sw.param, val)
			a, _ := fe.run(cli, "check", "-shorterErrLocation=false", flag, "-enable="+sw.checker, "-disable=", pkg)
			b, rawB := fe.run(ana, flag, "-enable="+sw.checker, "-disable=", pkg)
			if diff := diffSets(a, b); diff != "" {
				return true, fmt.Sprintf("%s check %s -enable=%s %s and %s with the same flags differ: %s | analyzer output: %s", cli, flag, sw.checker, pkg, ana, diff, firstLines(rawB, 2))
			}
		}
	}
	return false, "the real binaries agree over the parameter sweep"
}

// replayC17Doc: the real binary's doc sub-command must list every rule group of the rule source.
func replayC17Doc(rc *runCtx, h *harness, v *interp.Violation, file string) (bool, string) {
	groups, err := embeddedGroups()
	if err != nil || len(groups) == 0 {
		return false, "no rule groups found in the rule source"
	}
	fe, err := buildFrontends()
	if err != nil {
		return false, err.Error()
	}
	defer fe.close()
	bin := "go-critic"
	if strings.Contains(h.Pkg, "gocritic") {
		bin = "gocritic"
	}
	cmd := exec.Command(filepath.Join(fe.dir, bin), "doc")
	cmd.Dir = repoDir
	out, _ := cmd.CombinedOutput()
	listed := map[string]int{}
	for _, l := range strings.Split(string(out), "\n") {
		if f := strings.Fields(l); len(f) > 0 {
			listed[f[0]]++
		}
	}
	for _, g := range groups {
		if listed[g] != 1 {
			return true, fmt.Sprintf("`%s doc` lists the rule group %s %d time(s) (%d checkers listed in all)", bin, g, listed[g], len(listed))
		}
	}
	return false, fmt.Sprintf("`%s doc` lists all %d rule groups that have examples", bin, len(groups))
}

// replayC08Variants: the real binaries on a scratch module whose package has the test
// files the model asks for; the CLI must report every file's diagnostics exactly once
// and agree with the analyzer binary.
func replayC08Variants(rc *runCtx, h *harness, v *interp.Violation, file string) (bool, string) {
	fe, err := buildFrontends()
	if err != nil {
		return false, err.Error()
	}
	defer fe.close()
	cli, ana := "go-critic", "go-critic-analysis"
	if strings.Contains(h.Pkg, "gocritic") {
		cli, ana = "gocritic", "gocritic-analysis"
	}
	dir, err := os.MkdirTemp("", "gsx-variants-")
	if err != nil {
		return false, err.Error()
	}
	defer os.RemoveAll(dir)
	body := "func %s(s string) bool { return len(s) == 0 == true }\n" // boolExprSimplify-free, uses a default checker below
	_ = body
	write := func(name, src string) { os.WriteFile(filepath.Join(dir, name), []byte(src), 0o644) }
	write("go.mod", "module example.com/p\n\ngo 1.21\n")
	finding := func(fn string) string {
		return "func " + fn + "(x []int) []int {\n\tx = append(x, 1)\n\tx = append(x, 2)\n\treturn x\n}\n" // appendCombine
	}
	write("a.go", "package p\n\n"+finding("A"))
	if v.Model["in-package tests?b"].B {
		write("a_test.go", "package p\n\n"+finding("inTest"))
	}
	if v.Model["external tests?b"].B {
		write("x_test.go", "package p_test\n\n"+finding("extTest"))
	}
	run := func(bin string, args ...string) (map[string]int, string) {
		cmd := exec.Command(filepath.Join(fe.dir, bin), args...)
		cmd.Dir = dir
		cmd.Env = append(os.Environ(), "GOFLAGS=-mod=mod", "GOPROXY=off", "GOSUMDB=off", "GOTOOLCHAIN=local")
		out, _ := cmd.CombinedOutput()
		set := map[string]int{}
		for _, l := range strings.Split(string(out), "\n") {
			if m := diagLineRE.FindStringSubmatch(strings.TrimSpace(l)); m != nil {
				set[fmt.Sprintf("%s:%s:%s: %s: %s", filepath.Base(m[1]), m[2], m[3], m[4], m[5])]++
			}
		}
		return set, string(out)
	}
	a, rawA := run(cli, "check", "-enable=appendCombine", "-disable=", ".")
	b, _ := run(ana, "-enable=appendCombine", "-disable=", ".")
	want := 1
	if v.Model["in-package tests?b"].B {
		want++
	}
	if v.Model["external tests?b"].B {
		want++
	}
	if len(a) != want {
		return true, fmt.Sprintf("%s check . on a package with %d source files (each with one finding) reports %d distinct diagnostics: %s", cli, want, len(a), firstLines(rawA, 4))
	}
	for k, n := range a {
		if n != 1 {
			return true, fmt.Sprintf("%s reports %q %d times", cli, k, n)
		}
	}
	if diff := diffSets(a, b); diff != "" && len(b) > 0 {
		return true, "the command and the analyzer binary differ: " + diff
	}
	return false, "the real binaries analyse every file once"
}
