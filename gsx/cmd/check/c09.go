package main

import (
	"encoding/json"
	"fmt"
	"go/ast"
	"go/parser"
	"go/token"
	"go/types"
	"os"
	"os/exec"
	"path/filepath"
	"regexp"
	"strings"

	"gsx/interp"
)

// ---- C09: native oracle on the suggestions the real checker prints ----

// suggestShape describes, per checker, how its message quotes the original
// and the suggested code.
type suggestShape struct {
	re   *regexp.Regexp // groups: 1 = original, 2 = suggestion
	kind string         // "expr": the suggestion replaces the expression at the diagnostic's position
}

var suggestShapes = map[string]suggestShape{
	"boolExprSimplify": {regexp.MustCompile("(?s)^can simplify `(.*)` to `(.*)`$"), "expr"},
	"newDeref":         {regexp.MustCompile("(?s)^replace `(.*)` with `(.*)`$"), "expr"},
	"unlambda":         {regexp.MustCompile("(?s)^replace `(.*)` with `(.*)`$"), "expr"},
	"typeUnparen":      {regexp.MustCompile("(?s)^could simplify (.*) to (.*)$"), "expr"},
	"underef":          {regexp.MustCompile("(?s)^could simplify (.*) to (.*)$"), "expr"},
	"methodExprCall":   {regexp.MustCompile("(?s)^consider to change `(.*)` to `(.*)`$"), "expr"},
	"regexpSimplify":   {regexp.MustCompile("(?s)^can re-write `(.*)` as `(.*)`$"), "text"},
	"hexLiteral":       {regexp.MustCompile("(?s)^prefer 0x over 0X, s/(.*)/(.*)/$"), "expr"},
	"paramTypeCombine": {regexp.MustCompile("(?s)^(.*) could be replaced with (.*)$"), "functype"},
	"sloppyReassign":   {regexp.MustCompile("(?s)^re-assignment to `(.*)` can be replaced with `(.*)`$"), "stmt"},
}

func parsesAs(kind, code string) error {
	switch kind {
	case "expr", "functype":
		_, err := parser.ParseExpr(code)
		return err
	case "stmt":
		_, err := parser.ParseFile(token.NewFileSet(), "s.go", "package p\nfunc _() {\n"+code+"\n}\n", 0)
		return err
	}
	return nil
}

// exprTypeAt type-checks src and returns the type string of the outermost
// expression spanning exactly [off, off+n).
func exprTypeAt(src string, off, n int) (string, string) {
	srcImporterOnce.Do(initSrcImporter)
	fset := token.NewFileSet()
	f, err := parser.ParseFile(fset, "cand.go", src, parser.ParseComments)
	if err != nil {
		return "", "parse: " + err.Error()
	}
	info := &types.Info{Types: map[ast.Expr]types.TypeAndValue{}}
	var firstErr string
	conf := types.Config{Importer: lockedImporter{}, Error: func(err error) {
		if firstErr == "" {
			firstErr = err.Error()
		}
	}}
	conf.Check("cand", fset, []*ast.File{f}, info)
	if firstErr != "" {
		return "", "types: " + firstErr
	}
	tf := fset.File(f.Pos())
	typ := ""
	ast.Inspect(f, func(nd ast.Node) bool {
		e, ok := nd.(ast.Expr)
		if !ok || typ != "" {
			return true
		}
		if tf.Offset(e.Pos()) == off && tf.Offset(e.End()) == off+n {
			if tv, ok := info.Types[e]; ok && tv.Type != nil {
				typ = types.TypeString(types.Default(tv.Type), nil)
				if tv.IsType() {
					typ = "type " + typ
				}
			}
		}
		return true
	})
	return typ, ""
}

// badSuggestion judges the diagnostics of one realised program against C09:
// the suggested code parses as the category it replaces; substituted for the
// original the file still type-checks and the expression keeps its type.
// It returns a description of the first failure and, if a substitution was
// made, the fixed source (for the re-analysis step).
func badSuggestion(checker, src, wsJSON string) (bad string, fixed []string, offsets []int) {
	var ws []struct {
		Pos, Text string
		Offset    int
	}
	if err := json.Unmarshal([]byte(wsJSON), &ws); err != nil {
		return "", nil, nil
	}
	shape, known := suggestShapes[checker]
	for _, w := range ws {
		if strings.Contains(w.Text, "%!") || strings.Contains(w.Text, "<nil>") {
			return fmt.Sprintf("the suggested code is a formatting failure, not Go code: %q at %s", w.Text, w.Pos), nil, nil
		}
		if !known {
			continue
		}
		m := shape.re.FindStringSubmatch(w.Text)
		if m == nil {
			continue
		}
		orig, sugg := m[1], m[2]
		if err := parsesAs(shape.kind, sugg); err != nil {
			return fmt.Sprintf("the suggested code %q does not parse as %s (%v): %q at %s", sugg, shape.kind, err, w.Text, w.Pos), nil, nil
		}
		if shape.kind != "expr" {
			continue
		}
		if w.Offset < 0 || w.Offset+len(orig) > len(src) || src[w.Offset:w.Offset+len(orig)] != orig {
			continue // the message quotes a re-printed form; no textual substitution possible
		}
		t0, e0 := exprTypeAt(src, w.Offset, len(orig))
		if e0 != "" || t0 == "" {
			continue
		}
		newSrc := src[:w.Offset] + sugg + src[w.Offset+len(orig):]
		t1, e1 := exprTypeAt(newSrc, w.Offset, len(sugg))
		if e1 != "" {
			return fmt.Sprintf("after replacing %q by the suggested %q the file no longer compiles (%s): %q at %s", orig, sugg, e1, w.Text, w.Pos), nil, nil
		}
		if t1 != "" && t1 != t0 {
			return fmt.Sprintf("replacing %q (type %s) by the suggested %q changes the type to %s: %q at %s", orig, t0, sugg, t1, w.Text, w.Pos), nil, nil
		}
		fixed = append(fixed, newSrc)
		offsets = append(offsets, w.Offset)
	}
	return "", fixed, offsets
}

// stillReported runs the real checker on the fixed sources and reports a
// diagnostic that is still raised at the place that was fixed.
func stillReported(checker string, params map[string]interface{}, fixed []string, offsets []int) string {
	if len(fixed) == 0 {
		return ""
	}
	results, err := runRealised(checker, params, fixed, "")
	if err != nil {
		return ""
	}
	for i, r := range results {
		if r.Status != "OK" || i >= len(offsets) {
			continue
		}
		var ws []struct {
			Pos, Text string
			Offset    int
		}
		json.Unmarshal([]byte(r.JSON), &ws)
		for _, w := range ws {
			if w.Offset == offsets[i] {
				return fmt.Sprintf("after applying the suggestion the checker reports again at the same place: %q at %s", w.Text, w.Pos)
			}
		}
	}
	return ""
}

var quotingRE = regexp.MustCompile(`ctx\.Warn\w*\([^"\n]*"[^"\n]*%s`)

// quotingCheckers lists the hand-written checkers of /repo's current tree
// whose diagnostics quote code with a %s verb.
func quotingCheckers() map[string]bool {
	out := map[string]bool{}
	files, _ := filepath.Glob(filepath.Join(repoDir, "checkers", "*_checker.go"))
	for _, f := range files {
		data, err := os.ReadFile(f)
		if err != nil {
			continue
		}
		if !quotingRE.Match(data) {
			continue
		}
		for _, m := range checkerNameRE.FindAllSubmatch(data, -1) {
			out[string(m[1])] = true
		}
	}
	return out
}

// replayRuleOrder: the real switchTrue rule group fires twice with the same
// message on a two-switch file; the real checker is run 200 times on fresh
// instances and the diagnostic sequences are compared.
func replayRuleOrder(rc *runCtx, h *harness, v *interp.Violation, file string) (bool, string) {
	src := "package cand\n\nfunc f(a, b, c, d int) {\n\tswitch true {\n\tcase a > b:\n\t}\n\tswitch true {\n\tcase c > d:\n\t}\n\tswitch true {\n\tcase a > d:\n\t}\n\tswitch true {\n\tcase b > c:\n\t}\n}\n"
	results, err := runRealisedFiles("switchTrue", nil, "repeat", map[string]string{"cand000_x.go": src})
	if err != nil {
		return false, err.Error()
	}
	for _, r := range results {
		if r.Status == "DIFF" {
			return true, "the real switchTrue checker, run repeatedly over a file with four `switch true`, reports its diagnostics in varying order: " + r.Detail
		}
	}
	return false, fmt.Sprintf("200 native runs agree (%d results)", len(results))
}

// replayRuleFix: the real wrapperFunc rule group mixes rules with and without
// a Suggest template; on a file where fixable and report-only matches
// alternate, every diagnostic's fix must cover the diagnostic's own position
// and report-only rules must carry no fix.
func replayRuleFix(rc *runCtx, h *harness, v *interp.Violation, file string) (bool, string) {
	src := "package cand\n\nimport \"strings\"\n\nfunc f(s, t string) (bool, []string, bool, []string) {\n" +
		"\ta := strings.Index(s, t) >= 0\n" + // Suggest: strings.Contains
		"\tb := strings.SplitN(s, t, -1)\n" + // report only
		"\tc := strings.IndexAny(s, t) >= 0\n" + // Suggest
		"\td := strings.SplitN(t, s, -1)\n" + // report only
		"\treturn a, b, c, d\n}\n"
	results, err := runRealised("wrapperFunc", nil, []string{src}, "")
	if err != nil {
		return false, err.Error()
	}
	if len(results) == 0 || results[0].Status != "OK" {
		return false, fmt.Sprintf("the example was not analysed: %+v", results)
	}
	var ws []struct {
		Pos, Text string
		From, To  int
		HasFix    bool
		Repl      string
		Offset    int
	}
	json.Unmarshal([]byte(results[0].JSON), &ws)
	if len(ws) != 4 {
		return false, fmt.Sprintf("expected 4 diagnostics of wrapperFunc, got %d", len(ws))
	}
	for _, w := range ws {
		reportOnly := strings.Contains(w.Text, "strings.Split method")
		switch {
		case reportOnly && w.HasFix:
			return true, fmt.Sprintf("the report-only diagnostic %q at %s carries a fix (%q for bytes [%d,%d)) that belongs to another diagnostic", w.Text, w.Pos, w.Repl, w.From-1, w.To-1)
		case !reportOnly && !w.HasFix:
			return true, fmt.Sprintf("the diagnostic %q at %s lost the fix of its Suggest template", w.Text, w.Pos)
		case w.HasFix && !(w.From-1 <= w.Offset && w.Offset < w.To-1):
			return true, fmt.Sprintf("the fix of %q at %s (offset %d) edits bytes [%d,%d), which do not contain the diagnostic", w.Text, w.Pos, w.Offset, w.From-1, w.To-1)
		case w.HasFix && !strings.Contains(w.Text, w.Repl):
			return true, fmt.Sprintf("the fix text %q of the diagnostic %q at %s is not the suggestion it quotes", w.Repl, w.Text, w.Pos)
		}
	}
	return false, "the real wrapperFunc checker pairs every diagnostic with its own fix"
}

const groupsTest = `package checkers

import (
	"fmt"
	"go/token"
	"strings"
	"testing"

	"github.com/go-critic/go-critic/checkers/rulesdata"
	"github.com/go-critic/go-critic/linter"
	"github.com/quasilyte/go-ruleguard/ruleguard"
)

func TestGSXGroups(t *testing.T) {
	e := ruleguard.NewEngine()
	e.InferBuildContext()
	if err := e.LoadFromIR(&ruleguard.LoadContext{Fset: token.NewFileSet()}, "rules/rules.go", rulesdata.PrecompiledRules); err != nil {
		t.Fatal(err)
	}
	byName := map[string][]*linter.CheckerInfo{}
	embedded := 0
	for _, info := range linter.GetCheckersInfo() {
		byName[info.Name] = append(byName[info.Name], info)
		if info.EmbeddedRuleguard {
			embedded++
		}
	}
	groups := e.LoadedGroups()
	bad := 0
	say := func(format string, args ...interface{}) {
		bad++
		fmt.Printf("GSX-GROUPS\tBAD\t%s\n", fmt.Sprintf(format, args...))
	}
	if embedded != len(groups) {
		say("%d checkers are marked as rule-based, the rule data has %d groups", embedded, len(groups))
	}
	for _, g := range groups {
		infos := byName[g.Name]
		if len(infos) != 1 {
			say("rule group %s has %d registered checkers", g.Name, len(infos))
			continue
		}
		info := infos[0]
		if !info.EmbeddedRuleguard {
			say("checker %s is not marked as rule-based", g.Name)
		}
		if info.Summary != strings.TrimSpace(g.DocSummary) || info.Before != strings.TrimSpace(g.DocBefore) || info.After != strings.TrimSpace(g.DocAfter) || info.Note != strings.TrimSpace(g.DocNote) {
			say("checker %s: summary/before/after/note differ from the rule group's (%q / %q)", g.Name, info.Summary, g.DocSummary)
		}
		if strings.Join(info.Tags, ",") != strings.Join(g.DocTags, ",") {
			say("checker %s: tags %v differ from the rule group's %v", g.Name, info.Tags, g.DocTags)
		}
	}
	fmt.Printf("GSX-GROUPS\tDONE\t%d groups, %d problems\n", len(groups), bad)
}
`

// replayC17Groups compares, natively, the real registered rule-based checkers with the groups the real engine loads from the shipped rule data.
func replayC17Groups(rc *runCtx, h *harness, v *interp.Violation, file string) (bool, string) {
	tmp, err := os.MkdirTemp("", "gsx-groups-")
	if err != nil {
		return false, err.Error()
	}
	defer os.RemoveAll(tmp)
	tf := filepath.Join(tmp, "zz_verif_groups_test.go")
	os.WriteFile(tf, []byte(groupsTest), 0o644)
	out, err := runGoTest(tmp, map[string]string{filepath.Join(repoDir, "checkers", "zz_verif_groups_test.go"): tf},
		[]string{"-v", "-vet=off", "-count=1", "-run", "^TestGSXGroups$", "./checkers"}, nil)
	if err != nil {
		return false, err.Error()
	}
	done := false
	for _, l := range strings.Split(out, "\n") {
		p := strings.Split(strings.TrimSpace(l), "\t")
		if len(p) == 3 && p[0] == "GSX-GROUPS" {
			if p[1] == "BAD" {
				return true, "real registry vs real rule data: " + p[2]
			}
			done = true
		}
	}
	if !done {
		return false, "native: " + lastLines(out, 3)
	}
	return false, "the real registry matches the groups of the shipped rule data"
}

// badIdentityClaim judges dupSubExpr-style diagnostics on a realised program:
// a binary expression reported as having identical operands must not contain a
// function call (conversions excepted) or a channel receive in an operand.
func badIdentityClaim(src, wsJSON string) string {
	var ws []struct {
		Pos, Text string
		Offset    int
	}
	if err := json.Unmarshal([]byte(wsJSON), &ws); err != nil || len(ws) == 0 {
		return ""
	}
	srcImporterOnce.Do(initSrcImporter)
	fset := token.NewFileSet()
	f, err := parser.ParseFile(fset, "cand.go", src, 0)
	if err != nil {
		return ""
	}
	info := &types.Info{Types: map[ast.Expr]types.TypeAndValue{}}
	conf := types.Config{Importer: lockedImporter{}, Error: func(error) {}}
	conf.Check("cand", fset, []*ast.File{f}, info)
	tf := fset.File(f.Pos())
	for _, w := range ws {
		bad := ""
		ast.Inspect(f, func(n ast.Node) bool {
			be, ok := n.(*ast.BinaryExpr)
			if !ok || bad != "" || tf.Offset(be.Pos()) != w.Offset {
				return true
			}
			ast.Inspect(be, func(m ast.Node) bool {
				switch x := m.(type) {
				case *ast.CallExpr:
					if tv, ok := info.Types[x.Fun]; !ok || !tv.IsType() {
						bad = fmt.Sprintf("%q at %s: the operands call %s, which may return a different value each time", w.Text, w.Pos, src[tf.Offset(x.Pos()):tf.Offset(x.End())])
					}
				case *ast.UnaryExpr:
					if x.Op == token.ARROW {
						bad = fmt.Sprintf("%q at %s: the operands receive from a channel", w.Text, w.Pos)
					}
				}
				return bad == ""
			})
			return true
		})
		if bad != "" {
			return bad
		}
	}
	return ""
}

// replayDupSubExpr: rebuild the template from the model, let the real checker
// flag it, and judge the flagged expression with the native identity oracle.
func replayDupSubExpr(rc *runCtx, h *harness, v *interp.Violation, file string) (bool, string) {
	kind := int(v.Model["choose:operand?c"].I.Int64())
	opn := int(v.Model["op?i"].I.Int64())
	operands := []string{"x", "x + 1", "int(x)", "p.f", "a[x]", "f()", "<-ch", "x + f()"}
	if kind < 0 || kind >= len(operands) {
		return false, "model without an operand kind"
	}
	e := operands[kind]
	op := token.Token(opn).String()
	expr := fmt.Sprintf("(%s) %s (%s)", e, op, e)
	if kind == 0 || kind == 3 || kind == 4 || kind == 5 {
		expr = fmt.Sprintf("%s %s %s", e, op, e)
	}
	src := "package cand\n\nvar (\n\tx  int\n\tp  struct{ f int }\n\ta  []int\n\tch chan int\n)\n\nfunc f() int { x++; return x }\n\nfunc gsxF() interface{} {\n\treturn " + expr + "\n}\n"
	if ok, msg := typeCheck(src); !ok {
		return false, "the rebuilt program does not type-check: " + msg
	}
	results, err := runRealised("dupSubExpr", nil, []string{src}, "")
	if err != nil {
		return false, err.Error()
	}
	if len(results) == 0 || results[0].Status != "OK" {
		return false, fmt.Sprintf("not analysed: %+v", results)
	}
	if bad := badIdentityClaim(src, results[0].JSON); bad != "" {
		return true, bad + "\n" + src
	}
	return false, "the real checker does not report `" + expr + "`"
}

// replayNilValReturn: rebuild the template from the model, compile it and run
// it: the function the real checker flags must return nil whenever it takes the flagged return.
func replayNilValReturn(rc *runCtx, h *harness, v *interp.Violation, file string) (bool, string) {
	kind := int(v.Model["choose:operand?c"].I.Int64())
	operands := []string{"x", "p.next", "f()", "<-ch"}
	if kind < 0 || kind >= len(operands) {
		return false, "model without an operand kind"
	}
	e := operands[kind]
	op := token.Token(int(v.Model["op?i"].I.Int64())).String()
	shadow := ""
	if v.Model["nil is a user variable?b"].B {
		shadow = "\tnil := sentinel\n"
	}
	body := "type node struct{ next *node }\n\nvar (\n\tsentinel = &node{}\n\tx        = sentinel\n\tp        = &node{next: sentinel}\n\tch       = make(chan *node, 4)\n\tcalls    int\n)\n\n" +
		"func f() *node {\n\tcalls++\n\tif calls%2 == 1 {\n\t\treturn nil\n\t}\n\treturn sentinel\n}\n\n" +
		"func gsxF() (*node, bool) {\n" + shadow + "\tif " + e + " " + op + " nil {\n\t\treturn " + e + ", true\n\t}\n\treturn nil, false\n}\n"
	// the analysed variant returns a single value (what the checker looks for)
	analysed := "package cand\n\n" + strings.Replace(strings.Replace(strings.Replace(body, "(*node, bool)", "*node", 1), ", true", "", 1), "return nil, false", "return nil", 1)
	if ok, msg := typeCheck(analysed); !ok {
		return false, "the rebuilt program does not type-check: " + msg
	}
	results, err := runRealised("nilValReturn", nil, []string{analysed}, "")
	if err != nil {
		return false, err.Error()
	}
	if len(results) == 0 || results[0].Status != "OK" || results[0].Warnings == 0 {
		return false, "the real checker does not report the rebuilt program"
	}
	// run it: does the flagged return ever yield a non-nil value?
	dir, err := os.MkdirTemp("", "gsx-nilval-")
	if err != nil {
		return false, err.Error()
	}
	defer os.RemoveAll(dir)
	main := "package main\n\nimport \"fmt\"\n\n" + body + "\nfunc main() {\n\tch <- nil\n\tch <- sentinel\n\tch <- nil\n\tch <- sentinel\n\tfor i := 0; i < 2; i++ {\n\t\tif v, taken := gsxF(); taken && v != nil {\n\t\t\tfmt.Println(\"NONNIL\")\n\t\t\treturn\n\t\t}\n\t}\n\tfmt.Println(\"NIL\")\n}\n"
	os.WriteFile(filepath.Join(dir, "main.go"), []byte(main), 0o644)
	cmd := exec.Command("go", "run", filepath.Join(dir, "main.go"))
	cmd.Env = append(os.Environ(), "GOFLAGS=-mod=mod", "GOPROXY=off", "GOSUMDB=off", "GOTOOLCHAIN=local")
	out, err := cmd.CombinedOutput()
	if err != nil {
		return false, "compile/run failed: " + lastLines(string(out), 3)
	}
	if strings.Contains(string(out), "NONNIL") {
		return true, "the real checker reports `returned expr is always nil` for the return in\n" + analysed + "compiled and run, that return yields a non-nil value"
	}
	return false, "the flagged return yields nil in the compiled program"
}

// replayExitAfterDefer: rebuild the program of the model and let the real
// checker and go/types decide whether the reported qualifier is the std package.
func replayExitAfterDefer(rc *runCtx, h *harness, v *interp.Violation, file string) (bool, string) {
	names := [][2]string{{"log", "Fatal"}, {"log", "Fatalf"}, {"log", "Fatalln"}, {"os", "Exit"}}
	k := int(v.Model["choose:callee?c"].I.Int64())
	kind := int(v.Model["choose:qualifier is?c"].I.Int64())
	if k < 0 || k >= len(names) {
		return false, "model without a callee"
	}
	q, f := names[k][0], names[k][1]
	arg := `"boom"`
	if f == "Exit" {
		arg = "1"
	}
	var src string
	switch kind {
	case 2:
		src = "package cand\n\ntype logger struct{}\n\nfunc (logger) " + f + "(v ...interface{}) {}\n\nfunc f() {\n\tvar " + q + " logger\n\tdefer println()\n\t" + q + "." + f + "(" + arg + ")\n}\n"
	case 3:
		// a field of that name on a compound receiver; the file imports what the model says
		imports, use := "", ""
		for _, p := range []string{"log", "os"} {
			if mv, ok := v.Model["choose:file imports "+p+"?c"]; ok && mv.I != nil && mv.I.Int64() == 1 {
				imports += "import \"" + p + "\"\n"
				if p == "log" {
					use += "var _ = log.Println\n"
				} else {
					use += "var _ = os.Getpid\n"
				}
			}
		}
		src = "package cand\n\n" + imports + "\n" + use + "\ntype logger struct{}\n\nfunc (logger) " + f + "(v ...interface{}) {}\n\ntype app struct{ " + q + " logger }\n\nfunc f(a app) {\n\tdefer println()\n\ta." + q + "." + f + "(" + arg + ")\n}\n"
	default:
		return false, "only the variable / field namesakes are rebuilt natively (a foreign package of that name needs a module)"
	}
	if ok, msg := typeCheck(src); !ok {
		return false, "the rebuilt program does not type-check: " + msg
	}
	results, err := runRealised("exitAfterDefer", nil, []string{src}, "")
	if err != nil {
		return false, err.Error()
	}
	if len(results) > 0 && results[0].Status == "OK" && results[0].Warnings > 0 {
		return true, "the real checker reports that a method of a local variable named " + q + " `will exit`: " + results[0].JSON + "\n" + src
	}
	return false, "the real checker stays silent on the namesake"
}

// replayRangeAppendAll: the program of the model with a user-declared append.
func replayRangeAppendAll(rc *runCtx, h *harness, v *interp.Violation, file string) (bool, string) {
	if !v.Model["append is a user function?b"].B {
		return false, "model without a user-declared append"
	}
	src := "package cand\n\nfunc append(a []int, b ...int) []int { return a }\n\nfunc g(xs []int) []int {\n\tvar out []int\n\tfor range xs {\n\t\tout = append(out, xs...)\n\t}\n\treturn out\n}\n"
	results, err := runRealised("rangeAppendAll", nil, []string{src}, "")
	if err != nil {
		return false, err.Error()
	}
	if len(results) > 0 && results[0].Status == "OK" && results[0].Warnings > 0 {
		return true, "the real checker reports a call of a user-declared append: " + results[0].JSON + "\n" + src
	}
	return false, "the real checker stays silent on the namesake"
}
