package main

// RuleTV: translation validation of the rule-based checkers.
//
// The rule engine (ruleguard/gogrep) is third-party code that GSX cannot
// execute; what go-critic owns is the rule *source* (patterns, Where filters,
// Suggest/Report templates) and its precompiled copy. RuleTV decides the
// semantic claims of those rules the way C11 decides the regexp rewrites:
//
//   - the program dimension is a bounded grid: every syntax pattern of /repo's
//     shipped rule IR is instantiated with operand forms from a typed menu
//     (variables of basic, defined, slice, array, map, time types, literals,
//     impure calls) under several scope environments (the real builtins, or a
//     package-level user declaration that shares the builtin's name); the
//     well-typed instantiations are analysed by the REAL checker (the real
//     engine decides matching and filters - no model of it is involved);
//   - for every diagnostic the run-time dimension is symbolic: the reported
//     code and the suggested code are translated (gosem.go) into SMT terms over
//     the operand values, and the solver decides equivalence (C10), the truth
//     of the claimed fact (C12) or that the flagged call behaves like the API
//     the diagnostic names (C20) for ALL values within the stated bounds;
//   - a model is replayed: a Go program that sets the operands to the model
//     values and runs original and suggestion natively; only a reproduced
//     difference is reported.
//
// For C09 the grid supplies the candidates for the native parse / substitute /
// type-check oracle that the check already applies to solver-made candidates.

import (
	"bytes"
	"encoding/json"
	"fmt"
	"go/ast"
	"go/parser"
	"go/token"
	"go/types"
	"os"
	"os/exec"
	"path/filepath"
	"regexp"
	"sort"
	"strconv"
	"strings"
	"sync"
	"time"
)

type tvForm struct{ Name, Expr string }

// the operand menu; every form is an expression over the prelude's declarations
var tvMenuFull = []tvForm{
	{"i", "i"}, {"j", "j"}, {"lit3", "3"}, {"lit0", "0"}, {"fi", "fi()"}, {"u8", "u8"},
	{"s", "s"}, {"s2", "s2"}, {"strlit", `"ab"`}, {"ns", "ns"}, {"fs", "fs()"},
	{"b", "b"}, {"b2", "b2"}, {"nb", "nb"}, {"fb", "fb()"},
	{"xs", "xs"}, {"nxs", "nxs"}, {"arr", "arr"}, {"parr", "parr"}, {"m", "m"}, {"nm", "nm"}, {"fxs", "fxs()"},
	{"f", "f"}, {"nf", "nf"}, {"t", "t"}, {"pt", "pt"}, {"sti", "st.i"}, {"sts", "st.s"}, {"tmp", "tmp"}, {"ok", "ok"}, {"nil", "nil"},
	// operands of library types (writers, buffers, a compiled regexp, a wait group, a sync.Map)
	{"pst", "pst"},
	{"w", "w"}, {"buf", "buf"}, {"pbuf", "pbuf"}, {"sbld", "sbld"}, {"re", "re"}, {"wg", "wg"}, {"smap", "smap"},
}

// declarations of the library-typed operands; each needs its package imported (left out in
// the environment that gives that package's name to a user variable)
var tvLibDecls = []struct{ pkg, decl string }{
	{"io", "var w io.Writer\n"}, {"bytes", "var buf bytes.Buffer\nvar pbuf *bytes.Buffer\n"}, {"strings", "var sbld *strings.Builder\n"},
	{"regexp", "var re *regexp.Regexp\n"}, {"sync", "var wg sync.WaitGroup\nvar smap *sync.Map\n"},
}

func tvMenu(names ...string) []tvForm {
	var out []tvForm
	for _, n := range names {
		for _, f := range tvMenuFull {
			if f.Name == n {
				out = append(out, f)
			}
		}
	}
	return out
}

var (
	tvClean       = []*regexp.Regexp{regexp.MustCompile(`,\s*\)`), regexp.MustCompile(`\(\s*,\s*`), regexp.MustCompile(`\{\s*;`), regexp.MustCompile(`;\s*;`), regexp.MustCompile(`;\s*\}`)}
	tvPkgQual     = regexp.MustCompile("\\b([a-z]\\w*)\\.(\x00|[A-Z])")
	tvBuiltinCall = map[string]*regexp.Regexp{}
)

func init() {
	for name := range tvNamesakes {
		tvBuiltinCall[name] = regexp.MustCompile(`(^|[^\w.$])` + name + `\(`)
	}
}

// an unrelated statement planted where a pattern has a statement wildcard
const tvMarkerStmt = "gsxSnk = 12345"

var tvVariadicMenu = []string{"", "s", `"n", false, "u"`, `"n", 0, "u"`, `"n", "v", "u"`, `"%d", i`}

const tvPreludeDecls = `
type NS string
type NB []byte
type NXS []int
type NM map[int]int
type NF float64
type ST struct {
	i int
	s string
}

var (
	i, j   int
	u8     uint8
	s, s2  string
	ns     NS
	b, b2  []byte
	nb     NB
	xs     []int
	nxs    NXS
	arr    [3]int
	parr   *[3]int
	m      map[int]int
	nm     NM
	f      float64
	nf     NF
	t      time.Time
	pt     *time.Time
	ok     bool
	st     ST
	pst    *ST
	gsxSnk interface{}
)

var (
	gsxTrace  [32]string
	gsxTraceN int
	gsxInts   = map[string]*[8]int{}
	gsxStrs   = map[string]*[8]string{}
	gsxN      = map[string]int{}
)

func gsxEvent(fn string) int {
	gsxTrace[gsxTraceN&31] = fn
	gsxTraceN++
	k := gsxN[fn]
	gsxN[fn] = k + 1
	return k & 7
}
func gsxInt(fn string) int {
	k := gsxEvent(fn)
	if a := gsxInts[fn]; a != nil {
		return a[k]
	}
	return 0
}
func gsxStr(fn string) string {
	k := gsxEvent(fn)
	if a := gsxStrs[fn]; a != nil {
		return a[k]
	}
	return ""
}
func fi() int     { return gsxInt("fi") }
func fs() string  { return gsxStr("fs") }
func fb() []byte  { return []byte(gsxStr("fb")) }
func fxs() []int  { gsxEvent("fxs"); return xs }
`

// namesake declarations: a package-level function that shares a builtin's name
var tvNamesakes = map[string]string{
	"len":    "func len(a ...interface{}) int { return gsxInt(\"len\") }\n",
	"cap":    "func cap(a ...interface{}) int { return gsxInt(\"cap\") }\n",
	"copy":   "func copy(a ...interface{}) int { return gsxInt(\"copy\") }\n",
	"append": "func append(a ...interface{}) []int { gsxEvent(\"append\"); return nil }\n",
}

var tvPkgPaths = map[string]string{"strings": "strings", "bytes": "bytes", "fmt": "fmt", "time": "time", "flag": "flag", "regexp": "regexp", "os": "os", "io": "io",
	"sort": "sort", "http": "net/http", "httptest": "net/http/httptest", "utf8": "unicode/utf8", "unicode": "unicode", "filepath": "path/filepath", "math": "math", "sync": "sync",
	"errors": "errors", "cmp": "cmp", "maps": "maps", "slices": "slices", "reflect": "reflect", "draw": "image/draw", "image": "image", "types": "go/types"}

var tvPkgRefRE = regexp.MustCompile(`\b([a-z][a-z0-9]*)\.[A-Z]`)

// tvFile builds a candidate file: prelude, the environment's namesakes and the target function.
func tvFile(pkgName, env, body string, extra string) string {
	used := map[string]bool{"time": true}
	for _, mm := range tvPkgRefRE.FindAllStringSubmatch(body+"\n"+extra, -1) {
		if _, ok := tvPkgPaths[mm[1]]; ok {
			used[mm[1]] = true
		}
	}
	shadowedPkg := ""
	if strings.HasPrefix(env, "pkgvar:") {
		shadowedPkg = strings.SplitN(strings.TrimPrefix(env, "pkgvar:"), ":", 2)[0]
	}
	for _, ld := range tvLibDecls {
		if ld.pkg != shadowedPkg {
			used[ld.pkg] = true
			extra = ld.decl + extra
		}
	}
	// pkgvar:<pkg>:<result type>: the package's name denotes a variable of a user type whose
	// methods share the spelling of the package's functions; the package is not imported
	if strings.HasPrefix(env, "pkgvar:") {
		p := strings.SplitN(strings.TrimPrefix(env, "pkgvar:"), ":", 2)
		delete(used, p[0])
		var decl strings.Builder
		decl.WriteString("type gsxPkgNS struct{}\n")
		seenM := map[string]bool{}
		for _, mm := range regexp.MustCompile(`\b`+p[0]+`\.([A-Z]\w*)`).FindAllStringSubmatch(body, -1) {
			if !seenM[mm[1]] {
				seenM[mm[1]] = true
				fmt.Fprintf(&decl, "func (gsxPkgNS) %s(a ...interface{}) (r %s) { gsxEvent(%q); return }\n", mm[1], p[1], p[0]+"."+mm[1])
			}
		}
		fmt.Fprintf(&decl, "var %s gsxPkgNS\n", p[0])
		extra += decl.String()
	}
	var names []string
	for n := range used {
		names = append(names, n)
	}
	sort.Strings(names)
	var sb strings.Builder
	fmt.Fprintf(&sb, "package %s\n\nimport (\n", pkgName)
	for _, n := range names {
		fmt.Fprintf(&sb, "\t%q\n", tvPkgPaths[n])
	}
	sb.WriteString(")\n")
	sb.WriteString(tvPreludeDecls)
	if strings.HasPrefix(env, "shadow:") {
		sb.WriteString(tvNamesakes[strings.TrimPrefix(env, "shadow:")])
	}
	sb.WriteString(extra)
	sb.WriteString("\n")
	sb.WriteString(body)
	return sb.String()
}

type tvCand struct {
	Rule    *irRule
	RuleIdx int
	Pattern string
	Env     string
	Bind    map[string]string
	Kind    string // expr | stmts
	Code    string
	Src     string
	Off     int // offset of Code in Src
	// ExprSibling: this is the expression-statement variant of that expression candidate; it is
	// kept only if the expression variant is ill-typed (a call with several results or none)
	ExprSibling *tvCand
}

var tvVarRE = regexp.MustCompile(`\$\*?[A-Za-z_]\w*|\$\$`)

// tvInstantiate expands one pattern into candidate programs.
func tvInstantiate(r *irRule, ridx int, pat string, quick bool, withPkgVar bool) []*tvCand {
	// metavariable occurrences: named ones share a form, every $_ is independent
	type slot struct {
		name     string
		variadic bool
	}
	var slots []slot
	seen := map[string]bool{}
	anon := 0
	tmpl := tvVarRE.ReplaceAllStringFunc(pat, func(v string) string {
		variadic := strings.HasPrefix(v, "$*")
		name := strings.TrimPrefix(strings.TrimPrefix(v, "$*"), "$")
		if name == "_" {
			anon++
			name = fmt.Sprintf("_%d", anon)
		}
		if !seen[name] {
			seen[name] = true
			slots = append(slots, slot{name, variadic})
		}
		return "\x00" + name + "\x00"
	})
	nNamed := 0
	for _, s := range slots {
		if !s.variadic && !regexp.MustCompile("\x00"+regexp.QuoteMeta(s.name)+"\x00\\(").MatchString(tmpl) {
			nNamed++
		}
	}
	var menu []tvForm
	switch {
	case nNamed <= 1:
		menu = tvMenuFull
	case nNamed == 2:
		menu = tvMenuFull
		if quick {
			menu = tvMenu("i", "lit3", "lit0", "fi", "s", "s2", "strlit", "ns", "fs", "b", "b2", "nb", "xs", "nxs", "arr", "parr", "m", "nm", "f", "t", "pt", "sti", "tmp", "w", "sbld", "pbuf", "re")
		}
	case nNamed == 3:
		menu = tvMenu("i", "lit0", "s", "s2", "strlit", "b", "xs", "t", "tmp", "fi", "fs", "nil", "w")
		if quick {
			menu = tvMenu("i", "lit0", "s", "s2", "b", "xs", "tmp", "fs", "nil")
		}
	default:
		menu = tvMenu("tmp", "s", "s2", "i", "b")
		if quick {
			menu = tvMenu("tmp", "s", "s2", "i")
		}
	}
	if withPkgVar {
		// C20 asks who the callee is, not what the operands are: one small menu for every slot
		menu = tvMenu("i", "lit0", "s", "strlit", "b", "xs", "m", "tmp", "t")
		if nNamed >= 4 {
			menu = tvMenu("tmp", "s", "s2", "i")
		}
	}
	kind := "expr"
	if _, err := parser.ParseExpr(strings.NewReplacer("\x00", "").Replace(strings.ReplaceAll(tmpl, "\x00", "x"))); err != nil || strings.Contains(pat, ";") {
		kind = "stmts"
	}
	// a metavariable in callee position ranges over the builtins (rules constrain such a
	// variable by text and object kind)
	callee := map[string]bool{}
	for _, mm := range regexp.MustCompile("\x00(\\w+)\x00\\(").FindAllStringSubmatch(tmpl, -1) {
		callee[mm[1]] = true
	}
	var builtinNames []string
	for name := range tvNamesakes {
		builtinNames = append(builtinNames, name)
	}
	sort.Strings(builtinNames)
	// builtins named in call position -> namesake environments (decided per instantiated code)
	envsOf := func(code string) []string {
		envs := []string{"real"}
		for _, name := range builtinNames {
			if tvBuiltinCall[name].MatchString(code) {
				envs = append(envs, "shadow:"+name)
			}
		}
		if withPkgVar {
			// the same namesakes declared in the function's own scope (expression patterns)
			for _, e := range append([]string{}, envs[1:]...) {
				if kind == "expr" {
					envs = append(envs, "shadowlocal:"+strings.TrimPrefix(e, "shadow:"))
				}
			}
			for _, mm := range tvPkgQual.FindAllStringSubmatch(tmpl, -1) {
				if _, ok := tvPkgPaths[mm[1]]; ok && mm[1] != "time" {
					for _, rt := range []string{"int", "*bool", "string"} {
						envs = append(envs, "pkgvar:"+mm[1]+":"+rt)
					}
					break
				}
			}
		}
		return envs
	}
	// a metavariable in selector position after a package name ranges over a few function names
	selector := map[string]bool{}
	for _, mm := range regexp.MustCompile("\\b[a-z]\\w*\\.\x00(\\w+)\x00").FindAllStringSubmatch(tmpl, -1) {
		selector[mm[1]] = true
	}
	var out []*tvCand
	choice := make([]string, len(slots))
	var rec func(k int)
	rec = func(k int) {
		if len(out) > 6000 {
			return
		}
		if k == len(slots) {
			bind := map[string]string{}
			parts := strings.Split(tmpl, "\x00")
			var code strings.Builder
			for i, p := range parts {
				if i%2 == 0 {
					code.WriteString(p)
					continue
				}
				for si, s := range slots {
					if s.name == p {
						code.WriteString(choice[si])
						bind[p] = choice[si]
					}
				}
			}
			c := code.String()
			// an empty variadic leaves ", )" or "(, " behind
			c = tvClean[0].ReplaceAllString(c, ")")
			c = tvClean[1].ReplaceAllString(c, "(")
			c = tvClean[2].ReplaceAllString(c, "{")
			c = tvClean[3].ReplaceAllString(c, ";")
			c = tvClean[4].ReplaceAllString(c, " }")
			for _, env := range envsOf(c) {
				if strings.HasPrefix(env, "pkgvar:") {
					// a user method accepts anything: a few operand forms suffice
					small := true
					for _, v := range bind {
						switch v {
						case "i", "s", "b", "xs", "tmp", "0", "Bool", "Int", "String", "Index", "", `"n", false, "u"`:
						default:
							small = false
						}
					}
					if !small {
						continue
					}
				}
				cand := &tvCand{Rule: r, RuleIdx: ridx, Pattern: pat, Env: env, Bind: bind, Kind: kind, Code: c}
				var body string
				if kind == "expr" {
					body = "func target() {\n\tgsxSnk = " + c + "\n}\n"
				} else {
					body = "func target() {\n\t" + c + "\n}\n"
				}
				if strings.HasPrefix(env, "shadowlocal:") {
					name := strings.TrimPrefix(env, "shadowlocal:")
					res := "int { return 0 }"
					if name == "append" {
						res = "[]int { return nil }"
					}
					body = "func target() {\n\t" + name + " := func(a ...interface{}) " + res + "\n\t_ = " + name + "\n\tgsxSnk = " + c + "\n}\n"
					cand.Kind = "stmts"
				}
				cand.Src = tvFile("cand", env, body, "")
				cand.Off = strings.LastIndex(cand.Src, c)
				out = append(out, cand)
				if kind == "expr" && cand.Kind == "expr" && strings.HasSuffix(strings.TrimSpace(c), ")") {
					// a call may have several results or none: also as an expression statement
					c2 := *cand
					c2.Kind = "stmts"
					c2.Src = tvFile("cand", env, "func target() {\n\t"+c+"\n}\n", "")
					c2.Off = strings.LastIndex(c2.Src, c)
					c2.ExprSibling = cand
					out = append(out, &c2)
				}
			}
			return
		}
		if slots[k].variadic {
			// a statement-position wildcard ($*_ between ';' / braces) is a run of unrelated statements
			if regexp.MustCompile("(^|[;{])\\s*\x00" + regexp.QuoteMeta(slots[k].name) + "\x00\\s*([;}]|$)").MatchString(tmpl) {
				for _, v := range []string{"", tvMarkerStmt} {
					choice[k] = v
					rec(k + 1)
				}
				return
			}
			for _, v := range tvVariadicMenu {
				choice[k] = v
				rec(k + 1)
			}
			return
		}
		if selector[slots[k].name] {
			for _, name := range []string{"Bool", "Int", "String", "Index"} {
				choice[k] = name
				rec(k + 1)
			}
			return
		}
		if callee[slots[k].name] {
			for _, name := range append(append([]string{}, builtinNames...), "fi") {
				choice[k] = name
				rec(k + 1)
			}
			return
		}
		ms := menu
		if strings.HasPrefix(slots[k].name, "_") && nNamed > 1 {
			ms = tvMenu("i", "lit0", "s", "b", "xs", "m", "arr", "strlit")
		}
		for _, f := range ms {
			choice[k] = f.Expr
			rec(k + 1)
		}
	}
	rec(0)
	return out
}

// tvHandWritten: hand-written rewriting checkers judged through the same pipeline; their
// "patterns" are the code shapes they rewrite, the suggestion is quoted in the message.
var tvHandWritten = []irRule{
	{Group: "newDeref", Report: "replace `$$` with `$zv`", Line: 0, Patterns: []string{
		"*new(int)", "*new(string)", "*new(bool)", "*new(float64)", "*new(uint8)", "*new(NS)", "*new(NF)", "*new([]int)", "*new(NXS)", "*new(NB)",
		"*new(map[int]int)", "*new([]byte)", "*new(*int)", "*new(ST)", "*new([3]int)", "*new(time.Time)", "*new(error)", "*new(func())", "*new((int))", "*new(rune)", "*new(*ST)"}},
	{Group: "underef", Report: "could simplify $$ to $x", Line: 0, Patterns: []string{"(*pst).i", "(*pst).s", "(*parr)[$i]", "(*$p).i"}},
}

var tvHandWrittenSugg = map[string]*regexp.Regexp{
	"newDeref": regexp.MustCompile("(?s)^replace `.*` with `(.*)`$"),
	"underef":  regexp.MustCompile("(?s)^could simplify .* to (.*)$"),
}

type tvWarning struct {
	Pos, Text string
	From, To  int
	HasFix    bool
	Repl      string
	Offset    int
}

// what a rule's diagnostic claims (decided from the shipped report template and the group)
type tvClaim struct {
	Kind  string         // equiv | true | false | panics | sameargs | api
	SugRE *regexp.Regexp // suggestion quoted in the message (when the rule has no Suggest)
}

var tvEquivGroups = map[string]*regexp.Regexp{
	"redundantSprint":  nil,
	"sloppyLen":        regexp.MustCompile("(?s)^.* can be (.*)$"),
	"valSwap":          regexp.MustCompile("(?s)^can re-write as `(.*)`$"),
	"emptyStringTest":  regexp.MustCompile("(?s)^replace `.*` with `(.*)`$"),
	"stringXbytes":     nil,
	"wrapperFunc":      nil,
	"assignOp":         regexp.MustCompile("(?s)^replace `.*` with `(.*)`$"),
	"unslice":          nil,
	"yodaStyleExpr":    regexp.MustCompile("(?s)^consider to change order in expression to (.*)$"),
	"stringsCompare":   nil,
	"timeExprSimplify": nil,
}

func tvClaimsOf(prop string, r *irRule) []tvClaim {
	var out []tvClaim
	if re, ok := tvHandWrittenSugg[r.Group]; ok {
		switch prop {
		case "C10":
			return []tvClaim{{Kind: "equiv", SugRE: re}}
		case "C09":
			return []tvClaim{{Kind: "welltyped", SugRE: re}}
		}
		return nil
	}
	switch prop {
	case "C10":
		re, ok := tvEquivGroups[r.Group]
		if !ok {
			return nil
		}
		if r.Group == "redundantSprint" && !strings.Contains(r.Report, "already string") {
			return nil // `$x.String()` for Stringers: user method, outside the fragment
		}
		if r.Suggest != "" || re != nil {
			if strings.Contains(r.Report, "always") && r.Group == "sloppyLen" {
				return nil
			}
			if r.Suggest == "" && !re.MatchString(strings.NewReplacer("$$", "X").Replace(r.Report)) {
				return nil
			}
			out = append(out, tvClaim{Kind: "equiv", SugRE: re})
		}
	case "C12":
		switch {
		case strings.Contains(r.Report, "is always true"):
			out = append(out, tvClaim{Kind: "true"})
		case strings.Contains(r.Report, "is always false"):
			out = append(out, tvClaim{Kind: "false"})
		case strings.Contains(r.Report, "always panics"):
			out = append(out, tvClaim{Kind: "panics"})
		case r.Group == "dupArg":
			out = append(out, tvClaim{Kind: "sameargs"})
		}
	case "C09":
		if r.Suggest != "" {
			out = append(out, tvClaim{Kind: "welltyped"})
		}
	case "C20":
		for _, p := range r.Patterns {
			for _, mm := range regexp.MustCompile(`(^|[^\w.$])([a-z]\w*)\.(\$|[A-Z])`).FindAllStringSubmatch(p, -1) {
				if _, ok := tvPkgPaths[mm[2]]; ok {
					return []tvClaim{{Kind: "api"}}
				}
			}
			// a callee metavariable that the filter pins to a builtin's spelling, or a builtin named literally
			for _, mm := range regexp.MustCompile(`\$(\w+)\(`).FindAllStringSubmatch(p, -1) {
				for name := range tvNamesakes {
					if strings.Contains(r.Where.Src, fmt.Sprintf(`m["%s"].Text == "%s"`, mm[1], name)) {
						return []tvClaim{{Kind: "api"}}
					}
				}
			}
			for name := range tvNamesakes {
				if regexp.MustCompile(`(^|[^\w.$])` + name + `\(`).MatchString(p) {
					return []tvClaim{{Kind: "api"}}
				}
			}
		}
	}
	return out
}

type tvFinding struct {
	Prop, Group, Class, Detail, Src, Replay string
	Line                                   int
}

type tvStats struct {
	mu                                                                                                    sync.Mutex
	Rules, Patterns, Instantiated, WellTyped, Diagnostics, Obligations, NotEncoded, Sat, Unsat, Unknown int
	Confirmed, Unconfirmed                                                                                int
	SolverSeconds                                                                                         float64
	NotEncodedWhy                                                                                         map[string]int
	PerGroup                                                                                              map[string]map[string]int
	Fixed                                                                                                 map[string][]tvFixedSrc
}

// a file with a suggestion applied, kept for the re-analysis step of C09
type tvFixedSrc struct {
	Src  string
	Off  int
	Cand *tvCand
	Rule *irRule
}

func (s *tvStats) group(g, k string, n int) {
	s.mu.Lock()
	defer s.mu.Unlock()
	if s.PerGroup[g] == nil {
		s.PerGroup[g] = map[string]int{}
	}
	s.PerGroup[g][k] += n
}

// tvLoad parses and type-checks a candidate source.
func tvLoad(src string) (*token.FileSet, *ast.File, *types.Info, *types.Package, error) {
	srcImporterOnce.Do(initSrcImporter)
	fset := token.NewFileSet()
	f, err := parser.ParseFile(fset, "cand.go", src, 0)
	if err != nil {
		return nil, nil, nil, nil, err
	}
	info := &types.Info{Types: map[ast.Expr]types.TypeAndValue{}, Defs: map[*ast.Ident]types.Object{}, Uses: map[*ast.Ident]types.Object{},
		Selections: map[*ast.SelectorExpr]*types.Selection{}}
	var first error
	conf := types.Config{Importer: lockedImporter{}, Error: func(err error) {
		if first == nil {
			first = err
		}
	}}
	pkg, _ := conf.Check("cand", fset, []*ast.File{f}, info)
	if first != nil {
		return nil, nil, nil, nil, first
	}
	return fset, f, info, pkg, nil
}

// tvTarget finds the statements of func target and, for expression candidates, the expression.
func tvTarget(f *ast.File) (*ast.FuncDecl, ast.Expr) {
	for _, d := range f.Decls {
		if fd, ok := d.(*ast.FuncDecl); ok && fd.Name.Name == "target" {
			if len(fd.Body.List) == 1 {
				if as, ok := fd.Body.List[0].(*ast.AssignStmt); ok && len(as.Lhs) == 1 {
					if id, ok := as.Lhs[0].(*ast.Ident); ok && id.Name == "gsxSnk" {
						return fd, as.Rhs[0]
					}
				}
			}
			return fd, nil
		}
	}
	return nil, nil
}

type tvSide struct {
	ctx   *semCtx
	val   semVal
	isExp bool
}

func tvEvalSide(sh *semShared, src string) (*tvSide, error) {
	_, f, info, pkg, err := tvLoad(src)
	if err != nil {
		return nil, fmt.Errorf("does not compile: %v", err)
	}
	fd, e := tvTarget(f)
	if fd == nil {
		return nil, fmt.Errorf("no target")
	}
	c := newSemCtx(sh, info, pkg)
	side := &tvSide{ctx: c}
	if e != nil {
		side.isExp = true
		side.val = c.eval(e)
	} else {
		for _, s := range fd.Body.List {
			c.exec(s)
		}
	}
	if c.bad != "" {
		return side, fmt.Errorf("not encoded: %s", c.bad)
	}
	return side, nil
}

// tvGetValues asks the solver and returns verdict and the model values of the declared scalars
// and of the element functions at indexes 0..semMaxLen-1.
func tvSolve(sh *semShared, goal string) (string, map[string]string, float64) {
	script := sh.script() + "(assert " + goal + ")\n(check-sat)\n"
	var terms []string
	for _, n := range sh.order {
		if _, ok := sh.scalars[n]; ok {
			terms = append(terms, n)
		}
	}
	var fns []string
	for fn := range sh.slices {
		fns = append(fns, fn)
	}
	sort.Strings(fns)
	for _, fn := range fns {
		for k := 0; k < semMaxLen; k++ {
			terms = append(terms, fmt.Sprintf("(%s %d)", fn, k))
		}
	}
	withModel := script
	if len(terms) > 0 {
		withModel += "(get-value (" + strings.Join(terms, " ") + "))\n"
	}
	t0 := time.Now()
	verdict, text := "unknown", ""
	for _, k := range []string{"z3-new", "cvc5"} {
		v, tx := runSolverOnce(k, withModel, 20)
		if strings.Contains(tx, "(error") && v != "unsat" && v != "sat" {
			continue
		}
		if v == "unsat" && strings.Contains(tx, "(error") && !strings.Contains(tx, "model is not available") {
			continue // an error before the verdict: inconclusive on this solver
		}
		if v == "sat" || v == "unsat" {
			verdict, text = v, tx
			break
		}
	}
	el := time.Since(t0).Seconds()
	if verdict != "sat" {
		return verdict, nil, el
	}
	model := map[string]string{}
	for _, tm := range terms {
		// "(term value)" pairs; values are ints, (- n), true/false, "strings", fp literals
		i := strings.Index(text, "("+tm+" ")
		if i < 0 {
			continue
		}
		rest := text[i+len(tm)+2:]
		model[tm] = tvReadValue(rest)
	}
	return verdict, model, el
}

func tvReadValue(s string) string {
	s = strings.TrimLeft(s, " \n")
	if s == "" {
		return ""
	}
	switch s[0] {
	case '"':
		j := 1
		for j < len(s) {
			if s[j] == '"' {
				if j+1 < len(s) && s[j+1] == '"' {
					j += 2
					continue
				}
				break
			}
			j++
		}
		return s[:j+1]
	case '(':
		depth := 0
		for j := 0; j < len(s); j++ {
			if s[j] == '(' {
				depth++
			} else if s[j] == ')' {
				depth--
				if depth == 0 {
					return s[:j+1]
				}
			}
		}
		return s
	}
	j := strings.IndexAny(s, " )\n")
	if j < 0 {
		return s
	}
	return s[:j]
}

func tvModelInt(v string) (int64, bool) {
	v = strings.TrimSpace(v)
	neg := false
	if strings.HasPrefix(v, "(-") {
		neg = true
		v = strings.TrimSpace(strings.TrimSuffix(strings.TrimPrefix(v, "(-"), ")"))
	}
	n, err := strconv.ParseInt(v, 10, 64)
	if err != nil {
		return 0, false
	}
	if neg {
		n = -n
	}
	return n, true
}

var tvEscRE = regexp.MustCompile(`\\u\{([0-9a-fA-F]+)\}|\\u([0-9a-fA-F]{4})`)

func tvModelString(v string) string {
	v = strings.TrimSpace(v)
	if len(v) >= 2 && v[0] == '"' {
		v = v[1 : len(v)-1]
	}
	v = strings.ReplaceAll(v, `""`, `"`)
	return tvEscRE.ReplaceAllStringFunc(v, func(m string) string {
		sm := tvEscRE.FindStringSubmatch(m)
		h := sm[1]
		if h == "" {
			h = sm[2]
		}
		n, _ := strconv.ParseInt(h, 16, 32)
		if n < 256 {
			return string([]byte{byte(n)})
		}
		return string(rune(n))
	})
}

// tvSetup renders Go statements that give the prelude's variables and the
// result streams of the event functions the values of a model.
func tvSetup(model map[string]string) string {
	var sb strings.Builder
	get := func(k string) (string, bool) { v, ok := model[k]; return v, ok }
	intOf := func(k string) int64 {
		if v, ok := get(k); ok {
			n, _ := tvModelInt(v)
			return n
		}
		return 0
	}
	for _, v := range []string{"i", "j", "u8", "st_i"} {
		if x, ok := get("v_" + v); ok {
			n, _ := tvModelInt(x)
			fmt.Fprintf(&sb, "\t%s = %d\n", strings.ReplaceAll(v, "_", "."), n)
		}
	}
	for _, v := range []string{"s", "s2", "st_s"} {
		if x, ok := get("v_" + v); ok {
			fmt.Fprintf(&sb, "\t%s = %q\n", strings.ReplaceAll(v, "_", "."), tvModelString(x))
		}
	}
	if x, ok := get("v_ns"); ok {
		fmt.Fprintf(&sb, "\tns = NS(%q)\n", tvModelString(x))
	}
	for _, v := range []string{"b", "b2"} {
		if x, ok := get("v_" + v); ok {
			fmt.Fprintf(&sb, "\t%s = []byte(%q)\n", v, tvModelString(x))
		}
	}
	if x, ok := get("v_nb"); ok {
		fmt.Fprintf(&sb, "\tnb = NB(%q)\n", tvModelString(x))
	}
	if x, ok := get("v_ok"); ok {
		fmt.Fprintf(&sb, "\tok = %s\n", strings.TrimSpace(x))
	}
	elems := func(fn string, n int64) string {
		var parts []string
		for k := int64(0); k < n && k < semMaxLen; k++ {
			parts = append(parts, fmt.Sprint(intOf(fmt.Sprintf("(%s %d)", fn, k))))
		}
		return strings.Join(parts, ", ")
	}
	for _, v := range [][2]string{{"xs", "[]int"}, {"nxs", "NXS"}} {
		if _, ok := get("v_" + v[0] + "_len"); ok {
			fmt.Fprintf(&sb, "\t%s = %s{%s}\n", v[0], v[1], elems("v_"+v[0]+"_at", intOf("v_"+v[0]+"_len")))
		}
	}
	if _, ok := get("(v_arr_at 0)"); ok {
		fmt.Fprintf(&sb, "\tarr = [3]int{%s}\n", elems("v_arr_at", 3))
	}
	if x, ok := get("v_parr_nil"); ok && strings.TrimSpace(x) == "false" {
		fmt.Fprintf(&sb, "\tparr = &[3]int{%s}\n", elems("v_parr_at", 3))
	}
	for _, v := range [][2]string{{"m", "map[int]int"}, {"nm", "NM"}} {
		if _, ok := get("v_" + v[0] + "_len"); ok {
			n := intOf("v_" + v[0] + "_len")
			var parts []string
			for k := int64(0); k < n; k++ {
				parts = append(parts, fmt.Sprintf("%d: %d", k, intOf(fmt.Sprintf("(v_%s_get %d)", v[0], k))))
			}
			fmt.Fprintf(&sb, "\t%s = %s{%s}\n", v[0], v[1], strings.Join(parts, ", "))
		}
	}
	for _, v := range []string{"t", "pt"} {
		if _, ok := get("v_" + v + "_sec"); ok {
			if v == "t" {
				fmt.Fprintf(&sb, "\tt = time.Unix(%d, %d)\n", intOf("v_t_sec"), intOf("v_t_nsec"))
			} else {
				fmt.Fprintf(&sb, "\tgsxPT := time.Unix(%d, %d)\n\tpt = &gsxPT\n", intOf("v_pt_sec"), intOf("v_pt_nsec"))
			}
		}
	}
	// result streams of event functions: call_<fn>_<k>
	ints := map[string][8]int64{}
	strs := map[string][8]string{}
	for k, v := range model {
		if !strings.HasPrefix(k, "v_call_") {
			continue
		}
		rest := strings.TrimPrefix(k, "v_call_")
		us := strings.LastIndex(rest, "_")
		if us < 0 {
			continue
		}
		fn := rest[:us]
		idx, err := strconv.Atoi(rest[us+1:])
		if err != nil || idx < 1 || idx > 8 {
			continue
		}
		if n, ok := tvModelInt(v); ok {
			a := ints[fn]
			a[idx-1] = n
			ints[fn] = a
		} else if strings.HasPrefix(strings.TrimSpace(v), `"`) {
			a := strs[fn]
			a[idx-1] = tvModelString(v)
			strs[fn] = a
		}
	}
	var fns []string
	for fn := range ints {
		fns = append(fns, fn)
	}
	sort.Strings(fns)
	for _, fn := range fns {
		a := ints[fn]
		fmt.Fprintf(&sb, "\tgsxInts[%q] = &[8]int{%d, %d, %d, %d, %d, %d, %d, %d}\n", fn, a[0], a[1], a[2], a[3], a[4], a[5], a[6], a[7])
	}
	fns = nil
	for fn := range strs {
		fns = append(fns, fn)
	}
	sort.Strings(fns)
	for _, fn := range fns {
		a := strs[fn]
		fmt.Fprintf(&sb, "\tgsxStrs[%q] = &[8]string{%q, %q, %q, %q, %q, %q, %q, %q}\n", fn, a[0], a[1], a[2], a[3], a[4], a[5], a[6], a[7])
	}
	return sb.String()
}

const tvReplayMain = `
func gsxReset() {
	gsxTraceN = 0
	gsxTrace = [32]string{}
	gsxN = map[string]int{}
	gsxSnk = nil
}

func gsxRun(gsxFn func()) (out string) {
	gsxReset()
	gsxSetup()
	defer func() {
		r := recover()
		state := fmt.Sprintf("i=%v j=%v u8=%v s=%q s2=%q ns=%q b=%q b2=%q nb=%q xs=%v nxs=%v arr=%v m=%v nm=%v f=%v ok=%v st=%v t=%v", i, j, u8, s, s2, ns, b, b2, nb, xs, nxs, arr, m, nm, f, ok, st, t.UnixNano())
		out = fmt.Sprintf("panic=%v result=%#v calls=%v state{%s}", r != nil, gsxSnk, gsxTrace[:gsxTraceN&31], state)
	}()
	gsxFn()
	return
}

func main() {
	a := gsxRun(gsxOrig)
	b := gsxRun(gsxSugg)
	fmt.Println("ORIG", a)
	fmt.Println("SUGG", b)
	if a != b {
		fmt.Println("GSX-DIFF")
	} else {
		fmt.Println("GSX-SAME")
	}
}
`

// tvReplay runs original and suggested code natively on the model's values.
func tvReplay(env, kind, orig, sugg string, model map[string]string) (bool, string, string) {
	wrap := func(name, code string) string {
		if kind == "expr" {
			return "func " + name + "() {\n\tgsxSnk = " + code + "\n}\n"
		}
		return "func " + name + "() {\n\t" + code + "\n}\n"
	}
	body := "func gsxSetup() {\n" + tvSetup(model) + "}\n" + wrap("gsxOrig", orig) + wrap("gsxSugg", sugg) + tvReplayMain
	src := tvFile("main", env, body, "var _ = fmt.Sprint\n")
	dir, err := os.MkdirTemp("", "gsx-ruletv-")
	if err != nil {
		return false, err.Error(), src
	}
	defer os.RemoveAll(dir)
	os.WriteFile(filepath.Join(dir, "main.go"), []byte(src), 0o644)
	cmd := exec.Command("go", "run", "main.go")
	cmd.Dir = dir
	cmd.Env = append(os.Environ(), "GOFLAGS=-mod=mod", "GOPROXY=off", "GOSUMDB=off", "GOTOOLCHAIN=local", "GO111MODULE=off")
	var out bytes.Buffer
	cmd.Stdout = &out
	cmd.Stderr = &out
	cmd.Run()
	text := out.String()
	return strings.Contains(text, "GSX-DIFF"), lastLines(text, 4), src
}

// runRuleTV is the Extra engine of C09, C10, C12 and C20.
func runRuleTV(prop string) func(rc *runCtx, ev *evidence) (int, bool) {
	return func(rc *runCtx, ev *evidence) (int, bool) {
		if rc.only != "" && !strings.Contains("RuleTV", rc.only) && !strings.HasPrefix(rc.only, "rule:") {
			return 0, false
		}
		t0 := time.Now()
		rules, err := dumpRuleIR()
		if err != nil {
			fmt.Println("BROKEN: cannot dump the rule IR:", err)
			ev.Broken = append(ev.Broken, err.Error())
			return 0, true
		}
		if prop == "C10" || prop == "C09" {
			rules = append(rules, tvHandWritten...)
		}
		quick := rc.tier != "thorough"
		st := &tvStats{NotEncodedWhy: map[string]int{}, PerGroup: map[string]map[string]int{}, Fixed: map[string][]tvFixedSrc{}}
		// 1. the grid
		byGroup := map[string][]*tvCand{}
		var groups []string
		for ri := range rules {
			r := &rules[ri]
			if strings.HasPrefix(rc.only, "rule:") && r.Group != strings.TrimPrefix(rc.only, "rule:") {
				continue
			}
			claims := tvClaimsOf(prop, r)
			if len(claims) == 0 {
				continue
			}
			st.Rules++
			for _, p := range r.Patterns {
				st.Patterns++
				cands := tvInstantiate(r, ri, p, quick, prop == "C20")
				st.Instantiated += len(cands)
				st.group(r.Group, "instantiations", len(cands))
				if prop != "C20" && prop != "C12" && prop != "C10" {
					// namesake environments only matter where the claim is about behaviour or identity
					var keep []*tvCand
					for _, c := range cands {
						if c.Env == "real" {
							keep = append(keep, c)
						}
					}
					cands = keep
				}
				if _, ok := byGroup[r.Group]; !ok {
					groups = append(groups, r.Group)
				}
				byGroup[r.Group] = append(byGroup[r.Group], cands...)
			}
		}
		rc.logf("RuleTV %s: grid built in %.1fs", prop, time.Since(t0).Seconds())
		// 2. keep the well-typed ones (go/types, 16 workers)
		srcImporterOnce.Do(initSrcImporter)
		for _, g := range groups {
			cands := byGroup[g]
			okv := make([]bool, len(cands))
			var wg sync.WaitGroup
			sem := make(chan struct{}, 16)
			for i := range cands {
				wg.Add(1)
				sem <- struct{}{}
				go func(i int) {
					defer wg.Done()
					defer func() { <-sem }()
					okv[i], _ = typeCheck(cands[i].Src)
				}(i)
			}
			wg.Wait()
			var keep []*tvCand
			seen := map[string]bool{}
			okOf := map[*tvCand]bool{}
			for i, c := range cands {
				okOf[c] = okv[i]
			}
			for i, c := range cands {
				if c.ExprSibling != nil && okOf[c.ExprSibling] {
					continue // the value form exists: discarding the value is not the subject
				}
				if okv[i] && !seen[c.Src] {
					seen[c.Src] = true
					keep = append(keep, c)
				}
			}
			byGroup[g] = keep
			st.WellTyped += len(keep)
			st.group(g, "well_typed_programs", len(keep))
		}
		rc.logf("RuleTV %s: %d rules, %d patterns, %d instantiations, %d well typed (%.1fs)", prop, st.Rules, st.Patterns, st.Instantiated, st.WellTyped, time.Since(t0).Seconds())
		// 3. the real checker on every program, 4. the obligations
		var findings []tvFinding
		var fmu sync.Mutex
		var gwg sync.WaitGroup
		gsem := make(chan struct{}, 6)
		broken := false
		for _, g := range groups {
			cands := byGroup[g]
			if len(cands) == 0 {
				continue
			}
			gwg.Add(1)
			gsem <- struct{}{}
			go func(g string, cands []*tvCand) {
				defer gwg.Done()
				defer func() { <-gsem }()
				var sources []string
				for _, c := range cands {
					sources = append(sources, c.Src)
				}
				results, err := runRealised(g, nil, sources, "")
				if err != nil {
					fmu.Lock()
					broken = true
					ev.Broken = append(ev.Broken, fmt.Sprintf("RuleTV %s: native run: %v", g, err))
					fmu.Unlock()
					return
				}
				byFile := map[string]realResult{}
				for _, r := range results {
					byFile[filepath.Base(r.File)] = r
				}
				for i, c := range cands {
					r, ok := byFile[fmt.Sprintf("cand%03d.go", i)]
					if !ok || r.Status != "OK" {
						if ok && r.Status == "PANIC" {
							fmu.Lock()
							findings = append(findings, tvFinding{Prop: "C01", Group: g, Class: "panic", Detail: "the rule-based checker " + g + " panicked: " + r.Detail, Src: c.Src})
							fmu.Unlock()
						}
						continue
					}
					var ws []tvWarning
					json.Unmarshal([]byte(r.JSON), &ws)
					for _, w := range ws {
						if w.Offset != c.Off {
							continue
						}
						st.mu.Lock()
						st.Diagnostics++
						st.mu.Unlock()
						st.group(g, "diagnostics", 1)
						// which rule of the group spoke? the one whose template renders this message: pair by claim
						for _, f := range tvJudge(prop, c, w, rules, st) {
							fmu.Lock()
							findings = append(findings, f)
							fmu.Unlock()
						}
					}
				}
				// C09: re-analysing the fixed file no longer reports that diagnostic at that place
				st.mu.Lock()
				fixed := st.Fixed[g]
				st.mu.Unlock()
				if prop == "C09" && len(fixed) > 0 {
					var srcs []string
					for i := range fixed {
						fixed[i].Off = strings.Index(fixed[i].Src, "func target()")
						srcs = append(srcs, fixed[i].Src)
					}
					again, err := runRealised(g, nil, srcs, "")
					if err == nil {
						byFile := map[string]realResult{}
						for _, r := range again {
							byFile[filepath.Base(r.File)] = r
						}
						for i, fx := range fixed {
							r, ok := byFile[fmt.Sprintf("cand%03d.go", i)]
							if !ok || r.Status != "OK" {
								continue
							}
							st.group(g, "fixed_files_reanalysed", 1)
							var ws []tvWarning
							json.Unmarshal([]byte(r.JSON), &ws)
							for _, w := range ws {
								if tvMessageFits(fx.Rule, w.Text) && w.Offset >= fx.Off && tvSameStart(fx, w.Offset) {
									fmu.Lock()
									findings = append(findings, tvFinding{Prop: "C09", Group: g, Class: "still-reported:" + tvRuleKey(fx.Cand), Src: fx.Src,
										Detail: fmt.Sprintf("after applying the suggestion the rule reports again at the same place: %q (rules.go:%d, pattern `%s`, matched `%s`)", w.Text, fx.Rule.Line, fx.Cand.Pattern, fx.Cand.Code)})
									fmu.Unlock()
								}
							}
						}
					}
				}
			}(g, cands)
		}
		gwg.Wait()
		// 5. report
		known := loadKnown()
		sort.Slice(findings, func(i, j int) bool { return findings[i].Group+findings[i].Class < findings[j].Group+findings[j].Class })
		seen := map[string]bool{}
		knownPrinted := map[string]bool{}
		violations := 0
		dir := filepath.Join(outDir, "replays", prop)
		os.MkdirAll(dir, 0o755)
		for _, f := range findings {
			if f.Prop != prop {
				continue
			}
			key := f.Group + "|" + f.Class
			isKnown := false
			for _, k := range known.Findings {
				if k.Property == prop && k.Site == "rule:"+f.Group && k.Witness == f.Class {
					isKnown = true
					if !knownPrinted[key] {
						knownPrinted[key] = true
						fmt.Printf("KNOWN-FINDING: property=%s rule group %s: %s\n", prop, f.Group, k.What)
					}
				}
			}
			if isKnown {
				ev.Known++
				continue
			}
			if seen[key] {
				continue
			}
			seen[key] = true
			violations++
			file := filepath.Join(dir, fmt.Sprintf("ruletv-%s-%d.json", f.Group, violations))
			data, _ := json.MarshalIndent(map[string]interface{}{"property": prop, "harness": "RuleTV", "kind": "ruletv", "class": f.Class, "msg": f.Detail,
				"model": map[string]interface{}{"group": f.Group, "analysed_program": f.Src, "replay_program": f.Replay}}, "", " ")
			os.WriteFile(file, data, 0o644)
			fmt.Printf("VIOLATION property=%s replay=%s\n  rule group %s [%s]: %s\n", prop, file, f.Group, f.Class, firstLine(f.Detail))
		}
		ev.Violations += violations
		ev.TracesValidated += st.Confirmed + st.Unconfirmed
		ev.ExtraStates += st.WellTyped
		ev.ExtraTrans += st.Obligations
		ev.ExtraCoverage["ruletv"] = map[string]interface{}{
			"rules_with_a_claim": st.Rules, "patterns": st.Patterns, "instantiations": st.Instantiated, "well_typed_programs_analysed_by_the_real_checker": st.WellTyped,
			"diagnostics_on_the_planted_code": st.Diagnostics, "obligations": st.Obligations, "not_encoded": st.NotEncoded, "not_encoded_reasons": st.NotEncodedWhy,
			"solver": map[string]int{"sat": st.Sat, "unsat": st.Unsat, "unknown": st.Unknown}, "solver_seconds": st.SolverSeconds,
			"models_replayed_natively": st.Confirmed + st.Unconfirmed, "confirmed": st.Confirmed, "unconfirmed": st.Unconfirmed, "per_group": st.PerGroup,
			"bounds": fmt.Sprintf("operand menu of %d forms (reduced for patterns with >= 2 metavariables), variadic menu of %d, strings/slices/maps of the inputs <= %d elements, printable ASCII, integers without overflow, streams of <= 8 results per event function", len(tvMenuFull), len(tvVariadicMenu), semMaxLen),
			"wall_seconds": time.Since(t0).Seconds(),
		}
		if st.Unknown > 0 {
			ev.Unconfirmed = append(ev.Unconfirmed, fmt.Sprintf("RuleTV: %d obligations with solver verdict unknown (recorded as not decided)", st.Unknown))
		}
		rc.logf("RuleTV %s: %d diagnostics, %d obligations (sat %d unsat %d unknown %d, not encoded %d), %d confirmed, %d unconfirmed; %.1fs", prop, st.Diagnostics, st.Obligations, st.Sat, st.Unsat, st.Unknown, st.NotEncoded, st.Confirmed, st.Unconfirmed, time.Since(t0).Seconds())
		if st.Diagnostics == 0 && rc.only == "" {
			fmt.Println("HARNESS-VACUOUS: RuleTV: the real rule checkers reported on none of the grid programs")
			ev.Broken = append(ev.Broken, "RuleTV vacuous")
			broken = true
		}
		return violations, broken
	}
}

// tvJudge decides the obligations of one diagnostic.
func tvJudge(prop string, c *tvCand, w tvWarning, rules []irRule, st *tvStats) []tvFinding {
	var out []tvFinding
	g := c.Rule.Group
	// the rule of the group that produced this message: all rules of the group whose pattern list contains the candidate's pattern
	var rule *irRule
	for ri := range rules {
		r := &rules[ri]
		if r.Group != g {
			continue
		}
		for _, p := range r.Patterns {
			if p == c.Pattern && tvMessageFits(r, w.Text) {
				rule = r
			}
		}
	}
	if rule == nil {
		st.group(g, "diagnostics_of_another_rule", 1)
		return nil
	}
	note := func(why string) {
		st.mu.Lock()
		st.NotEncoded++
		if i := strings.Index(why, "("); i > 0 && len(why) > 60 {
			why = why[:i]
		}
		st.NotEncodedWhy[g+": "+why]++
		st.mu.Unlock()
	}
	for _, cl := range tvClaimsOf(prop, rule) {
		st.mu.Lock()
		st.Obligations++
		st.mu.Unlock()
		st.group(g, "obligations", 1)
		sugg := ""
		if cl.Kind == "equiv" || cl.Kind == "welltyped" {
			if w.HasFix {
				sugg = w.Repl
			} else if cl.SugRE != nil {
				if mm := cl.SugRE.FindStringSubmatch(w.Text); mm != nil {
					sugg = mm[1]
				}
			}
			if sugg == "" {
				note("no suggested code in the diagnostic")
				continue
			}
		}
		end := c.Off + len(c.Code)
		if w.HasFix && (w.From-1 != c.Off || w.To-1 != end) {
			if cl.Kind == "welltyped" {
				out = append(out, tvFinding{Prop: "C09", Group: g, Class: "fix-range", Src: c.Src,
					Detail: fmt.Sprintf("the fix range [%d,%d) is not the matched code `%s` at [%d,%d)", w.From-1, w.To-1, c.Code, c.Off, end)})
			}
			continue
		}
		switch cl.Kind {
		case "welltyped":
			if f := tvWellTyped(c, sugg); f != nil {
				st.group(g, "ill_typed_suggestions", 1)
				out = append(out, *f)
			} else {
				st.group(g, "suggestions_type_checked", 1)
				st.mu.Lock()
				st.Fixed[g] = append(st.Fixed[g], tvFixedSrc{Src: tvReimport(c.Src[:c.Off]+sugg+c.Src[end:], c.Env), Cand: c, Rule: rule})
				st.mu.Unlock()
			}
		case "equiv":
			fixed := c.Src[:c.Off] + sugg + c.Src[end:]
			if c.Kind == "expr" {
				fixed = c.Src[:c.Off] + "(" + sugg + ")" + c.Src[end:]
			}
			// the suggestion may need imports the original did not have
			fixed = tvReimport(fixed, c.Env)
			sh := newSemShared()
			a, errA := tvEvalSide(sh, c.Src)
			if errA != nil {
				note(errA.Error())
				continue
			}
			b, errB := tvEvalSide(sh, fixed)
			if errB != nil {
				note("suggestion: " + errB.Error())
				continue
			}
			goal, ok := tvEquivGoal(sh, a, b)
			if !ok {
				note("results of different sorts")
				continue
			}
			f := tvDecide(c, st, sh, "(not "+goal+")", c.Code, sugg, "equiv",
				fmt.Sprintf("the suggested `%s` does not behave like the reported `%s`", sugg, c.Code))
			if f != nil {
				f.Prop = "C10"
				out = append(out, *f)
			}
		case "true", "false", "panics":
			sh := newSemShared()
			a, errA := tvEvalSide(sh, c.Src)
			if errA != nil {
				note(errA.Error())
				continue
			}
			var goal, what, probe string
			switch cl.Kind {
			case "true":
				if a.val.Sort != "Bool" {
					note("not a condition")
					continue
				}
				goal = "(and (not " + a.ctx.panicTerm() + ") (not " + a.val.T + "))"
				what = fmt.Sprintf("`%s` is reported as always true but is false in some execution", c.Code)
				probe = "true"
			case "false":
				if a.val.Sort != "Bool" {
					note("not a condition")
					continue
				}
				goal = "(and (not " + a.ctx.panicTerm() + ") " + a.val.T + ")"
				what = fmt.Sprintf("`%s` is reported as always false but is true in some execution", c.Code)
				probe = "false"
			case "panics":
				goal = "(not " + a.ctx.panicTerm() + ")"
				what = fmt.Sprintf("`%s` is reported as always panicking but evaluates normally in some execution", c.Code)
				probe = "panic(\"claimed\")"
			}
			// replay: the "suggestion" is the claimed constant outcome
			sugg := probe
			if c.Kind != "expr" {
				note("claim about a statement")
				continue
			}
			if cl.Kind == "panics" {
				sugg = "func() interface{} { panic(\"claimed\") }()"
			}
			f := tvDecide(c, st, sh, goal, c.Code, sugg, cl.Kind, what)
			if f != nil {
				f.Prop = "C12"
				out = append(out, *f)
			}
		case "sameargs":
			// the two occurrences of $x must be the same value: with an impure operand they are not
			impure := false
			for _, v := range c.Bind {
				if strings.Contains(v, "()") {
					impure = true
				}
			}
			sh := newSemShared()
			goal := "false"
			if impure {
				// two evaluations of an event function return independent stream elements
				c1 := newSemCtx(sh, nil, nil)
				v1 := c1.symbol("call_x_1", types.Typ[types.Int])
				v2 := c1.symbol("call_x_2", types.Typ[types.Int])
				goal = "(distinct " + v1.T + " " + v2.T + ")"
			}
			st.mu.Lock()
			v, _, el := tvSolve(sh, goal)
			st.SolverSeconds += el
			switch v {
			case "sat":
				st.Sat++
			case "unsat":
				st.Unsat++
			default:
				st.Unknown++
			}
			st.mu.Unlock()
			if v == "sat" {
				st.mu.Lock()
				st.Confirmed++
				st.mu.Unlock()
				out = append(out, tvFinding{Prop: "C12", Group: g, Class: "sameargs-impure", Src: c.Src,
					Detail: fmt.Sprintf("`%s` is reported as passing the same value twice, but the operand is a call whose results differ between evaluations", c.Code)})
			}
		case "api":
			if c.Env == "real" {
				st.group(g, "diagnostics_on_the_real_builtin", 1)
				continue
			}
			if strings.HasPrefix(c.Env, "pkgvar:") {
				pk := strings.SplitN(strings.TrimPrefix(c.Env, "pkgvar:"), ":", 2)[0]
				// the package's function is a function of its arguments, the user's method an arbitrary event
				sh := newSemShared()
				cx := newSemCtx(sh, nil, nil)
				real := cx.symbol("api_result", types.Typ[types.Int])
				user := cx.symbol("call_"+pk+"_1", types.Typ[types.Int])
				st.mu.Lock()
				v, _, el := tvSolve(sh, "(distinct "+real.T+" "+user.T+")")
				st.SolverSeconds += el
				if v == "sat" {
					st.Sat++
				} else if v == "unsat" {
					st.Unsat++
				} else {
					st.Unknown++
				}
				st.mu.Unlock()
				if v != "sat" {
					continue
				}
				if obj := tvQualifierAt(c, pk); obj != "" {
					st.mu.Lock()
					st.Confirmed++
					st.mu.Unlock()
					out = append(out, tvFinding{Prop: "C20", Group: g, Class: "namesake-pkg-" + pk, Src: c.Src,
						Detail: fmt.Sprintf("`%s` is reported (%q) although %s here is %s, not the package", c.Code, w.Text, pk, obj)})
				}
				continue
			}
			name := strings.TrimPrefix(strings.TrimPrefix(c.Env, "shadow:"), "shadowlocal:")
			if !regexp.MustCompile(`(^|[^\w.])` + name + `\(`).MatchString(c.Code) {
				continue
			}
			if !strings.Contains(rule.Where.Src, `.Text == "`+name+`"`) && !regexp.MustCompile(`(^|[^\w.$])`+name+`\(`).MatchString(c.Pattern) {
				continue // the rule's subject is not this builtin
			}
			// the flagged call: the user's function returns an arbitrary stream element, the builtin a function of its operand
			sh := newSemShared()
			a, errA := tvEvalSide(sh, c.Src)
			goal := "true"
			if errA == nil && a != nil && len(a.ctx.calls) > 0 {
				cx := newSemCtx(sh, nil, nil)
				real := cx.symbol("builtin_result", types.Typ[types.Int])
				user := cx.symbol("call_"+name+"_1", types.Typ[types.Int])
				goal = "(distinct " + real.T + " " + user.T + ")"
			}
			st.mu.Lock()
			v, _, el := tvSolve(sh, goal)
			st.SolverSeconds += el
			if v == "sat" {
				st.Sat++
			} else if v == "unsat" {
				st.Unsat++
			} else {
				st.Unknown++
			}
			st.mu.Unlock()
			if v != "sat" {
				continue
			}
			// native confirmation: go/types resolves the callee at the diagnostic to the user's declaration
			if obj := tvCalleeAt(c, name); obj != "" {
				st.mu.Lock()
				st.Confirmed++
				st.mu.Unlock()
				out = append(out, tvFinding{Prop: "C20", Group: g, Class: "namesake-" + name, Src: c.Src,
					Detail: fmt.Sprintf("`%s` is reported (%q) although %s here is %s, not the builtin", c.Code, w.Text, name, obj)})
			} else {
				st.mu.Lock()
				st.Unconfirmed++
				st.mu.Unlock()
			}
		}
	}
	return out
}

// tvMessageFits tells whether a message can be an instance of the rule's report template.
func tvMessageFits(r *irRule, msg string) bool {
	tmpl := r.Report
	if tmpl == "" {
		tmpl = "suggestion: " + r.Suggest
	}
	parts := tvVarRE.Split(tmpl, -1)
	var sb strings.Builder
	sb.WriteString("(?s)^")
	for i, p := range parts {
		if i > 0 {
			sb.WriteString(".*")
		}
		sb.WriteString(regexp.QuoteMeta(p))
	}
	sb.WriteString("$")
	re, err := regexp.Compile(sb.String())
	return err == nil && re.MatchString(msg)
}

// tvReimport rebuilds the import block of a candidate after a substitution.
func tvReimport(src, env string) string {
	i := strings.Index(src, "func target()")
	if i < 0 {
		return src
	}
	return tvFile("cand", env, src[i:], "")
}

func tvEquivGoal(sh *semShared, a, b *tvSide) (string, bool) {
	sh.declare("gsx_q", "Int")
	parts := []string{"(= " + a.ctx.panicTerm() + " " + b.ctx.panicTerm() + ")", callsEq(a.ctx.calls, b.ctx.calls)}
	var eqs []string
	if a.isExp != b.isExp {
		return "", false
	}
	if a.isExp {
		eq, ok := valEq(a.val, b.val, "gsx_q")
		if !ok {
			return "", false
		}
		eqs = append(eqs, eq)
	}
	keys := map[string]bool{}
	for k := range a.ctx.state {
		keys[k] = true
	}
	for k := range b.ctx.state {
		keys[k] = true
	}
	var ks []string
	for k := range keys {
		ks = append(ks, k)
	}
	sort.Strings(ks)
	for _, k := range ks {
		va, oka := a.ctx.state[k]
		vb, okb := b.ctx.state[k]
		if !oka || !okb {
			// assigned on one side only: compare with the initial value
			other := a.ctx
			if !oka {
				other = b.ctx
			}
			var init semVal
			if oka {
				init = va
			} else {
				init = vb
			}
			if strings.ContainsAny(k, ".*") || init.Sort == "" {
				return "", false
			}
			_ = other
			// a variable introduced by := on one side only (a temporary): not part of the compared state
			continue
		}
		eq, ok := valEq(va, vb, "gsx_q")
		if !ok {
			return "", false
		}
		eqs = append(eqs, eq)
	}
	if len(eqs) > 0 {
		parts = append(parts, "(=> (not "+a.ctx.panicTerm()+") (and "+strings.Join(eqs, " ")+" true))")
	}
	return "(and " + strings.Join(parts, " ") + ")", true
}

// tvDecide asks the solver for a counterexample and replays it.
func tvDecide(c *tvCand, st *tvStats, sh *semShared, goal, orig, sugg, class, what string) *tvFinding {
	v, model, el := tvSolve(sh, goal)
	st.mu.Lock()
	st.SolverSeconds += el
	switch v {
	case "sat":
		st.Sat++
	case "unsat":
		st.Unsat++
	default:
		st.Unknown++
	}
	st.mu.Unlock()
	st.group(c.Rule.Group, "solver_"+v, 1)
	if v != "sat" {
		return nil
	}
	diff, detail, prog := tvReplay(c.Env, c.Kind, orig, sugg, model)
	confirmed := diff
	if class == "true" || class == "false" || class == "panics" {
		// the replay compares the real outcome with the claimed constant outcome
		confirmed = diff
	}
	st.mu.Lock()
	if confirmed {
		st.Confirmed++
	} else {
		st.Unconfirmed++
	}
	st.mu.Unlock()
	if !confirmed {
		st.group(c.Rule.Group, "unconfirmed_models", 1)
		return nil
	}
	bindKeys := []string{}
	for k, v := range c.Bind {
		bindKeys = append(bindKeys, "$"+k+"="+v)
	}
	sort.Strings(bindKeys)
	shape := tvShape(c)
	return &tvFinding{Group: c.Rule.Group, Class: class + ":" + shape, Src: c.Src, Replay: prog, Line: c.Rule.Line,
		Detail: fmt.Sprintf("%s (rules.go:%d, pattern `%s`, %s, environment %s)\n%s", what, c.Rule.Line, c.Pattern, strings.Join(bindKeys, " "), c.Env, detail)}
}

// tvShape names the class of a witness: the pattern and the kinds of its operands, so
// that one defect is reported once and a different one is still reported.
func tvShape(c *tvCand) string {
	var ks []string
	for k := range c.Bind {
		ks = append(ks, k)
	}
	sort.Strings(ks)
	var parts []string
	for _, k := range ks {
		v := c.Bind[k]
		kind := "pure"
		if strings.Contains(v, "()") {
			kind = "call"
		}
		_ = v
		parts = append(parts, kind)
	}
	env := c.Env
	return fmt.Sprintf("rule@%s/%s", tvRuleKey(c), env)
}

func tvRuleKey(c *tvCand) string {
	// position of the rule inside its group, stable under line shifts
	return fmt.Sprintf("%s", strings.Join(strings.Fields(c.Pattern), " "))
}

// tvWellTyped substitutes the suggested code and applies C09's oracle: it parses as the
// category it replaces, the file still type-checks and an expression keeps its type.
func tvWellTyped(c *tvCand, sugg string) *tvFinding {
	end := c.Off + len(c.Code)
	mk := func(class, detail string) *tvFinding {
		return &tvFinding{Prop: "C09", Group: c.Rule.Group, Class: class + ":" + tvRuleKey(c), Src: c.Src, Line: c.Rule.Line,
			Detail: fmt.Sprintf("%s (rules.go:%d, pattern `%s`, matched `%s`, suggested `%s`)", detail, c.Rule.Line, c.Pattern, c.Code, sugg)}
	}
	if c.Kind == "expr" {
		if _, err := parser.ParseExpr(sugg); err != nil {
			return mk("unparsable", "the suggested code does not parse as an expression: "+err.Error())
		}
	} else {
		if _, err := parser.ParseFile(token.NewFileSet(), "", "package p\nfunc _() {\n"+sugg+"\n}\n", 0); err != nil {
			return mk("unparsable", "the suggested code does not parse as a statement list: "+err.Error())
		}
	}
	if n := strings.Count(c.Code, tvMarkerStmt); n > 0 && strings.Count(sugg, tvMarkerStmt) < n {
		return mk("deletes-statement", "applying the fix deletes an unrelated statement (`"+tvMarkerStmt+"`) that merely sits between the statements the diagnostic is about")
	}
	fixed := tvReimport(c.Src[:c.Off]+sugg+c.Src[end:], c.Env)
	_, f0, info0, _, err0 := tvLoad(c.Src)
	_, f1, info1, _, err1 := tvLoad(fixed)
	if err0 != nil {
		return nil
	}
	if err1 != nil {
		return mk("ill-typed", "with the suggestion applied the file no longer type-checks: "+err1.Error())
	}
	if c.Kind == "expr" {
		_, e0 := tvTarget(f0)
		_, e1 := tvTarget(f1)
		if e0 != nil && e1 != nil {
			t0, t1 := info0.Types[e0].Type, info1.Types[e1].Type
			if t0 != nil && t1 != nil {
				// the two files are checked separately: compare the printed types (package-relative)
				q := func(*types.Package) string { return "" }
				d0, d1 := types.TypeString(types.Default(t0), q), types.TypeString(types.Default(t1), q)
				if d0 != d1 {
					return mk("type-changed", fmt.Sprintf("the suggestion changes the type of the expression from %s to %s", t0, t1))
				}
			}
		}
	}
	return nil
}

// tvCalleeAt resolves name's callee identifier inside the planted code; returns a
// description if it is not the builtin.
func tvCalleeAt(c *tvCand, name string) string {
	_, f, info, _, err := tvLoad(c.Src)
	if err != nil {
		return ""
	}
	fd, _ := tvTarget(f)
	res := ""
	ast.Inspect(fd, func(n ast.Node) bool {
		if call, ok := n.(*ast.CallExpr); ok {
			if id, ok := call.Fun.(*ast.Ident); ok && id.Name == name {
				if _, isB := info.Uses[id].(*types.Builtin); !isB && info.Uses[id] != nil {
					res = fmt.Sprintf("the user's %v", info.Uses[id])
				}
			}
		}
		return true
	})
	return res
}

// tvQualifierAt resolves the identifier pk used as a qualifier inside the planted code;
// returns a description if it is not a package name.
func tvQualifierAt(c *tvCand, pk string) string {
	_, f, info, _, err := tvLoad(c.Src)
	if err != nil {
		return ""
	}
	fd, _ := tvTarget(f)
	res := ""
	ast.Inspect(fd, func(n ast.Node) bool {
		if sel, ok := n.(*ast.SelectorExpr); ok {
			if id, ok := sel.X.(*ast.Ident); ok && id.Name == pk {
				if _, isP := info.Uses[id].(*types.PkgName); !isP && info.Uses[id] != nil {
					res = fmt.Sprintf("the user's %v", info.Uses[id])
				}
			}
		}
		return true
	})
	return res
}

// replayRuleTV replays a RuleTV counterexample: the recorded program (original and
// suggestion on the model's values) is run natively; a finding without a program
// (C09 / C20 oracles) is decided again by re-running the rule group's grid on the current tree.
func replayRuleTV(rc *runCtx, path string, data []byte) int {
	var vf violationFile
	json.Unmarshal(data, &vf)
	group, _ := vf.Model["group"].(string)
	prog, _ := vf.Model["replay_program"].(string)
	if prog != "" {
		dir, err := os.MkdirTemp("", "gsx-ruletv-")
		if err != nil {
			return 2
		}
		defer os.RemoveAll(dir)
		os.WriteFile(filepath.Join(dir, "main.go"), []byte(prog), 0o644)
		cmd := exec.Command("go", "run", "main.go")
		cmd.Dir = dir
		cmd.Env = append(os.Environ(), "GOFLAGS=-mod=mod", "GOPROXY=off", "GOSUMDB=off", "GOTOOLCHAIN=local", "GO111MODULE=off")
		out, _ := cmd.CombinedOutput()
		fmt.Printf("replay %s: %s\n", path, lastLines(string(out), 3))
		if !strings.Contains(string(out), "GSX-DIFF") {
			return 0
		}
		// the program still differs; is it still what the current tree reports?
	}
	rc.only = "rule:" + group
	spec := properties[vf.Property]
	ev := newEvidence(rc, spec)
	n, broken := spec.Extra(rc, ev)
	fmt.Printf("replay %s: rule group %s was decided again on the current tree: %d violation(s)\n", path, group, n)
	switch {
	case n > 0:
		return 1
	case broken:
		return 2
	}
	return 0
}

// tvSameStart tells whether off is where the substituted code starts in the fixed file:
// the text before it equals the text before the matched code in the original file, up to
// the import block (which may have changed).
func tvSameStart(fx tvFixedSrc, off int) bool {
	c := fx.Cand
	i := strings.Index(c.Src, "func target()")
	j := strings.Index(fx.Src, "func target()")
	if i < 0 || j < 0 {
		return false
	}
	return off-j == c.Off-i
}
