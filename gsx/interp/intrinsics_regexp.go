package interp

import (
	"fmt"
	"regexp"
	"regexp/syntax"
	"strings"
)

// regexp: patterns are compiled natively (Go's own regexp is the run-time
// semantics); a *regexp.Regexp is an opaque native handle. Matching a
// symbolic subject is encoded in the solver's regular-expression theory.

type nativeRegexp struct{ re *regexp.Regexp }

func reOf(fr *frame, v value) *regexp.Regexp {
	p := v.(*value)
	if p == nil {
		fr.i.nilDeref()
	}
	return (*p).(nativeRegexp).re
}

func init() {
	compile := func(must bool) externalFn {
		return func(fr *frame, args []value) value {
			pat, ok := args[0].(string)
			if !ok {
				panic(engineError{"regexp.Compile of a symbolic pattern"})
			}
			re, err := regexp.Compile(pat)
			if err != nil {
				if must {
					panic(targetPanic{v: "regexp: Compile(" + pat + "): " + err.Error(), stack: fr.i.stack()})
				}
				return tuple{(*value)(nil), fr.i.mkError(err.Error())}
			}
			cell := value(nativeRegexp{re})
			if must {
				return &cell
			}
			return tuple{&cell, nilError()}
		}
	}
	reg("regexp.MustCompile", compile(true))
	reg("regexp.Compile", compile(false))
	reg("regexp.QuoteMeta", func(fr *frame, args []value) value { return regexp.QuoteMeta(args[0].(string)) })
	reg("(*regexp.Regexp).String", func(fr *frame, args []value) value { return reOf(fr, args[0]).String() })
	reg("(*regexp.Regexp).NumSubexp", func(fr *frame, args []value) value { return reOf(fr, args[0]).NumSubexp() })
	reg("(*regexp.Regexp).MatchString", func(fr *frame, args []value) value {
		re := reOf(fr, args[0])
		if s, ok := args[1].(string); ok {
			return re.MatchString(s)
		}
		t, err := matchTerm(re.String(), mustTerm(args[1]), fr.path())
		if err != nil {
			panic(engineError{"regexp not encodable: " + err.Error()})
		}
		return boolVal(t)
	})
	reg("(*regexp.Regexp).FindStringSubmatch", func(fr *frame, args []value) value {
		re := reOf(fr, args[0])
		s, ok := args[1].(string)
		if !ok {
			panic(engineError{"FindStringSubmatch on a symbolic subject"})
		}
		m := re.FindStringSubmatch(s)
		if m == nil {
			return []value(nil)
		}
		return strSliceVal(m)
	})
	reg("(*regexp.Regexp).FindString", func(fr *frame, args []value) value {
		re := reOf(fr, args[0])
		s, ok := args[1].(string)
		if !ok {
			panic(engineError{"FindString on a symbolic subject"})
		}
		return re.FindString(s)
	})
	reg("(*regexp.Regexp).FindStringIndex", func(fr *frame, args []value) value {
		re := reOf(fr, args[0])
		s, ok := args[1].(string)
		if !ok {
			panic(engineError{"FindStringIndex on a symbolic subject"})
		}
		m := re.FindStringIndex(s)
		if m == nil {
			return []value(nil)
		}
		return []value{m[0], m[1]}
	})
	reg("(*regexp.Regexp).ReplaceAllString", func(fr *frame, args []value) value {
		re := reOf(fr, args[0])
		if !allConcrete(args[1:]) {
			panic(engineError{"ReplaceAllString on symbolic"})
		}
		return re.ReplaceAllString(args[1].(string), args[2].(string))
	})
	reg("(*regexp.Regexp).FindAllString", func(fr *frame, args []value) value {
		re := reOf(fr, args[0])
		if !allConcrete(args[1:]) {
			panic(engineError{"FindAllString on symbolic"})
		}
		return strSliceVal(re.FindAllString(args[1].(string), int(asInt64(args[2]))))
	})
}

// regexToSMTSearch translates a Go regexp into an SMT-LIB RegLan for
// *unanchored search* semantics (MatchString): Σ* R Σ*, with ^ and $
// supported only at the very beginning / end of the pattern.
func regexToSMTSearch(pat string) (string, error) {
	re, err := syntax.Parse(pat, syntax.Perl)
	if err != nil {
		return "", err
	}
	re = re.Simplify()
	if innerAnchors(re, true) {
		return "", errInnerAnchors
	}
	begin, end := false, false
	if re.Op == syntax.OpConcat {
		subs := re.Sub
		if len(subs) > 0 && subs[0].Op == syntax.OpBeginText {
			begin = true
			subs = subs[1:]
		}
		if len(subs) > 0 && subs[len(subs)-1].Op == syntax.OpEndText {
			end = true
			subs = subs[:len(subs)-1]
		}
		re = &syntax.Regexp{Op: syntax.OpConcat, Sub: subs, Flags: re.Flags}
	} else if re.Op == syntax.OpBeginText {
		return "re.all", nil
	}
	body, err := RegexToSMT(re)
	if err != nil {
		return "", err
	}
	parts := []string{}
	if !begin {
		parts = append(parts, "re.all")
	}
	parts = append(parts, body)
	if !end {
		parts = append(parts, "re.all")
	}
	if len(parts) == 1 {
		return parts[0], nil
	}
	return "(re.++ " + strings.Join(parts, " ") + ")", nil
}

func smtChar(r rune) string {
	if r > 255 {
		r = 255
	}
	return smtString(string([]byte{byte(r)}))
}

// RegexToSMT translates a parsed regexp (no anchors, no word boundaries) to RegLan text.
func RegexToSMT(re *syntax.Regexp) (string, error) {
	switch re.Op {
	case syntax.OpEmptyMatch:
		return `(str.to_re "")`, nil
	case syntax.OpNoMatch:
		return "re.none", nil
	case syntax.OpLiteral:
		if re.Flags&syntax.FoldCase != 0 {
			var parts []string
			for _, r := range re.Rune {
				lo, up := strings.ToLower(string(r)), strings.ToUpper(string(r))
				if lo != up && r < 128 {
					parts = append(parts, "(re.union (str.to_re "+smtString(lo)+") (str.to_re "+smtString(up)+"))")
				} else {
					parts = append(parts, "(str.to_re "+smtChar(r)+")")
				}
			}
			if len(parts) == 1 {
				return parts[0], nil
			}
			return "(re.++ " + strings.Join(parts, " ") + ")", nil
		}
		var b []byte
		for _, r := range re.Rune {
			if r > 255 {
				return "", fmt.Errorf("non-byte literal")
			}
			b = append(b, byte(r))
		}
		return "(str.to_re " + smtString(string(b)) + ")", nil
	case syntax.OpCharClass:
		var parts []string
		for i := 0; i+1 < len(re.Rune); i += 2 {
			lo, hi := re.Rune[i], re.Rune[i+1]
			if lo > 255 {
				continue
			}
			if hi > 255 {
				hi = 255
			}
			if lo == hi {
				parts = append(parts, "(str.to_re "+smtChar(lo)+")")
			} else {
				parts = append(parts, "(re.range "+smtChar(lo)+" "+smtChar(hi)+")")
			}
		}
		switch len(parts) {
		case 0:
			return "re.none", nil
		case 1:
			return parts[0], nil
		}
		return "(re.union " + strings.Join(parts, " ") + ")", nil
	case syntax.OpAnyCharNotNL:
		return `(re.diff re.allchar (str.to_re "\u{a}"))`, nil
	case syntax.OpAnyChar:
		return "re.allchar", nil
	case syntax.OpCapture:
		return RegexToSMT(re.Sub[0])
	case syntax.OpStar, syntax.OpPlus, syntax.OpQuest:
		s, err := RegexToSMT(re.Sub[0])
		if err != nil {
			return "", err
		}
		op := map[syntax.Op]string{syntax.OpStar: "re.*", syntax.OpPlus: "re.+", syntax.OpQuest: "re.opt"}[re.Op]
		return "(" + op + " " + s + ")", nil
	case syntax.OpRepeat:
		s, err := RegexToSMT(re.Sub[0])
		if err != nil {
			return "", err
		}
		if re.Max < 0 {
			if re.Min == 0 {
				return "(re.* " + s + ")", nil
			}
			return fmt.Sprintf("(re.++ ((_ re.^ %d) %s) (re.* %s))", re.Min, s, s), nil
		}
		return fmt.Sprintf("((_ re.loop %d %d) %s)", re.Min, re.Max, s), nil
	case syntax.OpConcat, syntax.OpAlternate:
		if len(re.Sub) == 0 {
			return `(str.to_re "")`, nil
		}
		var parts []string
		for _, sub := range re.Sub {
			s, err := RegexToSMT(sub)
			if err != nil {
				return "", err
			}
			parts = append(parts, s)
		}
		if len(parts) == 1 {
			return parts[0], nil
		}
		op := "re.++"
		if re.Op == syntax.OpAlternate {
			op = "re.union"
		}
		return "(" + op + " " + strings.Join(parts, " ") + ")", nil
	}
	return "", fmt.Errorf("unsupported regexp op %v", re.Op)
}

var errInnerAnchors = fmt.Errorf("anchors inside the pattern")

// innerAnchors reports whether re has ^/$ anywhere but at the two ends of a
// top-level concatenation.
func innerAnchors(re *syntax.Regexp, top bool) bool {
	switch re.Op {
	case syntax.OpBeginText, syntax.OpEndText, syntax.OpBeginLine, syntax.OpEndLine:
		return !top
	}
	for i, sub := range re.Sub {
		edge := top && re.Op == syntax.OpConcat && ((i == 0 && sub.Op == syntax.OpBeginText) || (i == len(re.Sub)-1 && sub.Op == syntax.OpEndText))
		if edge {
			continue
		}
		if innerAnchors(sub, false) {
			return true
		}
	}
	return false
}

// MatchTerm builds the constraint "the Go regexp pat matches s" (search
// semantics). Patterns with anchors in inner positions are handled by
// delimiting the subject with two marker characters outside the byte range
// (symbolic strings are constrained to bytes 0..255) and turning ^ and $
// into those markers.
func MatchTerm(pat string, s *Term) (*Term, error) {
	return matchTerm(pat, s, nil)
}

func matchTerm(pat string, s *Term, p *Path) (*Term, error) {
	rl, err := regexToSMTSearch(pat)
	if err == nil {
		return InRe(s, rl), nil
	}
	if err != errInnerAnchors {
		return nil, err
	}
	re, err := syntax.Parse(pat, syntax.Perl)
	if err != nil {
		return nil, err
	}
	body, err := regexToSMTMarked(re.Simplify())
	if err != nil {
		return nil, err
	}
	// the subject is a Go (byte) string: it contains neither marker
	if p != nil && !s.lit {
		p.Assume(Not(Contains(s, Raw(SStr, `"\u{100}"`))))
		p.Assume(Not(Contains(s, Raw(SStr, `"\u{101}"`))))
	}
	subj := Concat(Concat(Raw(SStr, `"\u{100}"`), s), Raw(SStr, `"\u{101}"`))
	return InRe(subj, "(re.++ re.all "+body+" re.all)"), nil
}

func regexToSMTMarked(re *syntax.Regexp) (string, error) {
	switch re.Op {
	case syntax.OpBeginText:
		return `(str.to_re "\u{100}")`, nil
	case syntax.OpEndText:
		return `(str.to_re "\u{101}")`, nil
	case syntax.OpAnyChar:
		return `(re.range "\u{0}" "\u{ff}")`, nil
	case syntax.OpAnyCharNotNL:
		return `(re.diff (re.range "\u{0}" "\u{ff}") (str.to_re "\u{a}"))`, nil
	case syntax.OpCapture:
		return regexToSMTMarked(re.Sub[0])
	case syntax.OpStar, syntax.OpPlus, syntax.OpQuest:
		s, err := regexToSMTMarked(re.Sub[0])
		if err != nil {
			return "", err
		}
		op := map[syntax.Op]string{syntax.OpStar: "re.*", syntax.OpPlus: "re.+", syntax.OpQuest: "re.opt"}[re.Op]
		return "(" + op + " " + s + ")", nil
	case syntax.OpConcat, syntax.OpAlternate:
		if len(re.Sub) == 0 {
			return `(str.to_re "")`, nil
		}
		var parts []string
		for _, sub := range re.Sub {
			s, err := regexToSMTMarked(sub)
			if err != nil {
				return "", err
			}
			parts = append(parts, s)
		}
		if len(parts) == 1 {
			return parts[0], nil
		}
		op := "re.++"
		if re.Op == syntax.OpAlternate {
			op = "re.union"
		}
		return "(" + op + " " + strings.Join(parts, " ") + ")", nil
	case syntax.OpRepeat:
		s, err := regexToSMTMarked(re.Sub[0])
		if err != nil {
			return "", err
		}
		if re.Max < 0 {
			if re.Min == 0 {
				return "(re.* " + s + ")", nil
			}
			return fmt.Sprintf("(re.++ ((_ re.^ %d) %s) (re.* %s))", re.Min, s, s), nil
		}
		return fmt.Sprintf("((_ re.loop %d %d) %s)", re.Min, re.Max, s), nil
	}
	return RegexToSMT(re) // literals and classes (clipped to bytes): no markers inside
}
