package interp

import (
	"go/types"
)

// errors.Is / errors.As over interpreter values (the real ones use reflectlite).
func init() {
	unwrap := func(fr *frame, e iface) []iface {
		if e.t == nil {
			return nil
		}
		fn := fr.i.lookupMethodSafe(e.t, "Unwrap")
		if fn == nil {
			return nil
		}
		res := fn.Signature.Results()
		if fn.Signature.Params().Len() != 0 || res.Len() != 1 {
			return nil
		}
		r := call(fr.i, fr, 0, fn, []value{e.v})
		switch r := r.(type) {
		case iface:
			if r.t == nil {
				return nil
			}
			return []iface{r}
		case []value:
			var out []iface
			for _, x := range r {
				if it, ok := x.(iface); ok && it.t != nil {
					out = append(out, it)
				}
			}
			return out
		}
		return nil
	}
	var as func(fr *frame, e iface, target *value, elem types.Type) bool
	as = func(fr *frame, e iface, target *value, elem types.Type) bool {
		if e.t == nil {
			return false
		}
		if it, ok := elem.Underlying().(*types.Interface); ok {
			if types.Implements(e.t, it) {
				fr.i.setCell(target, e)
				return true
			}
		} else if types.Identical(e.t, elem) {
			fr.i.setCell(target, e.v)
			return true
		}
		if fn := fr.i.lookupMethodSafe(e.t, "As"); fn != nil && fn.Signature.Params().Len() == 1 {
			tv := iface{t: types.NewPointer(elem), v: target}
			if fr.i.truth(call(fr.i, fr, 0, fn, []value{e.v, tv})) {
				return true
			}
		}
		for _, u := range unwrap(fr, e) {
			if as(fr, u, target, elem) {
				return true
			}
		}
		return false
	}
	reg("errors.As", func(fr *frame, args []value) value {
		e := fr.i.asIface(args[0])
		t := fr.i.asIface(args[1])
		if t.t == nil {
			panic(targetPanic{v: "errors: target cannot be nil", stack: fr.i.stack()})
		}
		pt, ok := t.t.Underlying().(*types.Pointer)
		if !ok {
			panic(targetPanic{v: "errors: target must be a non-nil pointer", stack: fr.i.stack()})
		}
		target := t.v.(*value)
		if target == nil {
			panic(targetPanic{v: "errors: target must be a non-nil pointer", stack: fr.i.stack()})
		}
		return as(fr, e, target, pt.Elem())
	})
	var is func(fr *frame, e, target iface) bool
	is = func(fr *frame, e, target iface) bool {
		if e.t == nil {
			return target.t == nil
		}
		if target.t != nil && types.Identical(e.t, target.t) && types.Comparable(e.t) {
			if fr.i.truth(boolVal(equalsT(e.t, e.v, target.v))) {
				return true
			}
		}
		if fn := fr.i.lookupMethodSafe(e.t, "Is"); fn != nil && fn.Signature.Params().Len() == 1 {
			if fr.i.truth(call(fr.i, fr, 0, fn, []value{e.v, target})) {
				return true
			}
		}
		for _, u := range unwrap(fr, e) {
			if is(fr, u, target) {
				return true
			}
		}
		return false
	}
	reg("errors.Is", func(fr *frame, args []value) value {
		return is(fr, fr.i.asIface(args[0]), fr.i.asIface(args[1]))
	})
	reg("errors.Unwrap", func(fr *frame, args []value) value {
		us := unwrap(fr, fr.i.asIface(args[0]))
		if len(us) == 1 {
			return us[0]
		}
		return iface{}
	})
}
