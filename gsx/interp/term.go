package interp

// SMT terms used by the symbolic executor. A Term is an SMT-LIB2 s-expression
// with a sort; literals keep their Go value so that operations on literals
// fold and never reach the solver.

import (
	"fmt"
	"math/big"
	"strconv"
	"strings"
)

type Sort int

const (
	SBool Sort = iota
	SInt
	SStr
)

func (s Sort) String() string {
	switch s {
	case SBool:
		return "Bool"
	case SInt:
		return "Int"
	case SStr:
		return "String"
	}
	return "?"
}

type Term struct {
	S    Sort
	s    string   // SMT-LIB text
	lit  bool     // literal?
	b    bool     // literal Bool
	i    *big.Int // literal Int
	str  string   // literal String (bytes 0..255 as code points)
	vars []string // free variable names (deduplicated lazily)
	neg  *Term    // cached negation partner for (not x)
	op   string   // operator and operands of an application (for local simplifications)
	args []*Term
}

func (t *Term) String() string { return t.s }

var (
	TTrue  = &Term{S: SBool, s: "true", lit: true, b: true}
	TFalse = &Term{S: SBool, s: "false", lit: true, b: false}
)

func BoolLit(b bool) *Term {
	if b {
		return TTrue
	}
	return TFalse
}

func IntLit(v int64) *Term { return BigLit(big.NewInt(v)) }

func UintLit(v uint64) *Term { return BigLit(new(big.Int).SetUint64(v)) }

func BigLit(v *big.Int) *Term {
	var s string
	if v.Sign() < 0 {
		s = "(- " + new(big.Int).Neg(v).String() + ")"
	} else {
		s = v.String()
	}
	return &Term{S: SInt, s: s, lit: true, i: v}
}

// smtString renders a Go string (bytes) as an SMT-LIB string literal.
func smtString(s string) string {
	var b strings.Builder
	b.WriteByte('"')
	for i := 0; i < len(s); i++ {
		c := s[i]
		switch {
		case c == '"':
			b.WriteString(`""`)
		case c == '\\':
			b.WriteString(`\u{5c}`)
		case c >= 0x20 && c < 0x7f:
			b.WriteByte(c)
		default:
			fmt.Fprintf(&b, `\u{%x}`, c)
		}
	}
	b.WriteByte('"')
	return b.String()
}

func StrLit(s string) *Term {
	return &Term{S: SStr, s: smtString(s), lit: true, str: s}
}

func mergeVars(args ...*Term) []string {
	var out []string
	seen := map[string]bool{}
	for _, a := range args {
		for _, v := range a.vars {
			if !seen[v] {
				seen[v] = true
				out = append(out, v)
			}
		}
	}
	return out
}

// quoteName makes an SMT symbol from an arbitrary access-path name.
func quoteName(n string) string {
	n = strings.ReplaceAll(n, "|", "!")
	n = strings.ReplaceAll(n, "\\", "!")
	return "|" + n + "|"
}

func Var(name string, s Sort) *Term {
	return &Term{S: s, s: quoteName(name), vars: []string{name}}
}

func app(s Sort, op string, args ...*Term) *Term {
	var b strings.Builder
	b.WriteByte('(')
	b.WriteString(op)
	for _, a := range args {
		b.WriteByte(' ')
		b.WriteString(a.s)
	}
	b.WriteByte(')')
	return &Term{S: s, s: b.String(), vars: mergeVars(args...), op: op, args: args}
}

// ---- Bool

func Not(a *Term) *Term {
	if a.lit {
		return BoolLit(!a.b)
	}
	if a.neg != nil {
		return a.neg
	}
	n := app(SBool, "not", a)
	n.neg = a
	a.neg = n
	return n
}

func And(as ...*Term) *Term {
	var keep []*Term
	for _, a := range as {
		if a.lit {
			if !a.b {
				return TFalse
			}
			continue
		}
		keep = append(keep, a)
	}
	switch len(keep) {
	case 0:
		return TTrue
	case 1:
		return keep[0]
	}
	return app(SBool, "and", keep...)
}

func Or(as ...*Term) *Term {
	var keep []*Term
	for _, a := range as {
		if a.lit {
			if a.b {
				return TTrue
			}
			continue
		}
		keep = append(keep, a)
	}
	switch len(keep) {
	case 0:
		return TFalse
	case 1:
		return keep[0]
	}
	return app(SBool, "or", keep...)
}

func Implies(a, b *Term) *Term { return Or(Not(a), b) }

func Ite(c, a, b *Term) *Term {
	if c.lit {
		if c.b {
			return a
		}
		return b
	}
	if a.s == b.s {
		return a
	}
	if a.S == SBool {
		if a.lit && b.lit {
			if a.b {
				return c
			}
			return Not(c)
		}
	}
	return app(a.S, "ite", c, a, b)
}

func Eq(a, b *Term) *Term {
	if a.S != b.S {
		panic(fmt.Sprintf("Eq: sort mismatch %s %s", a, b))
	}
	if a.lit && b.lit {
		switch a.S {
		case SBool:
			return BoolLit(a.b == b.b)
		case SInt:
			return BoolLit(a.i.Cmp(b.i) == 0)
		case SStr:
			return BoolLit(a.str == b.str)
		}
	}
	if a.s == b.s {
		return TTrue
	}
	if a.S == SBool {
		if a.lit {
			if a.b {
				return b
			}
			return Not(b)
		}
		if b.lit {
			if b.b {
				return a
			}
			return Not(a)
		}
	}
	return app(SBool, "=", a, b)
}

// ---- Int

func intFold(op string, a, b *big.Int) (*big.Int, bool) {
	r := new(big.Int)
	switch op {
	case "+":
		return r.Add(a, b), true
	case "-":
		return r.Sub(a, b), true
	case "*":
		return r.Mul(a, b), true
	}
	return nil, false
}

func Add(a, b *Term) *Term {
	if a.lit && b.lit {
		r, _ := intFold("+", a.i, b.i)
		return BigLit(r)
	}
	if a.lit && a.i.Sign() == 0 {
		return b
	}
	if b.lit && b.i.Sign() == 0 {
		return a
	}
	return app(SInt, "+", a, b)
}

func Sub(a, b *Term) *Term {
	if a.lit && b.lit {
		r, _ := intFold("-", a.i, b.i)
		return BigLit(r)
	}
	if b.lit && b.i.Sign() == 0 {
		return a
	}
	if a.s == b.s {
		return IntLit(0)
	}
	return app(SInt, "-", a, b)
}

func Mul(a, b *Term) *Term {
	if a.lit && b.lit {
		r, _ := intFold("*", a.i, b.i)
		return BigLit(r)
	}
	return app(SInt, "*", a, b)
}

func Neg(a *Term) *Term {
	if a.lit {
		return BigLit(new(big.Int).Neg(a.i))
	}
	return app(SInt, "-", a)
}

// GoQuo / GoRem: Go's truncated division in terms of SMT's floor div/mod.
func GoQuo(a, b *Term) *Term {
	if a.lit && b.lit && b.i.Sign() != 0 {
		return BigLit(new(big.Int).Quo(a.i, b.i))
	}
	// SMT div rounds so that remainder is non-negative. Go truncates toward zero.
	d := app(SInt, "div", a, b)
	m := app(SInt, "mod", a, b)
	// if a >= 0 or mod == 0: div ; else if b > 0: div+1 else div-1
	adj := Ite(Gt(b, IntLit(0)), Add(d, IntLit(1)), Sub(d, IntLit(1)))
	return Ite(Or(Ge(a, IntLit(0)), Eq(m, IntLit(0))), d, adj)
}

func GoRem(a, b *Term) *Term {
	if a.lit && b.lit && b.i.Sign() != 0 {
		return BigLit(new(big.Int).Rem(a.i, b.i))
	}
	return Sub(a, Mul(b, GoQuo(a, b)))
}

func Mod(a, b *Term) *Term {
	if a.lit && b.lit && b.i.Sign() > 0 {
		return BigLit(new(big.Int).Mod(a.i, b.i))
	}
	return app(SInt, "mod", a, b)
}

func cmp(op string, a, b *Term, f func(int) bool) *Term {
	if a.lit && b.lit {
		return BoolLit(f(a.i.Cmp(b.i)))
	}
	return app(SBool, op, a, b)
}

func Lt(a, b *Term) *Term { return cmp("<", a, b, func(c int) bool { return c < 0 }) }
func Le(a, b *Term) *Term { return cmp("<=", a, b, func(c int) bool { return c <= 0 }) }
func Gt(a, b *Term) *Term { return cmp(">", a, b, func(c int) bool { return c > 0 }) }
func Ge(a, b *Term) *Term { return cmp(">=", a, b, func(c int) bool { return c >= 0 }) }

// ---- String

func StrLen(a *Term) *Term {
	if a.lit {
		return IntLit(int64(len(a.str)))
	}
	return app(SInt, "str.len", a)
}

func Concat(a, b *Term) *Term {
	if a.lit && b.lit {
		return StrLit(a.str + b.str)
	}
	if a.lit && a.str == "" {
		return b
	}
	if b.lit && b.str == "" {
		return a
	}
	// substr(s,o,k) ++ substr(s,o+k,m) = substr(s,o,k+m) for literal o,k,m >= 0
	// (also at the right end of a longer concatenation)
	if b.op == "str.substr" && b.args[1].lit && b.args[2].lit {
		last, rest := a, (*Term)(nil)
		if a.op == "str.++" && len(a.args) == 2 {
			rest, last = a.args[0], a.args[1]
		}
		if last.op == "str.substr" && last.args[0].s == b.args[0].s && last.args[1].lit && last.args[2].lit {
			o, k, o2, m := last.args[1].i, last.args[2].i, b.args[1].i, b.args[2].i
			if o.Sign() >= 0 && k.Sign() >= 0 && m.Sign() >= 0 && new(big.Int).Add(o, k).Cmp(o2) == 0 {
				joined := Substr(last.args[0], last.args[1], IntLit(new(big.Int).Add(k, m).Int64()))
				if rest == nil {
					return joined
				}
				return Concat(rest, joined)
			}
		}
	}
	return app(SStr, "str.++", a, b)
}

func PrefixOf(p, s *Term) *Term {
	if p.lit && s.lit {
		return BoolLit(strings.HasPrefix(s.str, p.str))
	}
	if p.lit && p.str == "" {
		return TTrue
	}
	return app(SBool, "str.prefixof", p, s)
}

func SuffixOf(p, s *Term) *Term {
	if p.lit && s.lit {
		return BoolLit(strings.HasSuffix(s.str, p.str))
	}
	if p.lit && p.str == "" {
		return TTrue
	}
	return app(SBool, "str.suffixof", p, s)
}

func Contains(s, sub *Term) *Term {
	if sub.lit && s.lit {
		return BoolLit(strings.Contains(s.str, sub.str))
	}
	if sub.lit && sub.str == "" {
		return TTrue
	}
	return app(SBool, "str.contains", s, sub)
}

func IndexOf(s, sub, from *Term) *Term {
	if s.lit && sub.lit && from.lit && from.i.IsInt64() {
		f := int(from.i.Int64())
		if f < 0 || f > len(s.str) {
			return IntLit(-1)
		}
		r := strings.Index(s.str[f:], sub.str)
		if r >= 0 {
			r += f
		}
		return IntLit(int64(r))
	}
	return app(SInt, "str.indexof", s, sub, from)
}

func Substr(s, off, n *Term) *Term {
	if s.lit && off.lit && n.lit && off.i.IsInt64() && n.i.IsInt64() {
		o, l := int(off.i.Int64()), int(n.i.Int64())
		if o < 0 || o > len(s.str) || l <= 0 {
			return StrLit("")
		}
		if o+l > len(s.str) {
			l = len(s.str) - o
		}
		return StrLit(s.str[o : o+l])
	}
	return app(SStr, "str.substr", s, off, n)
}

func StrAt(s, i *Term) *Term {
	return Substr(s, i, IntLit(1))
}

// StrCode: code point of a one-character string (or -1).
func StrCode(s *Term) *Term {
	if s.lit {
		if len(s.str) == 1 {
			return IntLit(int64(s.str[0]))
		}
		return IntLit(-1)
	}
	return app(SInt, "str.to_code", s)
}

func StrFromCode(c *Term) *Term {
	if c.lit && c.i.IsInt64() && c.i.Int64() >= 0 && c.i.Int64() < 256 {
		return StrLit(string([]byte{byte(c.i.Int64())}))
	}
	// from_code(to_code(x)) = x for |x| <= 1, which a one-character substring is
	if c.op == "str.to_code" && c.args[0].op == "str.substr" && c.args[0].args[2].lit && c.args[0].args[2].i.IsInt64() && c.args[0].args[2].i.Int64() == 1 {
		return c.args[0]
	}
	return app(SStr, "str.from_code", c)
}

func StrReplace(s, old, new *Term) *Term {
	if s.lit && old.lit && new.lit {
		return StrLit(strings.Replace(s.str, old.str, new.str, 1))
	}
	return app(SStr, "str.replace", s, old, new)
}

func StrReplaceAll(s, old, new *Term) *Term {
	if s.lit && old.lit && new.lit && old.str != "" {
		return StrLit(strings.ReplaceAll(s.str, old.str, new.str))
	}
	return app(SStr, "str.replace_all", s, old, new)
}

func StrLt(a, b *Term) *Term {
	if a.lit && b.lit {
		return BoolLit(a.str < b.str)
	}
	return app(SBool, "str.<", a, b)
}

func StrLe(a, b *Term) *Term {
	if a.lit && b.lit {
		return BoolLit(a.str <= b.str)
	}
	return app(SBool, "str.<=", a, b)
}

func StrToInt(a *Term) *Term {
	if a.lit {
		if a.str == "" {
			return IntLit(-1)
		}
		for i := 0; i < len(a.str); i++ {
			if a.str[i] < '0' || a.str[i] > '9' {
				return IntLit(-1)
			}
		}
		v, _ := new(big.Int).SetString(a.str, 10)
		return BigLit(v)
	}
	return app(SInt, "str.to_int", a)
}

func StrFromInt(a *Term) *Term {
	if a.lit {
		if a.i.Sign() < 0 {
			return StrLit("")
		}
		return StrLit(a.i.String())
	}
	return app(SStr, "str.from_int", a)
}

// InRe: s in regex (regex given as SMT-LIB RegLan text).
func InRe(s *Term, re string) *Term {
	t := &Term{S: SBool, s: "(str.in_re " + s.s + " " + re + ")", vars: s.vars}
	return t
}

// Raw builds a term from SMT text over the given argument terms (for prelude functions).
func Raw(s Sort, text string, args ...*Term) *Term {
	return &Term{S: s, s: text, vars: mergeVars(args...)}
}

// ---- model values

type ModelVal struct {
	S   Sort
	B   bool
	I   *big.Int
	Str string
}

func (m ModelVal) String() string {
	switch m.S {
	case SBool:
		return strconv.FormatBool(m.B)
	case SInt:
		return m.I.String()
	}
	return strconv.Quote(m.Str)
}

func (m ModelVal) GoValue() interface{} {
	switch m.S {
	case SBool:
		return m.B
	case SInt:
		if m.I.IsInt64() {
			return m.I.Int64()
		}
		return m.I.String()
	}
	return m.Str
}
