package interp

// Long-lived SMT solver child processes (z3 -in, z3-new -in, cvc5 --incremental).
// One Solver per worker. The assertion stack of the process mirrors a path
// condition prefix: sync() pops to the common prefix and pushes the rest, so
// depth-first exploration re-asserts little.

import (
	"bufio"
	"fmt"
	"io"
	"math/big"
	"os/exec"
	"strconv"
	"strings"
	"time"
)

type Verdict int

const (
	Unsat Verdict = iota
	Sat
	Unknown
)

func (v Verdict) String() string { return [...]string{"unsat", "sat", "unknown"}[v] }

type SolverStats struct {
	Queries   int
	Sat       int
	Unsat     int
	Unknown   int
	Errors    int
	Rescued   int // unknown on the primary solver, decided by the fallback
	Hung      int // queries after which the solver process had to be killed
	SolveTime time.Duration
}

type Solver struct {
	Kind     string // z3 | z3-new | cvc5
	cmd      *exec.Cmd
	in       io.WriteCloser
	out      *bufio.Reader
	stack    []*Term
	declared map[string]Sort
	Stats    SolverStats
	timeout  int // ms per query
	Log      io.Writer
	dead     bool
	lines    chan string
	Fallback *Solver // unused
	// OneShot lists solver kinds tried, each in a fresh non-incremental
	// process, when the incremental solver answers unknown (portfolio).
	OneShot          []string
	OneShotTimeoutMs int
	Abort            *bool // set when the exploration is being stopped: remaining queries answer unknown at once
}

const prelude = `
(define-fun gsx_abs ((x Int)) Int (ite (>= x 0) x (- x)))
`

func NewSolver(kind string, timeoutMs int) (*Solver, error) {
	var cmd *exec.Cmd
	switch kind {
	case "z3":
		cmd = exec.Command("z3", "-in", "-smt2")
	case "z3-new":
		cmd = exec.Command("z3-new", "-in", "-smt2")
	case "cvc5":
		cmd = exec.Command("cvc5", "--incremental", "--strings-exp", "--produce-models", "--lang=smt2",
			fmt.Sprintf("--tlimit-per=%d", timeoutMs))
	default:
		return nil, fmt.Errorf("unknown solver %q", kind)
	}
	in, err := cmd.StdinPipe()
	if err != nil {
		return nil, err
	}
	outp, err := cmd.StdoutPipe()
	if err != nil {
		return nil, err
	}
	cmd.Stderr = cmd.Stdout
	if err := cmd.Start(); err != nil {
		return nil, err
	}
	s := &Solver{Kind: kind, cmd: cmd, in: in, out: bufio.NewReaderSize(outp, 1<<16), declared: map[string]Sort{}, timeout: timeoutMs}
	s.lines = make(chan string, 256)
	go func(r *bufio.Reader, ch chan string) {
		for {
			l, err := r.ReadString('\n')
			if err != nil {
				close(ch)
				return
			}
			ch <- l
		}
	}(s.out, s.lines)
	s.send("(set-option :global-declarations true)")
	if kind != "cvc5" {
		s.send("(set-option :produce-models true)")
		s.send(fmt.Sprintf("(set-option :timeout %d)", timeoutMs))
	}
	s.send("(set-logic ALL)")
	s.send(prelude)
	if lines := s.roundtrip(); hasError(lines) {
		return nil, fmt.Errorf("solver %s start-up: %v", kind, lines)
	}
	return s, nil
}

func hasError(lines []string) bool {
	for _, l := range lines {
		if strings.Contains(l, "(error") || strings.Contains(l, "rror:") {
			return true
		}
	}
	return false
}

func (s *Solver) send(text string) {
	if s.Log != nil {
		fmt.Fprintln(s.Log, text)
	}
	if _, err := io.WriteString(s.in, text+"\n"); err != nil {
		s.dead = true
	}
}

// roundtrip sends an echo marker and returns all output lines before it. A
// solver that does not answer within its time limit (plus a grace period) is
// killed and replaced: the query counts as unknown.
func (s *Solver) roundtrip() []string {
	s.send(`(echo "#gsx-done")`)
	var lines []string
	deadline := time.NewTimer(time.Duration(s.timeout)*time.Millisecond + 4*time.Second)
	defer deadline.Stop()
	for {
		select {
		case l, ok := <-s.lines:
			if !ok {
				s.dead = true
				lines = append(lines, "(error \"solver died\")")
				s.restart()
				return lines
			}
			l = strings.TrimSpace(l)
			if l == "#gsx-done" || l == `"#gsx-done"` {
				return lines
			}
			if l != "" {
				if s.Log != nil {
					fmt.Fprintln(s.Log, "; <- "+l)
				}
				lines = append(lines, l)
			}
		case <-deadline.C:
			s.Stats.Hung++
			lines = append(lines, "(error \"solver exceeded its time limit and was killed\")")
			s.restart()
			return lines
		}
	}
}

// restart replaces the child process by a fresh one (empty assertion stack).
func (s *Solver) restart() {
	if s.cmd != nil && s.cmd.Process != nil {
		s.in.Close()
		s.cmd.Process.Kill()
		go s.cmd.Wait()
	}
	ns, err := NewSolver(s.Kind, s.timeout)
	if err != nil {
		s.dead = true
		return
	}
	s.cmd, s.in, s.out, s.lines = ns.cmd, ns.in, ns.out, ns.lines
	s.stack = nil
	s.declared = map[string]Sort{}
	s.dead = false
}

func (s *Solver) Close() {
	if s.Fallback != nil {
		s.Fallback.Close()
	}
	if s.cmd != nil && s.cmd.Process != nil {
		s.in.Close()
		s.cmd.Process.Kill()
		s.cmd.Wait()
	}
}

func (s *Solver) declare(t *Term, sorts map[string]Sort) {
	for _, v := range t.vars {
		if _, ok := s.declared[v]; ok {
			continue
		}
		so, ok := sorts[v]
		if !ok {
			panic("gsx: undeclared symbolic constant " + v)
		}
		s.declared[v] = so
		s.send(fmt.Sprintf("(declare-const %s %s)", quoteName(v), so))
	}
}

// sync makes the solver's assertion stack equal to pc.
func (s *Solver) sync(pc []*Term, sorts map[string]Sort) {
	n := 0
	for n < len(pc) && n < len(s.stack) && (s.stack[n] == pc[n] || s.stack[n].s == pc[n].s) {
		n++
	}
	if n < len(s.stack) {
		s.send(fmt.Sprintf("(pop %d)", len(s.stack)-n))
		s.stack = s.stack[:n]
	}
	for _, t := range pc[n:] {
		s.declare(t, sorts)
		s.send("(push 1)")
		s.send("(assert " + t.s + ")")
		s.stack = append(s.stack, t)
	}
}

// Check decides satisfiability of pc ∧ extra. If wantModel and the verdict
// is Sat, the model restricted to vars is returned.
func (s *Solver) Check(pc []*Term, extra *Term, sorts map[string]Sort, wantModel bool, vars []string) (Verdict, map[string]ModelVal) {
	if s.Abort != nil && *s.Abort {
		s.Stats.Unknown++
		return Unknown, nil
	}
	v, m := s.check1(pc, extra, sorts, wantModel, vars)
	if v == Unknown && !(s.Abort != nil && *s.Abort) {
		for _, kind := range s.OneShot {
			t0 := time.Now()
			v2, m2 := oneShot(kind, s.OneShotTimeoutMs, pc, extra, sorts, wantModel, vars)
			s.Stats.SolveTime += time.Since(t0)
			if v2 != Unknown {
				// the portfolio as a whole decided the query
				s.Stats.Unknown--
				s.Stats.Rescued++
				if v2 == Sat {
					s.Stats.Sat++
				} else {
					s.Stats.Unsat++
				}
				return v2, m2
			}
		}
	}
	return v, m
}

// oneShot decides pc ∧ extra in a fresh, non-incremental solver process.
// (z3's one-shot string pipeline decides queries its incremental mode does not.)
func oneShot(kind string, timeoutMs int, pc []*Term, extra *Term, sorts map[string]Sort, wantModel bool, vars []string) (Verdict, map[string]ModelVal) {
	var b strings.Builder
	b.WriteString("(set-option :produce-models true)\n(set-logic ALL)\n")
	b.WriteString(prelude)
	all := append([]*Term(nil), pc...)
	if extra != nil {
		all = append(all, extra)
	}
	declared := map[string]bool{}
	var names []string
	for _, t := range all {
		for _, v := range t.vars {
			if !declared[v] {
				declared[v] = true
				names = append(names, v)
				fmt.Fprintf(&b, "(declare-const %s %s)\n", quoteName(v), sorts[v])
			}
		}
	}
	for _, t := range all {
		b.WriteString("(assert " + t.s + ")\n")
	}
	b.WriteString("(check-sat)\n")
	var want []string
	if wantModel {
		for _, n := range vars {
			if declared[n] {
				want = append(want, n)
			}
		}
		if len(want) > 0 {
			b.WriteString("(get-value (")
			for _, n := range want {
				b.WriteString(quoteName(n) + " ")
			}
			b.WriteString("))\n")
		}
	}
	var cmd *exec.Cmd
	secs := fmt.Sprint((timeoutMs + 999) / 1000)
	switch kind {
	case "z3", "z3-new":
		cmd = exec.Command(kind, "-in", "-smt2", "-T:"+secs)
	case "cvc5":
		cmd = exec.Command("cvc5", "--strings-exp", "--produce-models", "--lang=smt2", fmt.Sprintf("--tlimit=%d", timeoutMs))
	default:
		return Unknown, nil
	}
	cmd.Stdin = strings.NewReader(b.String())
	out, _ := cmd.CombinedOutput()
	text := string(out)
	if strings.Contains(text, "(error") {
		// a model request after unsat is an expected error; anything before the verdict is not
		first := strings.TrimSpace(text)
		if !strings.HasPrefix(first, "sat") && !strings.HasPrefix(first, "unsat") {
			return Unknown, nil
		}
	}
	lines := strings.SplitN(strings.TrimSpace(text), "\n", 2)
	switch strings.TrimSpace(lines[0]) {
	case "unsat":
		return Unsat, nil
	case "sat":
		model := map[string]ModelVal{}
		if wantModel && len(lines) > 1 {
			parseModel(lines[1], want, sorts, model)
		}
		return Sat, model
	}
	return Unknown, nil
}

func (s *Solver) check1(pc []*Term, extra *Term, sorts map[string]Sort, wantModel bool, vars []string) (Verdict, map[string]ModelVal) {
	if s.dead {
		s.Stats.Errors++
		return Unknown, nil
	}
	t0 := time.Now()
	s.sync(pc, sorts)
	if extra != nil {
		s.declare(extra, sorts)
		s.send("(push 1)")
		s.send("(assert " + extra.s + ")")
	}
	s.send("(check-sat)")
	lines := s.roundtrip()
	v := Unknown
	if hasError(lines) {
		s.Stats.Errors++
	} else if len(lines) > 0 {
		switch lines[len(lines)-1] {
		case "sat":
			v = Sat
		case "unsat":
			v = Unsat
		}
	}
	var model map[string]ModelVal
	if v == Sat && wantModel {
		var declared []string
		for _, n := range vars {
			if _, ok := s.declared[n]; ok {
				declared = append(declared, n)
			}
		}
		model = map[string]ModelVal{}
		// ask in chunks to keep lines manageable
		for len(declared) > 0 {
			k := len(declared)
			if k > 50 {
				k = 50
			}
			var b strings.Builder
			b.WriteString("(get-value (")
			for _, n := range declared[:k] {
				b.WriteString(quoteName(n))
				b.WriteByte(' ')
			}
			b.WriteString("))")
			s.send(b.String())
			out := strings.Join(s.roundtrip(), "\n")
			if strings.Contains(out, "(error") {
				s.Stats.Errors++
			} else {
				parseModel(out, declared[:k], sorts, model)
			}
			declared = declared[k:]
		}
	}
	if extra != nil {
		s.send("(pop 1)")
	}
	s.Stats.Queries++
	switch v {
	case Sat:
		s.Stats.Sat++
	case Unsat:
		s.Stats.Unsat++
	default:
		s.Stats.Unknown++
	}
	s.Stats.SolveTime += time.Since(t0)
	return v, model
}

// ---- s-expression parsing of (get-value ...) output

type sexp struct {
	atom string
	str  bool
	list []*sexp
}

func parseSexp(s string, pos *int) *sexp {
	skip := func() {
		for *pos < len(s) && (s[*pos] == ' ' || s[*pos] == '\n' || s[*pos] == '\t' || s[*pos] == '\r') {
			*pos++
		}
	}
	skip()
	if *pos >= len(s) {
		return nil
	}
	switch c := s[*pos]; {
	case c == '(':
		*pos++
		n := &sexp{list: []*sexp{}}
		for {
			skip()
			if *pos >= len(s) {
				return n
			}
			if s[*pos] == ')' {
				*pos++
				return n
			}
			ch := parseSexp(s, pos)
			if ch == nil {
				return n
			}
			n.list = append(n.list, ch)
		}
	case c == '"':
		*pos++
		var b strings.Builder
		for *pos < len(s) {
			if s[*pos] == '"' {
				if *pos+1 < len(s) && s[*pos+1] == '"' {
					b.WriteByte('"')
					*pos += 2
					continue
				}
				*pos++
				break
			}
			b.WriteByte(s[*pos])
			*pos++
		}
		return &sexp{atom: b.String(), str: true}
	case c == '|':
		*pos++
		st := *pos
		for *pos < len(s) && s[*pos] != '|' {
			*pos++
		}
		a := s[st:*pos]
		*pos++
		return &sexp{atom: a}
	default:
		st := *pos
		for *pos < len(s) && !strings.ContainsRune(" \n\t\r()", rune(s[*pos])) {
			*pos++
		}
		return &sexp{atom: s[st:*pos]}
	}
}

// unescapeSMT decodes \u{hh} and \uhhhh escapes into bytes (code points > 255 become '?').
func unescapeSMT(s string) string {
	var b []byte
	for i := 0; i < len(s); i++ {
		if s[i] == '\\' && i+1 < len(s) && s[i+1] == 'u' {
			if i+2 < len(s) && s[i+2] == '{' {
				j := strings.IndexByte(s[i:], '}')
				if j > 0 {
					v, err := strconv.ParseUint(s[i+3:i+j], 16, 32)
					if err == nil {
						if v > 255 {
							v = '?'
						}
						b = append(b, byte(v))
						i += j
						continue
					}
				}
			} else if i+5 < len(s) {
				v, err := strconv.ParseUint(s[i+2:i+6], 16, 32)
				if err == nil {
					if v > 255 {
						v = '?'
					}
					b = append(b, byte(v))
					i += 5
					continue
				}
			}
		}
		if s[i] == '\\' && i+1 < len(s) && s[i+1] == 'x' && i+3 < len(s) {
			v, err := strconv.ParseUint(s[i+2:i+4], 16, 8)
			if err == nil {
				b = append(b, byte(v))
				i += 3
				continue
			}
		}
		b = append(b, s[i])
	}
	return string(b)
}

func sexpInt(e *sexp) (*big.Int, bool) {
	if e.list == nil {
		v, ok := new(big.Int).SetString(e.atom, 10)
		return v, ok
	}
	if len(e.list) == 2 && e.list[0].atom == "-" {
		v, ok := sexpInt(e.list[1])
		if ok {
			return new(big.Int).Neg(v), true
		}
	}
	return nil, false
}

func parseModel(out string, names []string, sorts map[string]Sort, model map[string]ModelVal) {
	pos := 0
	top := parseSexp(out, &pos)
	if top == nil {
		return
	}
	for _, pair := range top.list {
		if len(pair.list) != 2 {
			continue
		}
		name := pair.list[0].atom
		val := pair.list[1]
		so, ok := sorts[name]
		if !ok {
			continue
		}
		switch so {
		case SBool:
			model[name] = ModelVal{S: SBool, B: val.atom == "true"}
		case SInt:
			if v, ok := sexpInt(val); ok {
				model[name] = ModelVal{S: SInt, I: v}
			}
		case SStr:
			if val.str {
				model[name] = ModelVal{S: SStr, Str: unescapeSMT(val.atom)}
			}
		}
	}
}
