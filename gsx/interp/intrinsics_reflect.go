package interp

// Addressable reflect.Value support for the few reflect operations that
// golang.org/x/tools/go/ast/astutil.Apply uses (field by name, slice index,
// Set through a cursor). A Value is structure{rtype, v, cell}: cell is the
// storage location when the value is addressable.

import (
	"fmt"
	"go/types"
)

func rvCell(v value) *value {
	st := v.(structure)
	if len(st) > 2 {
		if c, ok := st[2].(*value); ok {
			return c
		}
	}
	return nil
}

func mkRV(t types.Type, v value, cell *value) value {
	return structure{rtype{t}, v, cell}
}

func init() {
	reg("reflect.ValueOf", func(fr *frame, args []value) value {
		it := fr.i.asIface(args[0])
		return mkRV(it.t, it.v, nil)
	})
	reg("reflect.Indirect", func(fr *frame, args []value) value {
		t := rV2T(args[0]).t
		p, ok := t.Underlying().(*types.Pointer)
		if !ok {
			return args[0]
		}
		cell, _ := rV2V(args[0]).(*value)
		if cell == nil {
			return mkRV(nil, nil, nil)
		}
		if pend, ok := (*cell).(*lazyPending); ok {
			*cell = fr.i.materialise(pend, p.Elem())
		}
		return mkRV(p.Elem(), *cell, cell)
	})
	reg("(reflect.Value).FieldByName", func(fr *frame, args []value) value {
		t := rV2T(args[0]).t
		st, ok := t.Underlying().(*types.Struct)
		if !ok {
			panic(engineError{fmt.Sprintf("reflect FieldByName on %v", t)})
		}
		sv := rV2V(args[0]).(structure)
		name := args[1].(string)
		for k := 0; k < st.NumFields(); k++ {
			if st.Field(k).Name() == name {
				ft := st.Field(k).Type()
				v := fr.i.load(ft, &sv[k])
				return mkRV(ft, v, &sv[k])
			}
		}
		return mkRV(nil, nil, nil)
	})
	reg("(reflect.Value).Index", func(fr *frame, args []value) value {
		t := rV2T(args[0]).t
		idx := int(asInt64(args[1]))
		switch u := t.Underlying().(type) {
		case *types.Slice:
			sl, _ := rV2V(args[0]).([]value)
			if idx < 0 || idx >= len(sl) {
				panic(targetPanic{v: "reflect: slice index out of range", stack: fr.i.stack()})
			}
			v := fr.i.load(u.Elem(), &sl[idx])
			return mkRV(u.Elem(), v, &sl[idx])
		case *types.Array:
			a := rV2V(args[0]).(array)
			return mkRV(u.Elem(), a[idx], &a[idx])
		}
		panic(engineError{fmt.Sprintf("reflect Index on %v", t)})
	})
	reg("(reflect.Value).Set", func(fr *frame, args []value) value {
		cell := rvCell(args[0])
		if cell == nil {
			panic(targetPanic{v: "reflect: reflect.Value.Set using unaddressable value", stack: fr.i.stack()})
		}
		t := rV2T(args[0]).t
		nv := rV2V(args[1])
		if _, isIface := t.Underlying().(*types.Interface); isIface {
			if nt := rV2T(args[1]).t; nt != nil {
				if _, srcIface := nt.Underlying().(*types.Interface); !srcIface {
					nv = iface{t: nt, v: nv}
				}
			} else {
				nv = iface{}
			}
		}
		fr.i.setCell(cell, nv)
		return nil
	})
	reg("(reflect.Value).Interface", func(fr *frame, args []value) value {
		t := rV2T(args[0]).t
		v := rV2V(args[0])
		if t == nil {
			return iface{}
		}
		if _, isIface := t.Underlying().(*types.Interface); isIface {
			switch v.(type) {
			case iface, *lazyIface:
				return v
			}
		}
		return iface{t: t, v: v}
	})
	reg("(reflect.Value).Len", func(fr *frame, args []value) value {
		switch v := rV2V(args[0]).(type) {
		case []value:
			return len(v)
		case array:
			return len(v)
		case string:
			return len(v)
		case *gmap:
			return v.lenNorm(fr.i)
		case nil:
			return 0
		}
		panic(engineError{fmt.Sprintf("reflect Len of %T", rV2V(args[0]))})
	})
}
