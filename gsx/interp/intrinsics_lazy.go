package interp

import (
	"fmt"
	"go/types"
	"strings"
)

func init() {
	// Lazy(name string, depth int, ptr interface{}): *ptr becomes a lazily initialised value of its static type.
	reg(rtPkg+".Lazy", func(fr *frame, args []value) value {
		name := args[0].(string)
		it := fr.i.asIface(args[2])
		cell, ok := it.v.(*value)
		if !ok || cell == nil {
			panic(engineError{"gsxrt.Lazy needs a non-nil pointer"})
		}
		elemT := it.t.Underlying().(*types.Pointer).Elem()
		pend := &lazyPending{path: name, depth: int(asInt64(args[1])), root: true, prot: fr.i.path.lz.prot}
		// depth argument counts remaining levels: translate to the executor's absolute depth
		pend.depth = fr.i.path.ex.opts.bound("K", 3) - int(asInt64(args[1]))
		if pend.depth < 0 {
			pend.depth = 0
		}
		*cell = fr.i.materialise(pend, elemT)
		return nil
	})
	// Protect(name, ptr): the fields of the struct ptr points to (and the maps
	// they hold) become write-protected; Unprotect(ptr) lifts it again.
	protect := func(on bool) func(fr *frame, args []value) value {
		return func(fr *frame, args []value) value {
			name := ""
			k := 0
			if on {
				name, k = args[0].(string), 1
			}
			it := fr.i.asIface(args[k])
			cell, ok := it.v.(*value)
			if !ok || cell == nil {
				return nil
			}
			st, ok := (*cell).(structure)
			if !ok {
				return nil
			}
			var names []string
			if pt, ok := it.t.Underlying().(*types.Pointer); ok {
				if ts, ok := pt.Elem().Underlying().(*types.Struct); ok {
					for q := 0; q < ts.NumFields(); q++ {
						names = append(names, ts.Field(q).Name())
					}
				}
			}
			for q := range st {
				fname := fmt.Sprint(q)
				if q < len(names) {
					fname = names[q]
				}
				if on {
					fr.i.protected[&st[q]] = name + "." + fname
					if m, ok := st[q].(*gmap); ok && m != nil {
						fr.i.protected[m] = name + "." + fname
					}
				} else {
					delete(fr.i.protected, &st[q])
					if m, ok := st[q].(*gmap); ok && m != nil {
						delete(fr.i.protected, m)
					}
				}
				// a field that is a struct by value (a sync.Map, a mutex ...): its cells belong to
				// the protected object too
				var nested func(inner structure, label string, depth int)
				nested = func(inner structure, label string, depth int) {
					if depth > 4 {
						return
					}
					for k := range inner {
						if on {
							fr.i.protected[&inner[k]] = label
						} else {
							delete(fr.i.protected, &inner[k])
						}
						if in2, ok := inner[k].(structure); ok {
							nested(in2, label, depth+1)
						}
					}
				}
				if inner, ok := st[q].(structure); ok {
					nested(inner, name+"."+fname, 0)
				}
			}
			if on {
				cells := st
				fr.i.path.logUndo(func() {
					for q := range cells {
						delete(fr.i.protected, &cells[q])
						if m, ok := cells[q].(*gmap); ok && m != nil {
							delete(fr.i.protected, m)
						}
					}
				})
			}
			return nil
		}
	}
	// RealEnv(name): from now on (this path) the real body of the named environment
	// function runs instead of its harness model.
	reg(rtPkg+".RealEnv", func(fr *frame, args []value) value {
		fr.i.path.noStub[args[0].(string)] = true
		return nil
	})
	reg(rtPkg+".Protect", protect(true))
	reg(rtPkg+".Unprotect", protect(false))
	// ProtectNew(on bool): lazy objects created from now on are write-protected.
	reg(rtPkg+".ProtectNew", func(fr *frame, args []value) value {
		fr.i.path.lz.prot = args[0].(bool)
		return nil
	})
	// Field(x interface{}, name string) interface{}: unexported field access.
	reg(rtPkg+".Field", func(fr *frame, args []value) value {
		it := fr.i.asIface(args[0])
		if it.t == nil {
			panic(targetPanic{v: "gsxrt.Field of nil", stack: fr.i.stack()})
		}
		name := args[1].(string)
		t := it.t
		var st structure
		if p, ok := t.Underlying().(*types.Pointer); ok {
			cell := it.v.(*value)
			if cell == nil {
				fr.i.nilDeref()
			}
			if pend, ok := (*cell).(*lazyPending); ok {
				*cell = fr.i.materialise(pend, p.Elem())
			}
			st = (*cell).(structure)
			t = p.Elem()
		} else {
			var ok bool
			st, ok = it.v.(structure)
			if !ok {
				return iface{}
			}
		}
		sst, ok := t.Underlying().(*types.Struct)
		if !ok {
			return iface{}
		}
		for k := 0; k < sst.NumFields(); k++ {
			f := sst.Field(k)
			if f.Name() != name {
				continue
			}
			v := fr.i.load(f.Type(), &st[k])
			if _, isIface := f.Type().Underlying().(*types.Interface); isIface {
				return v
			}
			return iface{t: f.Type(), v: v}
		}
		return iface{} // no such field
	})
	// IsInputPos(p): p is a position variable created for a field of the lazy
	// input (a token start by construction), not a computed value.
	reg(rtPkg+".IsInputPos", func(fr *frame, args []value) value {
		v := args[0]
		if it, ok := v.(iface); ok {
			v = it.v
		}
		s, ok := v.(sym)
		if !ok {
			// a concrete position cannot come from the symbolic input
			return false
		}
		t := s.t
		if len(t.vars) == 1 && t.s == quoteName(t.vars[0]) && !strings.Contains(t.vars[0], "#End") {
			return true
		}
		return false
	})
	reg(rtPkg+".LastWarnArgs", func(fr *frame, args []value) value {
		evs := fr.i.path.events
		for k := len(evs) - 1; k >= 0; k-- {
			if evs[k].Kind == "astfmt.Sprintf" {
				return append([]value(nil), evs[k].Args[1:]...)
			}
		}
		return []value(nil)
	})
	reg(rtPkg+".TypeName", func(fr *frame, args []value) value {
		it := fr.i.asIface(args[0])
		if it.t == nil {
			return "<nil>"
		}
		return it.t.String()
	})
	// Warnings(): number of "warn" events so far (set by the linter hooks below).
}
