package interp

// Loading /repo's current working tree (plus harness overlays) and building SSA.

import (
	"fmt"
	"go/types"
	"os"
	"sort"
	"strings"

	"golang.org/x/tools/go/packages"
	"golang.org/x/tools/go/ssa"
	"golang.org/x/tools/go/ssa/ssautil"
)

type LoadConfig struct {
	Dir      string            // /repo
	Patterns []string          // package patterns
	Overlay  map[string][]byte // absolute path -> content
	// InitAllow decides which packages' init functions are executed concretely.
	InitAllow func(pkgPath string) bool
	Tests     bool
}

func Load(cfg LoadConfig) (*Program, error) {
	pcfg := &packages.Config{
		Mode:    packages.LoadAllSyntax,
		Dir:     cfg.Dir,
		Overlay: cfg.Overlay,
		Tests:   cfg.Tests,
		Env:     append(os.Environ(), "GOFLAGS=-mod=mod", "GOPROXY=off", "GOSUMDB=off", "GOTOOLCHAIN=local"),
	}
	pkgs, err := packages.Load(pcfg, cfg.Patterns...)
	if err != nil {
		return nil, err
	}
	var errs []string
	packages.Visit(pkgs, nil, func(p *packages.Package) {
		for _, e := range p.Errors {
			errs = append(errs, e.Error())
		}
	})
	if len(errs) > 0 {
		if len(errs) > 10 {
			errs = errs[:10]
		}
		return nil, fmt.Errorf("package load errors:\n%s", strings.Join(errs, "\n"))
	}
	prog, _ := ssautil.AllPackages(pkgs, ssa.InstantiateGenerics|ssa.SanityCheckFunctions&0)
	prog.Build()
	pr := &Program{Prog: prog, Pkgs: map[string]*ssa.Package{}, Sizes: types.SizesFor("gc", "amd64"),
		initAllowed: map[*ssa.Package]bool{}, Stubs: map[string]*ssa.Function{}}
	// dependency order for inits
	seen := map[*packages.Package]bool{}
	var order []*packages.Package
	var visit func(p *packages.Package)
	visit = func(p *packages.Package) {
		if seen[p] {
			return
		}
		seen[p] = true
		var imps []string
		for k := range p.Imports {
			imps = append(imps, k)
		}
		sort.Strings(imps)
		for _, k := range imps {
			visit(p.Imports[k])
		}
		order = append(order, p)
	}
	for _, p := range pkgs {
		visit(p)
	}
	for _, p := range order {
		sp := prog.Package(p.Types)
		if sp == nil {
			continue
		}
		pr.Pkgs[p.PkgPath] = sp
		if cfg.InitAllow != nil && cfg.InitAllow(p.PkgPath) {
			pr.initPkgs = append(pr.initPkgs, sp)
			pr.initAllowed[sp] = true
		}
	}
	pr.byName = map[string]*ssa.Function{}
	for fn := range ssautil.AllFunctions(prog) {
		pr.byName[fn.String()] = fn
	}
	return pr, nil
}
