package interp

import (
	"go/token"
	"go/types"
	"unsafe"
)

var _ = unsafe.Pointer(nil)

// sync/atomic: execution is sequential, so these are plain loads and stores.
func init() {
	deref := func(fr *frame, a value) *value {
		p := a.(*value)
		if p == nil {
			fr.i.nilDeref()
		}
		return p
	}
	for _, ty := range []string{"Int32", "Int64", "Uint32", "Uint64", "Uintptr", "Pointer"} {
		reg("sync/atomic.Load"+ty, func(fr *frame, args []value) value { return *deref(fr, args[0]) })
		reg("sync/atomic.Store"+ty, func(fr *frame, args []value) value {
			fr.i.setCell(deref(fr, args[0]), args[1])
			return nil
		})
		reg("sync/atomic.Swap"+ty, func(fr *frame, args []value) value {
			p := deref(fr, args[0])
			old := *p
			fr.i.setCell(p, args[1])
			return old
		})
		reg("sync/atomic.CompareAndSwap"+ty, func(fr *frame, args []value) value {
			p := deref(fr, args[0])
			if fr.i.truth(fr.i.binop(token.EQL, types.Typ[types.Int], *p, args[1])) {
				fr.i.setCell(p, args[2])
				return true
			}
			return false
		})
		if ty != "Pointer" {
			reg("sync/atomic.Add"+ty, func(fr *frame, args []value) value {
				p := deref(fr, args[0])
				nv := fr.i.binop(token.ADD, types.Typ[types.Int], *p, args[1])
				fr.i.setCell(p, nv)
				return nv
			})
		}
	}
	// typed atomics: struct{_ noCopy; [_ align64;] v T}
	last := func(fr *frame, a value) *value {
		p := deref(fr, a)
		st := (*p).(structure)
		return &st[len(st)-1]
	}
	for _, ty := range []string{"Int32", "Int64", "Uint32", "Uint64", "Uintptr", "Bool", "Value", "Pointer[T]"} {
		recv := "(*sync/atomic." + ty + ")."
		reg(recv+"Load", func(fr *frame, args []value) value {
			v := *last(fr, args[0])
			if ty == "Bool" {
				return v.(uint32) != 0
			}
			if ty == "Pointer[T]" {
				if _, isPtr := v.(*value); !isPtr {
					return (*value)(nil) // zero unsafe.Pointer: a nil *T
				}
			}
			return v
		})
		reg(recv+"Store", func(fr *frame, args []value) value {
			v := args[1]
			if ty == "Bool" {
				if v.(bool) {
					v = uint32(1)
				} else {
					v = uint32(0)
				}
			}
			fr.i.setCell(last(fr, args[0]), v)
			return nil
		})
		reg(recv+"Add", func(fr *frame, args []value) value {
			p := last(fr, args[0])
			nv := fr.i.binop(token.ADD, types.Typ[types.Int], *p, args[1])
			fr.i.setCell(p, nv)
			return nv
		})
		reg(recv+"CompareAndSwap", func(fr *frame, args []value) value {
			p := last(fr, args[0])
			old, nw := args[1], args[2]
			if ty == "Bool" {
				b2u := func(v value) value {
					if v.(bool) {
						return uint32(1)
					}
					return uint32(0)
				}
				old, nw = b2u(old), b2u(nw)
			}
			if fr.i.truth(boolVal(fr.i.eqnilT(types.Typ[types.Int], *p, old))) {
				fr.i.setCell(p, nw)
				return true
			}
			return false
		})
	}
}
