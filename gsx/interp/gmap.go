package interp

// gmap: the single map representation of the symbolic interpreter. Entries
// are kept in insertion order (deterministic iteration; an adversarial order
// is introduced explicitly by the range hook). Keys may be symbolic: lookups
// then fork over "equals entry i" / "absent".

import (
	"go/types"
)

type gent struct {
	key, val value
	dead     bool
}

type gmap struct {
	kt   types.Type
	ents []*gent
	n    int
	idx  map[value]*gent // concrete natively-comparable keys only
	nsym int             // live entries with symbolic keys
	lazy *lazyMap        // non-nil for lazily initialised maps
	// multi: entries may shadow one another (a symbolic key was inserted
	// without deciding whether it equals an existing key); later entries win.
	multi bool
}

func makeMap(kt types.Type, reserve int64) value {
	return &gmap{kt: kt, idx: map[value]*gent{}}
}

func nativeKey(k value) bool {
	switch k.(type) {
	case bool, int, int8, int16, int32, int64, uint, uint8, uint16, uint32, uint64, uintptr, float32, float64, string, *value:
		return true
	}
	return false
}

func isSymbolic(k value) bool {
	switch k := k.(type) {
	case sym:
		return true
	case iface:
		return isSymbolic(k.v)
	case structure:
		for _, f := range k {
			if isSymbolic(f) {
				return true
			}
		}
	case array:
		for _, f := range k {
			if isSymbolic(f) {
				return true
			}
		}
	}
	return false
}

// find returns the entry for key k, forking when symbolic keys are involved.
func (m *gmap) find(in *interpreter, k value) *gent {
	if m == nil {
		return nil
	}
	if li, ok := k.(*lazyIface); ok {
		k = li.resolve(in)
	}
	ksym := isSymbolic(k)
	if !ksym && m.nsym == 0 {
		if nativeKey(k) {
			return m.idx[k]
		}
		for _, e := range m.ents {
			if !e.dead && equalsT(m.kt, e.key, k).b {
				return e
			}
		}
		return nil
	}
	// symbolic: build alternatives
	var cands []*gent
	var alts []*Term
	none := TTrue
	for _, e := range m.ents {
		if e.dead {
			continue
		}
		c := equalsT(m.kt, e.key, k)
		if c.lit && !c.b {
			continue
		}
		if c.lit && c.b {
			return e
		}
		cands = append(cands, e)
		alts = append(alts, c)
		none = And(none, Not(c))
	}
	if len(cands) == 0 {
		return nil
	}
	alts = append(alts, none)
	c := in.path.fork(alts)
	if c == len(cands) {
		return nil
	}
	return cands[c]
}

func (m *gmap) lookup(in *interpreter, k value) (value, bool) {
	if m != nil && m.lazy != nil {
		return m.lazy.lookup(in, m, k)
	}
	if m != nil && m.multi {
		m.normalise(in)
	}
	e := m.find(in, k)
	if e == nil {
		return nil, false
	}
	return e.val, true
}

func scalarKind(v value) bool {
	switch v.(type) {
	case bool, string, int, int8, int16, int32, int64, uint, uint8, uint16, uint32, uint64, uintptr, sym:
		return true
	}
	return false
}

// lookupScalar answers a lookup without forking when symbolic keys are
// involved and all candidate values are scalars: the result is an ite chain
// (newest entry first) and ok is a symbolic bool. handled=false means the
// caller must use the forking lookup.
func (m *gmap) lookupScalar(in *interpreter, k value, zeroV value) (v value, ok value, handled bool) {
	if m == nil || m.lazy != nil {
		return nil, nil, false
	}
	if !isSymbolic(k) && m.nsym == 0 {
		return nil, nil, false
	}
	if !scalarKind(zeroV) {
		return nil, nil, false
	}
	kind := kindOf(zeroV)
	res := mustTerm(zeroV)
	found := TFalse
	for _, e := range m.ents { // oldest first; later entries wrap earlier ones
		if e.dead {
			continue
		}
		if !scalarKind(e.val) {
			return nil, nil, false
		}
		c := equalsT(m.kt, e.key, k)
		if c.lit && !c.b {
			continue
		}
		res = Ite(c, mustTerm(e.val), res)
		found = Or(c, found)
	}
	return mkval(res, kind), boolVal(found), true
}

// normalise resolves possible shadowing between entries by forking on key
// equality (needed before len, range, delete or a non-scalar lookup).
func (m *gmap) normalise(in *interpreter) {
	if !m.multi {
		return
	}
	live := m.live()
	for i := len(live) - 1; i >= 0; i-- {
		if live[i].dead {
			continue
		}
		for j := i - 1; j >= 0; j-- {
			if live[j].dead {
				continue
			}
			c := equalsT(m.kt, live[i].key, live[j].key)
			if c.lit && !c.b {
				continue
			}
			if in.path.branch(c) {
				e := live[j]
				e.dead = true
				m.n--
				sy := isSymbolic(e.key)
				if sy {
					m.nsym--
				} else if nativeKey(e.key) {
					delete(m.idx, e.key)
				}
				in.path.logUndo(func() {
					e.dead = false
					m.n++
					if sy {
						m.nsym++
					} else if nativeKey(e.key) {
						m.idx[e.key] = e
					}
				})
			}
		}
	}
	m.multi = false
	in.path.logUndo(func() { m.multi = true })
}

func (m *gmap) insert(in *interpreter, k, v value) {
	if li, ok := k.(*lazyIface); ok {
		k = li.resolve(in)
	}
	if m == nil {
		panic(targetPanic{v: "assignment to entry in nil map", stack: in.stack()})
	}
	in.noteWrite(m, "map update")
	if in.path != nil && (isSymbolic(k) || m.nsym > 0) && scalarKind(v) {
		// defer the decision whether k equals an existing key: append a shadowing entry
		ne := &gent{key: k, val: v}
		m.ents = append(m.ents, ne)
		m.n++
		sy := isSymbolic(k)
		if sy {
			m.nsym++
		}
		wasMulti := m.multi
		m.multi = true
		in.path.logUndo(func() {
			m.ents = m.ents[:len(m.ents)-1]
			m.n--
			if sy {
				m.nsym--
			}
			m.multi = wasMulti
		})
		return
	}
	if m.multi {
		m.normalise(in)
	}
	e := m.find(in, k)
	if e != nil {
		old := e.val
		e.val = v
		if in.path != nil {
			in.path.logUndo(func() { e.val = old })
		}
		return
	}
	ne := &gent{key: k, val: v}
	m.ents = append(m.ents, ne)
	m.n++
	sy := isSymbolic(k)
	if sy {
		m.nsym++
	} else if nativeKey(k) {
		m.idx[k] = ne
	}
	if in.path != nil {
		in.path.logUndo(func() {
			m.ents = m.ents[:len(m.ents)-1]
			m.n--
			if sy {
				m.nsym--
			} else if nativeKey(k) {
				delete(m.idx, k)
			}
		})
	}
}

func (m *gmap) delete(in *interpreter, k value) {
	if m == nil {
		return
	}
	in.noteWrite(m, "map delete")
	if m.multi {
		m.normalise(in)
	}
	e := m.find(in, k)
	if e == nil {
		return
	}
	e.dead = true
	m.n--
	sy := isSymbolic(e.key)
	if sy {
		m.nsym--
	} else if nativeKey(e.key) {
		delete(m.idx, e.key)
	}
	if in.path != nil {
		in.path.logUndo(func() {
			e.dead = false
			m.n++
			if sy {
				m.nsym++
			} else if nativeKey(e.key) {
				m.idx[e.key] = e
			}
		})
	}
}

func (m *gmap) len() int {
	if m == nil {
		return 0
	}
	return m.n
}

func (m *gmap) lenNorm(in *interpreter) int {
	if m == nil {
		return 0
	}
	if m.multi && in.path != nil {
		m.normalise(in)
	}
	return m.n
}

func (m *gmap) live() []*gent {
	if m == nil {
		return nil
	}
	var out []*gent
	for _, e := range m.ents {
		if !e.dead {
			out = append(out, e)
		}
	}
	return out
}

type gmapIter struct {
	in   *interpreter
	m    *gmap
	rest []*gent
}

func (it *gmapIter) next() tuple {
	for len(it.rest) > 0 {
		i := 0
		if it.in.path != nil && it.in.symbolicMapOrder && len(it.rest) > 1 && len(it.rest) <= it.in.mapOrderBound {
			i = it.in.path.choose(len(it.rest))
		}
		e := it.rest[i]
		it.rest = append(append([]*gent(nil), it.rest[:i]...), it.rest[i+1:]...)
		if e.dead {
			continue
		}
		return tuple{true, e.key, e.val}
	}
	return tuple{false, nil, nil}
}
