package interp

// Symbolic scalar values and the operations on them.

import (
	"fmt"
	"go/token"
	"go/types"
	"math/big"
	"strings"

	"golang.org/x/tools/go/ssa"
)

// sym is a symbolic value of a basic Go type (bool, an integer kind, string).
// Integers are mathematical SMT Ints constrained to the kind's range where
// they are created; arithmetic is assumed not to overflow (stated assumption).
type sym struct {
	t *Term
	k types.BasicKind
}

func kindOf(v value) types.BasicKind {
	switch v := v.(type) {
	case sym:
		return v.k
	case bool:
		return types.Bool
	case int:
		return types.Int
	case int8:
		return types.Int8
	case int16:
		return types.Int16
	case int32:
		return types.Int32
	case int64:
		return types.Int64
	case uint:
		return types.Uint
	case uint8:
		return types.Uint8
	case uint16:
		return types.Uint16
	case uint32:
		return types.Uint32
	case uint64:
		return types.Uint64
	case uintptr:
		return types.Uintptr
	case string:
		return types.String
	}
	return types.Invalid
}

func basicKind(t types.Type) types.BasicKind {
	if b, ok := t.Underlying().(*types.Basic); ok {
		k := b.Kind()
		switch k {
		case types.UntypedBool:
			return types.Bool
		case types.UntypedInt:
			return types.Int
		case types.UntypedRune:
			return types.Int32
		case types.UntypedString:
			return types.String
		}
		return k
	}
	return types.Invalid
}

func isIntKind(k types.BasicKind) bool { return k >= types.Int && k <= types.Uintptr }

func kindRange(k types.BasicKind) (lo, hi *big.Int) {
	bits := map[types.BasicKind]int{types.Int: 64, types.Int8: 8, types.Int16: 16, types.Int32: 32, types.Int64: 64,
		types.Uint: 64, types.Uint8: 8, types.Uint16: 16, types.Uint32: 32, types.Uint64: 64, types.Uintptr: 64}[k]
	one := big.NewInt(1)
	switch k {
	case types.Int, types.Int8, types.Int16, types.Int32, types.Int64:
		hi = new(big.Int).Sub(new(big.Int).Lsh(one, uint(bits-1)), one)
		lo = new(big.Int).Neg(new(big.Int).Lsh(one, uint(bits-1)))
	default:
		lo = big.NewInt(0)
		hi = new(big.Int).Sub(new(big.Int).Lsh(one, uint(bits)), one)
	}
	return
}

// termOf converts a basic value (concrete or symbolic) to a term.
func termOf(v value) (*Term, bool) {
	switch v := v.(type) {
	case sym:
		return v.t, true
	case bool:
		return BoolLit(v), true
	case string:
		return StrLit(v), true
	case int:
		return IntLit(int64(v)), true
	case int8:
		return IntLit(int64(v)), true
	case int16:
		return IntLit(int64(v)), true
	case int32:
		return IntLit(int64(v)), true
	case int64:
		return IntLit(v), true
	case uint:
		return UintLit(uint64(v)), true
	case uint8:
		return UintLit(uint64(v)), true
	case uint16:
		return UintLit(uint64(v)), true
	case uint32:
		return UintLit(uint64(v)), true
	case uint64:
		return UintLit(v), true
	case uintptr:
		return UintLit(uint64(v)), true
	}
	return nil, false
}

func mustTerm(v value) *Term {
	t, ok := termOf(v)
	if !ok {
		panic(engineError{fmt.Sprintf("no term for %T", v)})
	}
	return t
}

// mkval converts a term back to a value of kind k (concrete if literal).
func mkval(t *Term, k types.BasicKind) value {
	if !t.lit {
		return sym{t, k}
	}
	switch k {
	case types.Bool:
		return t.b
	case types.String:
		return t.str
	}
	if !isIntKind(k) {
		panic(engineError{fmt.Sprintf("mkval kind %v", k)})
	}
	var i64 int64
	var u64 uint64
	if t.i.IsInt64() {
		i64 = t.i.Int64()
		u64 = uint64(i64)
	} else if t.i.IsUint64() {
		u64 = t.i.Uint64()
		i64 = int64(u64)
	} else {
		u64 = new(big.Int).And(t.i, new(big.Int).SetUint64(^uint64(0))).Uint64()
		i64 = int64(u64)
	}
	switch k {
	case types.Int:
		return int(i64)
	case types.Int8:
		return int8(i64)
	case types.Int16:
		return int16(i64)
	case types.Int32:
		return int32(i64)
	case types.Int64:
		return i64
	case types.Uint:
		return uint(u64)
	case types.Uint8:
		return uint8(u64)
	case types.Uint16:
		return uint16(u64)
	case types.Uint32:
		return uint32(u64)
	case types.Uint64:
		return u64
	case types.Uintptr:
		return uintptr(u64)
	}
	panic("unreachable")
}

// equalsT is equals() returning a term; it handles symbolic leaves.
func equalsT(t types.Type, x, y value) *Term {
	if lx, ok := x.(*lazyIface); ok {
		if lx.resolved == nil {
			panic(engineError{"comparison of an unresolved lazy interface"})
		}
		x = *lx.resolved
	}
	if ly, ok := y.(*lazyIface); ok {
		if ly.resolved == nil {
			panic(engineError{"comparison of an unresolved lazy interface"})
		}
		y = *ly.resolved
	}
	switch xv := x.(type) {
	case sym:
		yt, ok := termOf(y)
		if !ok {
			panic(engineError{fmt.Sprintf("equalsT: sym vs %T", y)})
		}
		return Eq(xv.t, yt)
	case structure:
		yv := y.(structure)
		tStruct := t.Underlying().(*types.Struct)
		res := TTrue
		for i, n := 0, tStruct.NumFields(); i < n; i++ {
			if f := tStruct.Field(i); f.Name() != "_" {
				res = And(res, equalsT(f.Type(), xv[i], yv[i]))
				if res.lit && !res.b {
					return res
				}
			}
		}
		return res
	case array:
		yv := y.(array)
		tElt := t.Underlying().(*types.Array).Elem()
		res := TTrue
		for i := range xv {
			res = And(res, equalsT(tElt, xv[i], yv[i]))
		}
		return res
	case iface:
		yv, ok := y.(iface)
		if !ok {
			panic(engineError{fmt.Sprintf("equalsT: iface vs %T", y)})
		}
		if xv.t == nil || yv.t == nil {
			return BoolLit(xv.t == nil && yv.t == nil)
		}
		if !types.Identical(xv.t, yv.t) {
			return TFalse
		}
		return equalsT(xv.t, xv.v, yv.v)
	}
	if ys, ok := y.(sym); ok {
		xt, ok := termOf(x)
		if !ok {
			panic(engineError{fmt.Sprintf("equalsT: %T vs sym", x)})
		}
		return Eq(xt, ys.t)
	}
	return BoolLit(equals(t, x, y))
}

func boolVal(t *Term) value {
	if t.lit {
		return t.b
	}
	return sym{t, types.Bool}
}

var pow2 = func() map[int64]*big.Int {
	m := map[int64]*big.Int{}
	for i := int64(0); i <= 64; i++ {
		m[i] = new(big.Int).Lsh(big.NewInt(1), uint(i))
	}
	return m
}()

// symBinop implements binary operators when at least one operand is symbolic.
func (in *interpreter) symBinop(op token.Token, t types.Type, x, y value) value {
	k := kindOf(x)
	if _, ok := x.(sym); !ok {
		k = kindOf(y)
		if op == token.SHL || op == token.SHR {
			k = kindOf(x)
		}
	}
	xt, ok1 := termOf(x)
	yt, ok2 := termOf(y)
	if !ok1 || !ok2 {
		panic(engineError{fmt.Sprintf("symBinop %s on %T, %T", op, x, y)})
	}
	switch k {
	case types.Bool:
		switch op {
		case token.EQL:
			return boolVal(Eq(xt, yt))
		case token.NEQ:
			return boolVal(Not(Eq(xt, yt)))
		case token.AND, token.LAND:
			return boolVal(And(xt, yt))
		case token.OR, token.LOR:
			return boolVal(Or(xt, yt))
		}
	case types.String:
		switch op {
		case token.ADD:
			return mkval(Concat(xt, yt), types.String)
		case token.EQL:
			return boolVal(Eq(xt, yt))
		case token.NEQ:
			return boolVal(Not(Eq(xt, yt)))
		case token.LSS:
			return boolVal(StrLt(xt, yt))
		case token.LEQ:
			return boolVal(StrLe(xt, yt))
		case token.GTR:
			return boolVal(StrLt(yt, xt))
		case token.GEQ:
			return boolVal(StrLe(yt, xt))
		}
	default:
		if !isIntKind(k) {
			break
		}
		switch op {
		case token.ADD:
			return mkval(Add(xt, yt), k)
		case token.SUB:
			return mkval(Sub(xt, yt), k)
		case token.MUL:
			return mkval(Mul(xt, yt), k)
		case token.QUO, token.REM:
			if in.path.branch(Eq(yt, IntLit(0))) {
				panic(targetPanic{v: "runtime error: integer divide by zero", stack: in.stack()})
			}
			if op == token.QUO {
				return mkval(GoQuo(xt, yt), k)
			}
			return mkval(GoRem(xt, yt), k)
		case token.EQL:
			return boolVal(Eq(xt, yt))
		case token.NEQ:
			return boolVal(Not(Eq(xt, yt)))
		case token.LSS:
			return boolVal(Lt(xt, yt))
		case token.LEQ:
			return boolVal(Le(xt, yt))
		case token.GTR:
			return boolVal(Gt(xt, yt))
		case token.GEQ:
			return boolVal(Ge(xt, yt))
		case token.SHL:
			if yt.lit && yt.i.IsInt64() && yt.i.Int64() >= 0 && yt.i.Int64() < 63 {
				return mkval(Mul(xt, BigLit(pow2[yt.i.Int64()])), k)
			}
		case token.SHR:
			if yt.lit && yt.i.IsInt64() && yt.i.Int64() >= 0 && yt.i.Int64() < 63 {
				// floor division == arithmetic shift for both signs
				return mkval(app(SInt, "div", xt, BigLit(pow2[yt.i.Int64()])), k)
			}
		case token.AND:
			// x & (2^n - 1)
			for _, pair := range [][2]*Term{{xt, yt}, {yt, xt}} {
				m := pair[1]
				if m.lit && m.i.Sign() >= 0 {
					p1 := new(big.Int).Add(m.i, big.NewInt(1))
					if p1.BitLen() > 0 && new(big.Int).And(p1, m.i).Sign() == 0 {
						return mkval(Mod(pair[0], BigLit(p1)), k)
					}
					// single-bit mask: (x div 2^n) mod 2 * 2^n
					if m.i.BitLen() > 0 && new(big.Int).And(m.i, new(big.Int).Sub(m.i, big.NewInt(1))).Sign() == 0 {
						bit := Mod(app(SInt, "div", pair[0], BigLit(m.i)), IntLit(2))
						return mkval(Mul(bit, BigLit(m.i)), k)
					}
				}
			}
		}
	}
	panic(engineError{fmt.Sprintf("unsupported symbolic binop %s on kind %v", op, k)})
}

func (in *interpreter) symUnop(instr *ssa.UnOp, x sym) value {
	switch instr.Op {
	case token.NOT:
		return boolVal(Not(x.t))
	case token.SUB:
		return mkval(Neg(x.t), x.k)
	}
	panic(engineError{fmt.Sprintf("unsupported symbolic unop %s", instr.Op)})
}

// symConv converts symbolic x from t_src to t_dst.
func (in *interpreter) symConv(t_dst, t_src types.Type, x sym) value {
	dk := basicKind(t_dst)
	if dk == types.Invalid {
		// string -> []byte / []rune
		if _, ok := t_dst.Underlying().(*types.Slice); ok && x.k == types.String {
			return in.symStringToBytes(x, t_dst)
		}
		panic(engineError{fmt.Sprintf("unsupported symbolic conversion to %s", t_dst)})
	}
	switch {
	case x.k == types.Bool && dk == types.Bool, x.k == types.String && dk == types.String:
		return sym{x.t, dk}
	case isIntKind(x.k) && isIntKind(dk):
		slo, shi := kindRange(x.k)
		dlo, dhi := kindRange(dk)
		if dlo.Cmp(slo) <= 0 && dhi.Cmp(shi) >= 0 {
			return sym{x.t, dk} // widening
		}
		// narrowing / sign change: exact modular semantics
		size := new(big.Int).Add(new(big.Int).Sub(dhi, dlo), big.NewInt(1))
		m := Mod(Sub(x.t, BigLit(dlo)), BigLit(size))
		return sym{Add(m, BigLit(dlo)), dk}
	case isIntKind(x.k) && dk == types.String:
		// string(rune): ASCII range assumed (stated bound)
		in.path.Assume(And(Ge(x.t, IntLit(0)), Lt(x.t, IntLit(128))))
		return sym{StrFromCode(x.t), types.String}
	}
	panic(engineError{fmt.Sprintf("unsupported symbolic conversion %v -> %s", x.k, t_dst)})
}

// symStringToBytes: a symbolic string converted to []byte becomes a slice of
// symbolic bytes; its length is decided by forking within the strlen bound.
func (in *interpreter) symStringToBytes(x sym, t_dst types.Type) value {
	n := in.concretizeInt(StrLen(x.t), 0, in.path.ex.opts.bound("strlen", 16))
	out := make([]value, n)
	elem := basicKind(t_dst.Underlying().(*types.Slice).Elem())
	for i := 0; i < n; i++ {
		out[i] = mkval(StrCode(StrAt(x.t, IntLit(int64(i)))), elem)
	}
	return out
}

// concretizeInt forks over the concrete values lo..hi of t (values above hi
// are cut: the path is pruned and the cut is recorded as a bound).
func (in *interpreter) concretizeInt(t *Term, lo, hi int) int {
	if t.lit {
		return int(t.i.Int64())
	}
	alts := make([]*Term, 0, hi-lo+2)
	for v := lo; v <= hi; v++ {
		alts = append(alts, Eq(t, IntLit(int64(v))))
	}
	alts = append(alts, Or(Lt(t, IntLit(int64(lo))), Gt(t, IntLit(int64(hi)))))
	c := in.path.fork(alts)
	if c == hi-lo+1 {
		in.path.reached["bound:concretize-cut"] = true
		panic(pathPruned{"concretisation bound"})
	}
	return lo + c
}

// symIndexString: s[i] with bounds check.
func (in *interpreter) symIndexString(s, idx value) value {
	st := mustTerm(s)
	it := mustTerm(idx)
	inb := And(Ge(it, IntLit(0)), Lt(it, StrLen(st)))
	if !in.path.branch(inb) {
		panic(targetPanic{v: "runtime error: index out of range (string)", stack: in.stack()})
	}
	return mkval(StrCode(StrAt(st, it)), types.Uint8)
}

// symSliceString: s[lo:hi] with bounds check.
func (in *interpreter) symSliceString(s, lo, hi value) value {
	st := mustTerm(s)
	l := IntLit(0)
	if lo != nil {
		l = mustTerm(lo)
	}
	h := StrLen(st)
	if hi != nil {
		h = mustTerm(hi)
	}
	inb := And(Ge(l, IntLit(0)), Le(l, h), Le(h, StrLen(st)))
	if !in.path.branch(inb) {
		panic(targetPanic{v: "runtime error: slice bounds out of range (string)", stack: in.stack()})
	}
	return mkval(in.nameTerm(Substr(st, l, Sub(h, l)), "slice"), types.String)
}

// nameTerm gives a compound string term a fresh name (v = term is assumed),
// so that later constraints mention v instead of a growing nest of
// substr/indexof/ite applications.
func (in *interpreter) nameTerm(t *Term, hint string) *Term {
	if t.lit || len(t.s) < 64 {
		return t
	}
	v := in.path.Fresh(hint, t.S)
	in.path.Assume(Eq(v, t))
	return v
}

// ---- rendering

func showValue(v value) string {
	switch v := v.(type) {
	case sym:
		return "‹" + v.t.s + "›"
	case string:
		return fmt.Sprintf("%q", v)
	case iface:
		if v.t == nil {
			return "nil"
		}
		return "(" + v.t.String() + ")" + showValue(v.v)
	case *value:
		if v == nil {
			return "nil"
		}
		return fmt.Sprintf("&%p", v)
	case structure:
		var parts []string
		for _, f := range v {
			parts = append(parts, showValue(f))
		}
		return "{" + strings.Join(parts, " ") + "}"
	case []value:
		var parts []string
		for _, f := range v {
			parts = append(parts, showValue(f))
		}
		return "[" + strings.Join(parts, " ") + "]"
	case *Term:
		return "‹" + v.s + "›"
	}
	return toString(v)
}

func panicString(v value) string {
	switch v := v.(type) {
	case string:
		return v
	case iface:
		if v.t == nil {
			return "nil"
		}
		if s, ok := v.v.(string); ok {
			return s
		}
		if st, ok := v.v.(structure); ok && len(st) > 0 {
			if s, ok := st[0].(string); ok {
				return v.t.String() + ": " + s
			}
		}
		if p, ok := v.v.(*value); ok && p != nil {
			if st, ok := (*p).(structure); ok && len(st) > 0 {
				if s, ok := st[0].(string); ok {
					return v.t.String() + ": " + s
				}
			}
		}
		return showValue(v)
	}
	return showValue(v)
}

const tokenLSS = token.LSS
