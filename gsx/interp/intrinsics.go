package interp

// Intrinsics: the harness API (package gsxrt), and environment functions with
// exact SMT semantics (strings, strconv) or event stubs (fmt, log, os).

import (
	"fmt"
	"go/types"
	"math/big"
	"os"
	"regexp"
	"sort"
	"strconv"
	"strings"

	"golang.org/x/tools/go/ssa"
)

// Go strings are byte sequences: every symbolic input string ranges over code points 0..255.
const byteStringRe = `(re.* (re.range "\u{0}" "\u{ff}"))`

const rtPkg = "github.com/go-critic/go-critic/gsxrt"

var intrinsics = map[string]externalFn{}

func reg(name string, fn externalFn) { intrinsics[name] = fn }

func goStr(v value) (string, bool) {
	s, ok := v.(string)
	return s, ok
}

func allConcrete(args []value) bool {
	for _, a := range args {
		if isSymbolic(a) {
			return false
		}
		if sl, ok := a.([]value); ok {
			for _, e := range sl {
				if isSymbolic(e) {
					return false
				}
			}
		}
	}
	return true
}

func strSliceVal(ss []string) value {
	out := make([]value, len(ss))
	for i, s := range ss {
		out[i] = s
	}
	return out
}

func goStrSlice(v value) []string {
	sl := v.([]value)
	out := make([]string, len(sl))
	for i, e := range sl {
		out[i] = e.(string)
	}
	return out
}

func strVal(t *Term) value { return mkval(t, types.String) }
func intVal(t *Term) value { return mkval(t, types.Int) }

func (fr *frame) path() *Path { return fr.i.path }

func nilError() value { return iface{} }

func init() {
	// ---------------- harness API
	reg(rtPkg+".String", func(fr *frame, args []value) value {
		name := args[0].(string)
		t := fr.path().Fresh(name, SStr)
		n := fr.path().ex.opts.bound("strlen", 16)
		fr.path().Assume(Le(StrLen(t), IntLit(int64(n))))
		return sym{t, types.String}
	})
	reg(rtPkg+".StringN", func(fr *frame, args []value) value {
		name := args[0].(string)
		t := fr.path().Fresh(name, SStr)
		fr.path().Assume(Le(StrLen(t), IntLit(asInt64(args[1]))))
		return sym{t, types.String}
	})
	reg(rtPkg+".Int", func(fr *frame, args []value) value {
		t := fr.path().Fresh(args[0].(string), SInt)
		lo, hi := kindRange(types.Int)
		fr.path().Assume(And(Ge(t, BigLit(lo)), Le(t, BigLit(hi))))
		return sym{t, types.Int}
	})
	reg(rtPkg+".Int64", func(fr *frame, args []value) value {
		t := fr.path().Fresh(args[0].(string), SInt)
		lo, hi := kindRange(types.Int64)
		fr.path().Assume(And(Ge(t, BigLit(lo)), Le(t, BigLit(hi))))
		return sym{t, types.Int64}
	})
	reg(rtPkg+".IntRange", func(fr *frame, args []value) value {
		t := fr.path().Fresh(args[0].(string), SInt)
		fr.path().Assume(And(Ge(t, IntLit(asInt64(args[1]))), Le(t, IntLit(asInt64(args[2])))))
		return sym{t, types.Int}
	})
	reg(rtPkg+".Bool", func(fr *frame, args []value) value {
		t := fr.path().Fresh(args[0].(string), SBool)
		return sym{t, types.Bool}
	})
	reg(rtPkg+".Choose", func(fr *frame, args []value) value {
		n := int(asInt64(args[1]))
		c := fr.path().choose(n)
		fr.path().recordChoice(args[0].(string), c)
		return c
	})
	reg(rtPkg+".Assume", func(fr *frame, args []value) value {
		switch c := args[0].(type) {
		case bool:
			if !c {
				panic(pathPruned{"assume"})
			}
		case sym:
			// keep only the side on which the assumption holds
			v, _ := fr.path().solver.Check(fr.path().pc, c.t, fr.path().sorts, false, nil)
			if v == Unsat {
				panic(pathPruned{"assume infeasible"})
			}
			fr.path().Assume(c.t)
		}
		return nil
	})
	reg(rtPkg+".Assert", func(fr *frame, args []value) value {
		msg := showValue(args[1])
		if s, ok := args[1].(string); ok {
			msg = s
		}
		fr.path().reached["assert:"+msg] = true
		fr.path().Assert(mustTerm(args[0]), msg)
		return nil
	})
	// Exits runs f and reports whether it ended the process (os.Exit, log.Fatal*).
	reg(rtPkg+".Exits", func(fr *frame, args []value) (res value) {
		res = false
		defer func() {
			if r := recover(); r != nil {
				if code, ok := r.(exitPanic); ok {
					fr.path().events = append(fr.path().events, Event{Kind: "exit", Args: []value{int(code)}})
					res = true
					return
				}
				panic(r)
			}
		}()
		call(fr.i, fr, 0, args[0], nil)
		return
	})
	reg(rtPkg+".Reached", func(fr *frame, args []value) value {
		fr.path().reached[args[0].(string)] = true
		return nil
	})
	reg(rtPkg+".Event", func(fr *frame, args []value) value {
		ev := Event{Kind: args[0].(string)}
		if len(args) > 1 {
			for _, a := range args[1].([]value) {
				ev.Args = append(ev.Args, a)
			}
		}
		fr.path().events = append(fr.path().events, ev)
		return nil
	})
	reg(rtPkg+".Matches", func(fr *frame, args []value) value {
		pat := args[0].(string)
		if s, ok := args[1].(string); ok {
			return regexp.MustCompile(pat).MatchString(s)
		}
		t, err := matchTerm(pat, mustTerm(args[1]), fr.path())
		if err != nil {
			panic(engineError{"gsxrt.Matches: " + err.Error()})
		}
		return boolVal(t)
	})
	reg(rtPkg+".Or", func(fr *frame, args []value) value {
		r := TFalse
		for _, a := range args[0].([]value) {
			r = Or(r, mustTerm(a))
		}
		return boolVal(r)
	})
	reg(rtPkg+".And", func(fr *frame, args []value) value {
		r := TTrue
		for _, a := range args[0].([]value) {
			r = And(r, mustTerm(a))
		}
		return boolVal(r)
	})
	reg(rtPkg+".Bound", func(fr *frame, args []value) value {
		v := fr.path().ex.opts.bound(args[0].(string), int(asInt64(args[1])))
		if fr.path().extraModel == nil {
			fr.path().extraModel = map[string]ModelVal{}
		}
		fr.path().extraModel["bound:"+args[0].(string)] = ModelVal{S: SInt, I: big.NewInt(int64(v))}
		return v
	})
	reg(rtPkg+".Count", func(fr *frame, args []value) value {
		r := IntLit(0)
		for _, a := range args[0].([]value) {
			r = Add(r, Ite(mustTerm(a), IntLit(1), IntLit(0)))
		}
		return intVal(r)
	})
	reg(rtPkg+".CaptureLog", func(fr *frame, args []value) value { return nil })
	reg(rtPkg+".LogLines", func(fr *frame, args []value) value {
		var out []value
		for _, e := range fr.path().events {
			switch e.Kind {
			case "log.Printf":
				if len(e.Args) > 0 {
					line := fr.i.symSprintf(e.Args[0], e.Args[1:])
					// the logger appends a newline only if missing; lines are reported without it
					if s, ok := line.(string); ok {
						line = strings.TrimSuffix(s, "\n")
					} else if t := mustTerm(line); strings.HasSuffix(t.s, `"\u{a}")`) {
						// term ends with a literal newline piece: rebuild without it
						if f, ok := e.Args[0].(string); ok && strings.HasSuffix(f, "\n") {
							line = fr.i.symSprintf(strings.TrimSuffix(f, "\n"), e.Args[1:])
						}
					}
					out = append(out, line)
				}
			case "log.Println", "log.Print":
				out = append(out, fr.i.symSprint(e.Args, false))
			}
		}
		return out
	})
	// OutLines: what was printed to standard output through fmt.Printf/Println so far
	// (Printf lines rendered with the format model; if an operand cannot be rendered,
	// the line is the space-separated string operands).
	reg(rtPkg+".OutLines", func(fr *frame, args []value) value {
		var out []value
		for _, e := range fr.path().events {
			if (e.Kind != "fmt.Printf" && e.Kind != "fmt.Println") || len(e.Args) == 0 {
				continue
			}
			ev := e
			line := func() (res value) {
				defer func() {
					if r := recover(); r != nil {
						if _, ok := r.(engineError); !ok {
							panic(r)
						}
						parts := []string{}
						for _, a := range ev.Args[1:] {
							if s, ok := a.(string); ok {
								parts = append(parts, s)
							}
						}
						res = strings.Join(parts, " ")
					}
				}()
				if ev.Kind == "fmt.Println" {
					return fr.i.symSprint(ev.Args, false)
				}
				return fr.i.symSprintf(ev.Args[0], ev.Args[1:])
			}()
			if s, ok := line.(string); ok {
				line = strings.TrimSuffix(s, "\n")
			}
			out = append(out, line)
		}
		return out
	})
	reg(rtPkg+".Symbolic", func(fr *frame, args []value) value { return true })
	reg(rtPkg+".Concrete", func(fr *frame, args []value) value {
		// Concrete(x string) string: fork over nothing; value must already be concrete
		return args[0]
	})

	// ---------------- strings
	reg("strings.HasPrefix", func(fr *frame, args []value) value {
		return boolVal(PrefixOf(mustTerm(args[1]), mustTerm(args[0])))
	})
	reg("strings.HasSuffix", func(fr *frame, args []value) value {
		return boolVal(SuffixOf(mustTerm(args[1]), mustTerm(args[0])))
	})
	reg("strings.Contains", func(fr *frame, args []value) value {
		return boolVal(Contains(mustTerm(args[0]), mustTerm(args[1])))
	})
	reg("strings.Index", func(fr *frame, args []value) value {
		return intVal(IndexOf(mustTerm(args[0]), mustTerm(args[1]), IntLit(0)))
	})
	reg("strings.IndexByte", func(fr *frame, args []value) value {
		return intVal(IndexOf(mustTerm(args[0]), StrFromCode(mustTerm(args[1])), IntLit(0)))
	})
	reg("strings.TrimPrefix", func(fr *frame, args []value) value {
		return memoPure(fr, "strings.TrimPrefix", args, func() value {
			if allConcrete(args) {
				return strings.TrimPrefix(args[0].(string), args[1].(string))
			}
			s, p := mustTerm(args[0]), mustTerm(args[1])
			if fr.path().branch(PrefixOf(p, s)) {
				t := fr.path().Fresh("trimprefix", SStr)
				fr.path().Assume(Eq(s, Concat(p, t)))
				return strVal(t)
			}
			return args[0]
		})
	})
	reg("strings.TrimSuffix", func(fr *frame, args []value) value {
		return memoPure(fr, "strings.TrimSuffix", args, func() value {
			if allConcrete(args) {
				return strings.TrimSuffix(args[0].(string), args[1].(string))
			}
			s, p := mustTerm(args[0]), mustTerm(args[1])
			if fr.path().branch(SuffixOf(p, s)) {
				t := fr.path().Fresh("trimsuffix", SStr)
				fr.path().Assume(Eq(s, Concat(t, p)))
				return strVal(t)
			}
			return args[0]
		})
	})
	reg("strings.Replace", func(fr *frame, args []value) value {
		if allConcrete(args) {
			return strings.Replace(args[0].(string), args[1].(string), args[2].(string), int(asInt64(args[3])))
		}
		s, o, n := mustTerm(args[0]), mustTerm(args[1]), mustTerm(args[2])
		if isSym(args[3]) {
			panic(engineError{"strings.Replace with symbolic count"})
		}
		switch cnt := asInt64(args[3]); {
		case cnt == 0:
			return args[0]
		case cnt == 1:
			// Go: an empty old matches at the beginning: same as SMT-LIB str.replace
			return strVal(StrReplace(s, o, n))
		case cnt < 0:
			if fr.path().branch(Eq(o, StrLit(""))) {
				panic(engineError{"strings.Replace(…, \"\", …, -1) not modelled"})
			}
			return strVal(StrReplaceAll(s, o, n))
		}
		panic(engineError{"strings.Replace with count > 1 not modelled"})
	})
	reg("strings.ReplaceAll", func(fr *frame, args []value) value {
		if allConcrete(args) {
			return strings.ReplaceAll(args[0].(string), args[1].(string), args[2].(string))
		}
		s, o, n := mustTerm(args[0]), mustTerm(args[1]), mustTerm(args[2])
		if fr.path().branch(Eq(o, StrLit(""))) {
			panic(engineError{"strings.ReplaceAll with empty old not modelled"})
		}
		return strVal(StrReplaceAll(s, o, n))
	})
	reg("strings.Split", func(fr *frame, args []value) value {
		return memoPure(fr, "strings.Split", args, func() value {
			if allConcrete(args) {
				return strSliceVal(strings.Split(args[0].(string), args[1].(string)))
			}
			sep, ok := args[1].(string)
			if !ok || sep == "" {
				panic(engineError{"strings.Split with symbolic or empty separator"})
			}
			return fr.i.symSplit(mustTerm(args[0]), sep)
		})
	})
	reg("strings.Join", func(fr *frame, args []value) value {
		elems := args[0].([]value)
		sep := mustTerm(args[1])
		acc := StrLit("")
		for i, e := range elems {
			if i > 0 {
				acc = Concat(acc, sep)
			}
			acc = Concat(acc, mustTerm(e))
		}
		return strVal(acc)
	})
	reg("strings.TrimSpace", func(fr *frame, args []value) value {
		return memoPure(fr, "strings.TrimSpace", args, func() value {
			if s, ok := goStr(args[0]); ok {
				return strings.TrimSpace(s)
			}
			// result r: s = l ++ r ++ t, l and t whitespace, r has no leading/trailing whitespace (ASCII)
			s := mustTerm(args[0])
			p := fr.path()
			// fast path: already trimmed (no leading / trailing white space)
			{
				ws := `(re.union (str.to_re " ") (re.range "\u{9}" "\u{d}"))`
				nws := `(re.diff re.allchar ` + ws + `)`
				trimmed := InRe(s, `(re.union (str.to_re "") `+nws+` (re.++ `+nws+` re.all `+nws+`))`)
				if p.branch(trimmed) {
					return args[0]
				}
			}
			l := p.Fresh("trimspace.l", SStr)
			r := p.Fresh("trimspace.r", SStr)
			t := p.Fresh("trimspace.t", SStr)
			ws := `(re.union (str.to_re " ") (re.range "\u{9}" "\u{d}"))`
			nws := `(re.diff re.allchar ` + ws + `)`
			p.Assume(Eq(s, Concat(Concat(l, r), t)))
			p.Assume(InRe(l, "(re.* "+ws+")"))
			p.Assume(InRe(t, "(re.* "+ws+")"))
			p.Assume(InRe(r, `(re.union (str.to_re "") `+nws+` (re.++ `+nws+` re.all `+nws+`))`))
			return strVal(r)
		})
	})
	reg("strings.ToLower", func(fr *frame, args []value) value {
		if s, ok := goStr(args[0]); ok {
			return strings.ToLower(s)
		}
		panic(engineError{"strings.ToLower on symbolic string"})
	})
	reg("strings.ToUpper", func(fr *frame, args []value) value {
		if s, ok := goStr(args[0]); ok {
			return strings.ToUpper(s)
		}
		panic(engineError{"strings.ToUpper on symbolic string"})
	})
	reg("strings.EqualFold", func(fr *frame, args []value) value {
		if allConcrete(args) {
			return strings.EqualFold(args[0].(string), args[1].(string))
		}
		// one side concrete (ASCII): a regular-language membership
		for k := 0; k < 2; k++ {
			c, ok := args[k].(string)
			if !ok {
				continue
			}
			var parts []string
			for i := 0; i < len(c); i++ {
				lo, up := strings.ToLower(c[i:i+1]), strings.ToUpper(c[i:i+1])
				if c[i] >= 0x80 {
					panic(engineError{"strings.EqualFold with a non-ASCII constant"})
				}
				if lo != up {
					parts = append(parts, "(re.union (str.to_re "+smtString(lo)+") (str.to_re "+smtString(up)+"))")
				} else {
					parts = append(parts, "(str.to_re "+smtString(lo)+")")
				}
			}
			re := `(str.to_re "")`
			if len(parts) == 1 {
				re = parts[0]
			} else if len(parts) > 1 {
				re = "(re.++ " + strings.Join(parts, " ") + ")"
			}
			return boolVal(InRe(mustTerm(args[1-k]), re))
		}
		panic(engineError{"strings.EqualFold on two symbolic strings"})
	})
	reg("strings.Count", func(fr *frame, args []value) value {
		if allConcrete(args) {
			return strings.Count(args[0].(string), args[1].(string))
		}
		panic(engineError{"strings.Count on symbolic string"})
	})
	reg("strings.Fields", func(fr *frame, args []value) value {
		if allConcrete(args) {
			return strSliceVal(strings.Fields(args[0].(string)))
		}
		panic(engineError{"strings.Fields on symbolic string"})
	})
	reg("strings.Repeat", func(fr *frame, args []value) value {
		if allConcrete(args) {
			return strings.Repeat(args[0].(string), int(asInt64(args[1])))
		}
		panic(engineError{"strings.Repeat on symbolic"})
	})
	reg("strings.LastIndex", func(fr *frame, args []value) value {
		if allConcrete(args) {
			return strings.LastIndex(args[0].(string), args[1].(string))
		}
		panic(engineError{"strings.LastIndex on symbolic"})
	})
	reg("strings.LastIndexByte", func(fr *frame, args []value) value {
		if allConcrete(args) {
			return strings.LastIndexByte(args[0].(string), args[1].(byte))
		}
		panic(engineError{"strings.LastIndexByte on symbolic"})
	})
	reg("strings.IndexAny", func(fr *frame, args []value) value {
		if allConcrete(args) {
			return strings.IndexAny(args[0].(string), args[1].(string))
		}
		panic(engineError{"strings.IndexAny on symbolic"})
	})
	reg("strings.ContainsAny", func(fr *frame, args []value) value {
		if allConcrete(args) {
			return strings.ContainsAny(args[0].(string), args[1].(string))
		}
		s := mustTerm(args[0])
		chars, ok := args[1].(string)
		if !ok {
			panic(engineError{"strings.ContainsAny with symbolic chars"})
		}
		res := TFalse
		for i := 0; i < len(chars); i++ {
			res = Or(res, Contains(s, StrLit(chars[i:i+1])))
		}
		return boolVal(res)
	})
	reg("strings.ContainsRune", func(fr *frame, args []value) value {
		if allConcrete(args) {
			return strings.ContainsRune(args[0].(string), args[1].(rune))
		}
		return boolVal(Contains(mustTerm(args[0]), StrFromCode(mustTerm(args[1]))))
	})
	reg("strings.IndexRune", func(fr *frame, args []value) value {
		if allConcrete(args) {
			return strings.IndexRune(args[0].(string), args[1].(rune))
		}
		return intVal(IndexOf(mustTerm(args[0]), StrFromCode(mustTerm(args[1])), IntLit(0)))
	})
	reg("strings.Cut", func(fr *frame, args []value) value {
		return memoPure(fr, "strings.Cut", args, func() value {
			if allConcrete(args) {
				b, a, f := strings.Cut(args[0].(string), args[1].(string))
				return tuple{b, a, f}
			}
			s, sep := mustTerm(args[0]), mustTerm(args[1])
			idx := IndexOf(s, sep, IntLit(0))
			if fr.path().branch(Ge(idx, IntLit(0))) {
				after := Add(idx, StrLen(sep))
				return tuple{strVal(Substr(s, IntLit(0), idx)), strVal(Substr(s, after, Sub(StrLen(s), after))), true}
			}
			return tuple{args[0], "", false}
		})
	})
	reg("strings.Title", func(fr *frame, args []value) value {
		if allConcrete(args) {
			return strings.Title(args[0].(string))
		}
		panic(engineError{"strings.Title on symbolic"})
	})
	reg("strings.TrimLeft", func(fr *frame, args []value) value {
		if allConcrete(args) {
			return strings.TrimLeft(args[0].(string), args[1].(string))
		}
		panic(engineError{"strings.TrimLeft on symbolic"})
	})
	reg("strings.TrimRight", func(fr *frame, args []value) value {
		if allConcrete(args) {
			return strings.TrimRight(args[0].(string), args[1].(string))
		}
		panic(engineError{"strings.TrimRight on symbolic"})
	})
	reg("strings.Trim", func(fr *frame, args []value) value {
		if allConcrete(args) {
			return strings.Trim(args[0].(string), args[1].(string))
		}
		panic(engineError{"strings.Trim on symbolic"})
	})
	reg("strings.Compare", func(fr *frame, args []value) value {
		if allConcrete(args) {
			return strings.Compare(args[0].(string), args[1].(string))
		}
		a, b := mustTerm(args[0]), mustTerm(args[1])
		return intVal(Ite(Eq(a, b), IntLit(0), Ite(StrLt(a, b), IntLit(-1), IntLit(1))))
	})

	// strings.Builder (its String method uses unsafe)
	builderBuf := func(fr *frame, recv value) *value {
		p := recv.(*value)
		if p == nil {
			fr.i.nilDeref()
		}
		st := (*p).(structure)
		return &st[len(st)-1]
	}
	reg("(*strings.Builder).String", func(fr *frame, args []value) value {
		buf, _ := (*builderBuf(fr, args[0])).([]value)
		return fr.i.conv(types.Typ[types.String], types.NewSlice(types.Typ[types.Uint8]), buf)
	})
	reg("(*strings.Builder).Len", func(fr *frame, args []value) value {
		buf, _ := (*builderBuf(fr, args[0])).([]value)
		return len(buf)
	})
	reg("(*strings.Builder).Reset", func(fr *frame, args []value) value {
		fr.i.setCell(builderBuf(fr, args[0]), []value(nil))
		return nil
	})
	reg("(*strings.Builder).Grow", func(fr *frame, args []value) value { return nil })
	bappend := func(fr *frame, recv value, bs []value) {
		cell := builderBuf(fr, recv)
		buf, _ := (*cell).([]value)
		nb := make([]value, 0, len(buf)+len(bs))
		nb = append(append(nb, buf...), bs...)
		fr.i.setCell(cell, nb)
	}
	reg("(*strings.Builder).WriteString", func(fr *frame, args []value) value {
		var bs []value
		switch s := args[1].(type) {
		case string:
			for i := 0; i < len(s); i++ {
				bs = append(bs, s[i])
			}
		case sym:
			bs = fr.i.symStringToBytes(s, types.NewSlice(types.Typ[types.Uint8])).([]value)
		}
		bappend(fr, args[0], bs)
		return tuple{len(bs), nilError()}
	})
	reg("(*strings.Builder).WriteByte", func(fr *frame, args []value) value {
		bappend(fr, args[0], []value{args[1]})
		return nilError()
	})
	reg("(*strings.Builder).WriteRune", func(fr *frame, args []value) value {
		r, ok := args[1].(int32)
		if !ok {
			bappend(fr, args[0], []value{mkval(mustTerm(args[1]), types.Uint8)})
			return tuple{1, nilError()}
		}
		s := string(r)
		var bs []value
		for i := 0; i < len(s); i++ {
			bs = append(bs, s[i])
		}
		bappend(fr, args[0], bs)
		return tuple{len(bs), nilError()}
	})
	reg("(*strings.Builder).Write", func(fr *frame, args []value) value {
		bs := args[1].([]value)
		bappend(fr, args[0], bs)
		return tuple{len(bs), nilError()}
	})

	// ---------------- strconv
	reg("strconv.Itoa", func(fr *frame, args []value) value {
		if v, ok := args[0].(int); ok {
			return strconv.Itoa(v)
		}
		t := mustTerm(args[0])
		return strVal(Ite(Ge(t, IntLit(0)), StrFromInt(t), Concat(StrLit("-"), StrFromInt(Neg(t)))))
	})
	reg("strconv.Atoi", func(fr *frame, args []value) value {
		return memoPure(fr, "strconv.Atoi", args, func() value {
			return fr.i.symAtoi(fr, args[0], "Atoi")
		})
	})
	reg("strconv.Quote", func(fr *frame, args []value) value {
		if s, ok := goStr(args[0]); ok {
			return strconv.Quote(s)
		}
		// approximation, flagged: only exact for strings without characters needing escapes
		s := mustTerm(args[0])
		return strVal(Concat(Concat(StrLit(`"`), s), StrLit(`"`)))
	})
	reg("strconv.Unquote", func(fr *frame, args []value) value {
		if s, ok := goStr(args[0]); ok {
			r, err := strconv.Unquote(s)
			if err != nil {
				return tuple{"", fr.i.mkError("strconv.Unquote: " + err.Error())}
			}
			return tuple{r, nilError()}
		}
		panic(engineError{"strconv.Unquote on symbolic"})
	})
	reg("strconv.ParseInt", func(fr *frame, args []value) value {
		if allConcrete(args) {
			v, err := strconv.ParseInt(args[0].(string), int(asInt64(args[1])), int(asInt64(args[2])))
			if err != nil {
				return tuple{v, fr.i.mkError(err.Error())}
			}
			return tuple{v, nilError()}
		}
		if b, ok := args[1].(int); ok && b == 10 {
			r := fr.i.symAtoi(fr, args[0], "ParseInt").(tuple)
			return tuple{fr.i.conv(types.Typ[types.Int64], types.Typ[types.Int], r[0]), r[1]}
		}
		if b, ok := args[1].(int); ok && b == 0 {
			return fr.i.symParseIntBase0(fr, args[0])
		}
		panic(engineError{"strconv.ParseInt symbolic with base other than 0 or 10"})
	})
	reg("strconv.FormatInt", func(fr *frame, args []value) value {
		if allConcrete(args) {
			return strconv.FormatInt(args[0].(int64), int(asInt64(args[1])))
		}
		if b, ok := args[1].(int); ok && b == 10 {
			t := mustTerm(args[0])
			return strVal(Ite(Ge(t, IntLit(0)), StrFromInt(t), Concat(StrLit("-"), StrFromInt(Neg(t)))))
		}
		panic(engineError{"strconv.FormatInt symbolic with base != 10"})
	})
	reg("strconv.ParseBool", func(fr *frame, args []value) value {
		if allConcrete(args) {
			v, err := strconv.ParseBool(args[0].(string))
			if err != nil {
				return tuple{v, fr.i.mkError(err.Error())}
			}
			return tuple{v, nilError()}
		}
		panic(engineError{"strconv.ParseBool symbolic"})
	})

	// ---------------- fmt / log / os: event stubs
	reg("fmt.Sprintf", func(fr *frame, args []value) value {
		return fr.i.symSprintf(args[0], args[1].([]value))
	})
	reg("fmt.Sscanf", func(fr *frame, args []value) value {
		return fr.i.symSscanf(args[0], args[1], args[2].([]value))
	})
	reg("fmt.Sprint", func(fr *frame, args []value) value {
		return fr.i.symSprint(args[0].([]value), false)
	})
	reg("fmt.Sprintln", func(fr *frame, args []value) value {
		return fr.i.symSprint(args[0].([]value), true)
	})
	reg("fmt.Errorf", func(fr *frame, args []value) value {
		msg := fr.i.symSprintf(args[0], args[1].([]value))
		var wrapped value
		if f, ok := args[0].(string); ok && strings.Contains(f, "%w") {
			for _, a := range args[1].([]value) {
				if it, ok := a.(iface); ok && it.t != nil && types.Implements(it.t, errorIface()) {
					wrapped = it
				}
			}
		}
		return fr.i.mkErrorV(msg, wrapped)
	})
	reg("errors.New", func(fr *frame, args []value) value {
		return fr.i.mkErrorV(args[0], nil)
	})
	for _, n := range []string{"fmt.Printf", "fmt.Println", "fmt.Print", "fmt.Fprintf", "fmt.Fprintln", "fmt.Fprint"} {
		n := n
		reg(n, func(fr *frame, args []value) value {
			fr.path().events = append(fr.path().events, Event{Kind: n, Args: flattenArgs(args)})
			return tuple{0, nilError()}
		})
	}
	for _, n := range []string{"log.Printf", "log.Println", "log.Print"} {
		n := n
		reg(n, func(fr *frame, args []value) value {
			if fr.path() != nil {
				fr.path().events = append(fr.path().events, Event{Kind: n, Args: flattenArgs(args)})
			}
			return nil
		})
	}
	for _, n := range []string{"log.Fatalf", "log.Fatal", "log.Fatalln"} {
		n := n
		reg(n, func(fr *frame, args []value) value {
			fr.path().events = append(fr.path().events, Event{Kind: n, Args: flattenArgs(args)})
			panic(exitPanic(1))
		})
	}
	for _, n := range []string{"log.Panicf", "log.Panic", "log.Panicln"} {
		n := n
		reg(n, func(fr *frame, args []value) value {
			fr.path().events = append(fr.path().events, Event{Kind: n, Args: flattenArgs(args)})
			panic(targetPanic{v: "log.Panic: " + showValue(flattenArgs(args)), stack: fr.i.stack()})
		})
	}
	reg("log.SetFlags", func(fr *frame, args []value) value { return nil })
	reg("os.Exit", func(fr *frame, args []value) value {
		code := args[0]
		if s, ok := code.(sym); ok {
			fr.path().events = append(fr.path().events, Event{Kind: "os.Exit", Args: []value{s}})
			panic(exitPanic(-999))
		}
		fr.path().events = append(fr.path().events, Event{Kind: "os.Exit", Args: []value{code}})
		panic(exitPanic(asInt64(code)))
	})
	reg("os.Getenv", func(fr *frame, args []value) value { return os.Getenv(args[0].(string)) })

	// ---------------- sync (execution is sequentialised)
	for _, n := range []string{"(*sync.Mutex).Lock", "(*sync.Mutex).Unlock", "(*sync.RWMutex).Lock", "(*sync.RWMutex).Unlock",
		"(*sync.RWMutex).RLock", "(*sync.RWMutex).RUnlock", "(*sync.WaitGroup).Add", "(*sync.WaitGroup).Done", "(*sync.WaitGroup).Wait"} {
		n := n
		reg(n, func(fr *frame, args []value) value {
			if fr.path() != nil {
				fr.path().events = append(fr.path().events, Event{Kind: n})
			}
			return nil
		})
	}
	reg("(*sync.Once).Do", func(fr *frame, args []value) value {
		p := args[0].(*value)
		key := fmt.Sprintf("once:%p", p)
		if fr.i.onceInit[key] {
			return nil // done during package initialisation
		}
		if fr.path() != nil {
			if _, done := fr.path().memo[key]; done {
				return nil
			}
			fr.path().memo[key] = true
		} else {
			if fr.i.onceInit == nil {
				fr.i.onceInit = map[string]bool{}
			}
			fr.i.onceInit[key] = true
		}
		call(fr.i, fr, 0, args[1], nil)
		return nil
	})

	// ---------------- sort
	reg("sort.Strings", func(fr *frame, args []value) value {
		sl := args[0].([]value)
		fr.i.insertionSort(len(sl), func(a, b int) bool {
			return fr.i.truth(fr.i.binop(tokenLSS, types.Typ[types.String], sl[a], sl[b]))
		}, func(a, b int) {
			x, y := sl[a], sl[b]
			fr.i.setCell(&sl[a], y)
			fr.i.setCell(&sl[b], x)
		})
		return nil
	})
	sortSlice := func(fr *frame, args []value) value {
		it := fr.i.asIface(args[0])
		sl, _ := it.v.([]value)
		less := args[1]
		fr.i.insertionSort(len(sl), func(a, b int) bool {
			return fr.i.truth(call(fr.i, fr, 0, less, []value{a, b}))
		}, func(a, b int) {
			x, y := sl[a], sl[b]
			fr.i.setCell(&sl[a], y)
			fr.i.setCell(&sl[b], x)
		})
		return nil
	}
	reg("sort.Slice", sortSlice)
	reg("sort.SliceStable", sortSlice)
	reg("sort.Ints", func(fr *frame, args []value) value {
		sl := args[0].([]value)
		ints := make([]int, len(sl))
		for i, v := range sl {
			ints[i] = v.(int)
		}
		sort.Ints(ints)
		for i := range sl {
			fr.i.setCell(&sl[i], ints[i])
		}
		return nil
	})
}

// memoPure caches the result of a pure intrinsic per path, keyed by the
// argument terms: a repeated call takes no new fork and creates no new
// symbolic constants (the decisions of the first call are in the path condition).
func memoPure(fr *frame, name string, args []value, f func() value) value {
	p := fr.path()
	if p == nil {
		return f()
	}
	var b strings.Builder
	b.WriteString("pure:" + name)
	for _, a := range args {
		t, ok := termOf(a)
		if !ok {
			return f()
		}
		b.WriteByte('\x00')
		b.WriteString(t.s)
	}
	key := b.String()
	if r, ok := p.memo[key]; ok {
		return r
	}
	r := f()
	p.memo[key] = r
	return r
}

func flattenArgs(args []value) []value {
	var out []value
	for _, a := range args {
		if sl, ok := a.([]value); ok {
			out = append(out, sl...)
		} else {
			out = append(out, a)
		}
	}
	return out
}

var errIface *types.Interface

func errorIface() *types.Interface {
	if errIface == nil {
		errIface = types.Universe.Lookup("error").Type().Underlying().(*types.Interface)
	}
	return errIface
}

// insertionSort is a stable sort driven by a (possibly forking) comparison.
func (i *interpreter) insertionSort(n int, less func(a, b int) bool, swap func(a, b int)) {
	for a := 1; a < n; a++ {
		for b := a; b > 0 && less(b, b-1); b-- {
			swap(b, b-1)
		}
	}
}

// mkError builds an error value with the given message: *errors.errorString.
func (i *interpreter) mkError(msg string) value { return i.mkErrorV(msg, nil) }

func (i *interpreter) mkErrorV(msg value, wrapped value) value {
	if wrapped != nil {
		if fp := i.prog.ImportedPackage("fmt"); fp != nil {
			if t := fp.Type("wrapError"); t != nil {
				cell := value(structure{msg, wrapped})
				return iface{t: types.NewPointer(t.Type()), v: &cell}
			}
		}
	}
	ep := i.prog.ImportedPackage("errors")
	if ep == nil {
		panic(engineError{"errors package not loaded"})
	}
	t := ep.Type("errorString")
	cell := value(structure{msg})
	return iface{t: types.NewPointer(t.Type()), v: &cell}
}

// symSplit models strings.Split(s, sep) for a concrete non-empty sep: the
// number of parts is decided by forking (1..maxparts); parts are fresh
// strings not containing sep whose join is s.
func (i *interpreter) symSplit(s *Term, sep string) value {
	p := i.path
	maxParts := p.ex.opts.bound("splitparts", 4)
	sepT := StrLit(sep)
	// count occurrences by forking on structure: s = p0 sep p1 sep ... pk, sep not in pj
	var parts []*Term
	rest := s
	for k := 0; ; k++ {
		if k >= maxParts {
			// more separators than the bound: cut
			p.reached["bound:split-cut"] = true
			p.Assume(Not(Contains(rest, sepT)))
		}
		if !p.branch(Contains(rest, sepT)) {
			parts = append(parts, rest)
			break
		}
		part := p.Fresh("split.part", SStr)
		rest2 := p.Fresh("split.rest", SStr)
		if len(sep) == 1 {
			// word equation; unique decomposition for a one-byte separator
			p.Assume(Eq(rest, Concat(Concat(part, sepT), rest2)))
			p.Assume(Not(Contains(part, sepT)))
		} else {
			idx := IndexOf(rest, sepT, IntLit(0))
			after := Add(idx, IntLit(int64(len(sep))))
			p.Assume(Eq(part, Substr(rest, IntLit(0), idx)))
			p.Assume(Eq(rest2, Substr(rest, after, Sub(StrLen(rest), after))))
		}
		parts = append(parts, part)
		rest = rest2
	}
	out := make([]value, len(parts))
	for k, t := range parts {
		out[k] = strVal(t)
	}
	return out
}

// symAtoi models strconv.Atoi / ParseInt(s, 10, 64).
func (i *interpreter) symAtoi(fr *frame, sv value, fn string) value {
	if s, ok := sv.(string); ok {
		v, err := strconv.Atoi(s)
		if err != nil {
			return tuple{v, i.mkNumError(fn, s, err.(*strconv.NumError).Err.Error())}
		}
		return tuple{v, nilError()}
	}
	s := mustTerm(sv)
	p := i.path
	neg := PrefixOf(StrLit("-"), s)
	plus := PrefixOf(StrLit("+"), s)
	digits := Ite(Or(neg, plus), Substr(s, IntLit(1), Sub(StrLen(s), IntLit(1))), s)
	n := StrToInt(digits)
	val := Ite(neg, Neg(n), n)
	lo, hi := kindRange(types.Int64)
	// syntax as a regular-language membership (solvers refute these much faster than str.to_int >= 0)
	syntaxOK := InRe(s, `(re.++ (re.opt (re.union (str.to_re "+") (str.to_re "-"))) (re.+ (re.range "0" "9")))`)
	// up to 18 digits always fit in int64: decided by length reasoning alone
	rangeOK := Or(Le(StrLen(digits), IntLit(18)), And(Ge(val, BigLit(lo)), Le(val, BigLit(hi))))
	switch p.fork([]*Term{And(syntaxOK, rangeOK), Not(syntaxOK), And(syntaxOK, Not(rangeOK))}) {
	case 0:
		return tuple{mkval(val, types.Int), nilError()}
	case 1:
		return tuple{0, i.mkNumError(fn, sv, "invalid syntax")}
	default:
		clamp := Ite(neg, BigLit(lo), BigLit(hi))
		return tuple{mkval(clamp, types.Int), i.mkNumError(fn, sv, "value out of range")}
	}
}

func (i *interpreter) mkNumError(fn string, num value, msg string) value {
	sp := i.prog.ImportedPackage("strconv")
	if sp == nil {
		return i.mkError("strconv." + fn + ": " + msg)
	}
	t := sp.Type("NumError")
	cell := value(structure{fn, num, i.mkError(msg)})
	return iface{t: types.NewPointer(t.Type()), v: &cell}
}

// fmtArgTerm renders one Sprintf argument under a verb as a string term.
func (i *interpreter) fmtArgTerm(verb byte, a value) *Term {
	if it, ok := a.(iface); ok {
		if it.t == nil {
			return StrLit("<nil>")
		}
		// error / Stringer values: call Error()/String() when available
		if verb == 'v' || verb == 's' || verb == 'w' || verb == 'q' {
			for _, m := range []string{"Error", "String"} {
				if fn := i.lookupMethodSafe(it.t, m); fn != nil && fn.Signature.Params().Len() == 0 && fn.Signature.Results().Len() == 1 &&
					basicKind(fn.Signature.Results().At(0).Type()) == types.String {
					r := call(i, i.cur, 0, fn, []value{it.v})
					return i.fmtArgTerm(verb, r)
				}
			}
		}
		a = it.v
	}
	switch v := a.(type) {
	case string:
		switch verb {
		case 'q':
			return StrLit(strconv.Quote(v))
		}
		return StrLit(v)
	case bool:
		return StrLit(strconv.FormatBool(v))
	case sym:
		switch v.k {
		case types.String:
			if verb == 'q' {
				return Concat(Concat(StrLit(`"`), v.t), StrLit(`"`))
			}
			return v.t
		case types.Bool:
			return Ite(v.t, StrLit("true"), StrLit("false"))
		default:
			return Ite(Ge(v.t, IntLit(0)), StrFromInt(v.t), Concat(StrLit("-"), StrFromInt(Neg(v.t))))
		}
	}
	if t, ok := termOf(a); ok && t.S == SInt {
		return StrLit(t.i.String())
	}
	return StrLit("‹" + showValue(a) + "›")
}

// symSprintf is a model of fmt.Sprintf: exact for %s/%v/%d of strings, bools
// and non-negative/negative integers, %q approximated by plain quoting;
// other verbs render a placeholder. Formatting is not the subject of any
// harness that relies on this model (messages are only compared structurally).
func (i *interpreter) symSprintf(format value, args []value) value {
	f, ok := format.(string)
	if !ok {
		return strVal(Concat(mustTerm(format), StrLit("‹args›")))
	}
	acc := StrLit("")
	argi := 0
	for k := 0; k < len(f); k++ {
		c := f[k]
		if c != '%' {
			acc = Concat(acc, StrLit(string([]byte{c})))
			continue
		}
		k++
		for k < len(f) && strings.IndexByte("+-# 0123456789.", f[k]) >= 0 {
			k++
		}
		if k >= len(f) {
			break
		}
		if f[k] == '%' {
			acc = Concat(acc, StrLit("%"))
			continue
		}
		if argi >= len(args) {
			acc = Concat(acc, StrLit("%!"+string([]byte{f[k]})+"(MISSING)"))
			continue
		}
		acc = Concat(acc, i.fmtArgTerm(f[k], args[argi]))
		argi++
	}
	if argi < len(args) {
		acc = Concat(acc, StrLit("%!(EXTRA)"))
	}
	return strVal(acc)
}

func (i *interpreter) symSprint(args []value, ln bool) value {
	acc := StrLit("")
	for k, a := range args {
		if k > 0 && ln {
			acc = Concat(acc, StrLit(" "))
		}
		acc = Concat(acc, i.fmtArgTerm('v', a))
	}
	if ln {
		acc = Concat(acc, StrLit("\n"))
	}
	return strVal(acc)
}

var _ = big.NewInt
var _ ssa.Value

func (i *interpreter) lookupMethodSafe(t types.Type, name string) *ssa.Function {
	ms := i.prog.MethodSets.MethodSet(t)
	for k := 0; k < ms.Len(); k++ {
		sel := ms.At(k)
		if sel.Obj().Name() == name && sel.Obj().Exported() {
			return i.prog.MethodValue(sel)
		}
	}
	return nil
}

// symParseIntBase0 models strconv.ParseInt(s, 0, 64) for the spellings a Go
// integer literal of up to 6 bytes can have without a sign: decimal, octal
// with a leading 0 (or 0o), hexadecimal 0x, binary 0b; underscores are not modelled
// (such texts take the syntax-error path, as do all others).
func (i *interpreter) symParseIntBase0(fr *frame, sv value) value {
	s := mustTerm(sv)
	p := i.path
	dec := InRe(s, `(re.union (str.to_re "0") (re.++ (re.range "1" "9") (re.* (re.range "0" "9"))))`)
	oct := InRe(s, `(re.++ (str.to_re "0") (re.opt (re.union (str.to_re "o") (str.to_re "O"))) (re.+ (re.range "0" "7")))`)
	hex := InRe(s, `(re.++ (str.to_re "0") (re.union (str.to_re "x") (str.to_re "X")) (re.+ (re.union (re.range "0" "9") (re.range "a" "f") (re.range "A" "F"))))`)
	bin := InRe(s, `(re.++ (str.to_re "0") (re.union (str.to_re "b") (str.to_re "B")) (re.+ (re.range "0" "1")))`)
	switch p.fork([]*Term{dec, oct, hex, bin, Not(Or(dec, oct, hex, bin))}) {
	case 0:
		p.Assume(Le(StrLen(s), IntLit(18)))
		return tuple{mkval(StrToInt(s), types.Int64), nilError()}
	case 4:
		return tuple{int64(0), i.mkNumError("ParseInt", sv, "invalid syntax")}
	}
	// positional notation: fix the length, then sum the digits
	n := i.concretizeInt(StrLen(s), 2, 6)
	base, start := int64(8), 1
	code := func(k int) *Term { return StrCode(StrAt(s, IntLit(int64(k)))) }
	c1 := code(1)
	switch {
	case p.branch(Or(Eq(c1, IntLit('x')), Eq(c1, IntLit('X')))):
		base, start = 16, 2
	case p.branch(Or(Eq(c1, IntLit('b')), Eq(c1, IntLit('B')))):
		base, start = 2, 2
	case p.branch(Or(Eq(c1, IntLit('o')), Eq(c1, IntLit('O')))):
		base, start = 8, 2
	}
	val := IntLit(0)
	for k := start; k < n; k++ {
		c := code(k)
		d := Ite(Le(c, IntLit('9')), Sub(c, IntLit('0')), Ite(Le(c, IntLit('F')), Sub(c, IntLit('A'-10)), Sub(c, IntLit('a'-10))))
		val = Add(Mul(val, IntLit(base)), d)
	}
	return tuple{mkval(val, types.Int64), nilError()}
}

// symSscanf models fmt.Sscanf for a concrete format made of %d verbs and
// literal non-space bytes, with *int operands (fmt/scan.go): before a number
// blanks (space, tab, CR) are skipped, an optional sign and a maximal run of
// [0-9_] is taken and parsed in base 10 (an underscore makes it fail); a
// literal must match the next input byte; input left over after the format
// is ignored. A symbolic input is decomposed by a word equation.
func (i *interpreter) symSscanf(sv, fv value, ops []value) value {
	format, ok := fv.(string)
	if !ok {
		panic(engineError{"fmt.Sscanf with a symbolic format"})
	}
	p := i.path
	s := mustTerm(sv)
	const blanks = `(re.* (re.union (str.to_re " ") (str.to_re "\u{9}") (str.to_re "\u{d}")))`
	const sign = `(re.opt (re.union (str.to_re "+") (str.to_re "-")))`
	const digits = `(re.+ (re.range "0" "9"))`
	// rest: empty or starting with a byte that cannot extend the last number
	const restRe = `(re.union (str.to_re "") (re.++ (re.diff re.allchar (re.union (re.range "0" "9") (str.to_re "_"))) re.all))`
	type numPart struct{ sign, digits *Term }
	var parts []*Term
	var nums []numPart
	var res []string
	lastWasNum := false
	for k := 0; k < len(format); k++ {
		c := format[k]
		if c == '%' && k+1 < len(format) && format[k+1] == 'd' {
			k++
			w := p.Fresh("scan.blank", SStr)
			g := p.Fresh("scan.sign", SStr)
			d := p.Fresh("scan.digits", SStr)
			parts = append(parts, w, g, d)
			res = append(res, blanks, sign, digits)
			nums = append(nums, numPart{g, d})
			lastWasNum = true
			continue
		}
		if c == '%' || c == ' ' || c == '\n' || c == '\t' || (lastWasNum && (c >= '0' && c <= '9' || c == '_')) {
			panic(engineError{"fmt.Sscanf format not modelled: " + format})
		}
		parts = append(parts, StrLit(string(c)))
		res = append(res, "")
		lastWasNum = false
	}
	if len(nums) != len(ops) || !lastWasNum {
		panic(engineError{"fmt.Sscanf format not modelled: " + format})
	}
	rest := p.Fresh("scan.rest", SStr)
	whole := StrLit("")
	conds := []*Term{}
	full := ""
	for k, t := range parts {
		whole = Concat(whole, t)
		if res[k] != "" {
			conds = append(conds, InRe(t, res[k]))
			full += " " + res[k]
		} else {
			full += " (str.to_re " + t.String() + ")"
		}
	}
	whole = Concat(whole, rest)
	matches := InRe(s, "(re.++"+full+" "+restRe+")")
	if p.branch(matches) {
		p.Assume(Eq(s, whole))
		for _, c := range conds {
			p.Assume(c)
		}
		p.Assume(InRe(rest, restRe))
		for k, n := range nums {
			v := StrToInt(n.digits)
			val := Ite(Eq(n.sign, StrLit("-")), Neg(v), v)
			ptr, ok := ops[k].(iface)
			if !ok {
				panic(engineError{"fmt.Sscanf operand"})
			}
			cell, ok := ptr.v.(*value)
			if !ok || cell == nil {
				panic(engineError{"fmt.Sscanf operand is not a pointer"})
			}
			i.store(types.Typ[types.Int], cell, mkval(val, types.Int))
		}
		return tuple{len(nums), nilError()}
	}
	// failure: how many operands were assigned before is not modelled beyond "fewer than all"
	return tuple{0, i.mkError("input does not match format")}
}
