package interp

// Lazy initialisation (generalised symbolic execution) of pointer-rich inputs:
// ASTs, types.Info, go/types objects. A cell of a lazy object holds a
// *lazyPending until it is first read; reading it creates a fresh symbolic
// scalar, forks on nil-ness of a pointer / the length of a slice, or creates
// a lazy interface whose dynamic type is a finite candidate set narrowed by
// the type assertions the code performs.

import (
	"fmt"
	"go/token"
	"go/types"
	"sort"
	"strings"
	"sync"

	"golang.org/x/tools/go/ssa"
)

// LazySpec holds the well-formedness tables used when materialising lazy
// objects. Keys are "<pkgpath>.<Type>.<Field>".
type LazySpec struct {
	Nullable  map[string]bool    // pointer / interface / slice fields documented "or nil"
	MinLen    map[string]int     // minimal slice lengths
	AlwaysNil map[string]bool    // fields always left nil / zero (e.g. deprecated ast.Object links)
	IntSet    map[string][]int64 // allowed values of enum-like int fields (tokens)
	StringRe  map[string]string  // Go regexp a string field must fully match
	OptPos    map[string]bool    // token.Pos fields that may be NoPos
	// Universe restricts the candidate dynamic types of an interface
	// (key: interface type string, e.g. "go/ast.Expr"); nil = all implementers found in the program.
	Universe map[string][]string
	// Leaf gives the childless stand-in used beyond the depth bound, per interface.
	Leaf map[string][]string
}

type lazyState struct {
	p *Path
	n int
	// basicKind maps cells holding a lazily created *types.Basic struct to its symbolic kind.
	basicKind map[*value]*Term
	prot      bool
	cellName  map[*value]string // lazily created struct cells -> access path (deterministic naming)
	anon      int
	owner     map[*value]*lazyIface // node cell -> the lazy interface it was resolved from
	focus     map[string]bool       // if set: allowed go/ast node kinds (tag universe of the harness)
}

func newLazyState(p *Path) *lazyState {
	return &lazyState{p: p, basicKind: map[*value]*Term{}, cellName: map[*value]string{}, owner: map[*value]*lazyIface{}}
}

// lazyPending marks a cell whose content has not been read yet.
type lazyPending struct {
	path     string
	depth    int
	key      string // spec key of the field this cell is ("pkg.Type.Field"), "" for roots/elements
	prot     bool   // created inside a protected object
	root     bool
	only     []string // interface cell: restrict candidate dynamic types
	elemOnly []string // slice cell: restriction for the elements
	listOnly []string // *ast.BlockStmt cell: restriction for the statements of its List
	// a pending marker may be copied by value (struct copies) before it is
	// read: every copy must materialise to the same value
	done bool
	val  value
}

type lazyIface struct {
	path     string
	depth    int
	static   types.Type   // static interface type
	cands    []types.Type // remaining candidate dynamic types (concrete)
	mayNil   bool
	prot     bool
	resolved *iface
	posTerm  *Term // symbolic Pos() answered before resolution
	endTerm  *Term
}

type lazySlice struct{ path string }

type lazyMap struct {
	path  string
	depth int
	elemT types.Type
	prot  bool
	memo  map[value]*gent // per key identity
	order []value
}

// ---------------------------------------------------------------------------
// candidate universes

var (
	implMu    sync.Mutex
	implCache = map[string][]types.Type{}
)

// implementers lists the concrete types (T or *T for named T in the
// interface's package) whose method set satisfies the interface.
func (i *interpreter) implementers(it types.Type) []types.Type {
	key := it.String()
	implMu.Lock()
	defer implMu.Unlock()
	if c, ok := implCache[key]; ok {
		return c
	}
	iface, ok := it.Underlying().(*types.Interface)
	if !ok {
		return nil
	}
	var pkg *types.Package
	if n, ok := it.(*types.Named); ok {
		pkg = n.Obj().Pkg()
	}
	var out []types.Type
	if pkg != nil {
		names := pkg.Scope().Names()
		sort.Strings(names)
		for _, name := range names {
			tn, ok := pkg.Scope().Lookup(name).(*types.TypeName)
			if !ok || tn.IsAlias() {
				continue
			}
			named, ok := tn.Type().(*types.Named)
			if !ok || named.TypeParams().Len() > 0 {
				continue
			}
			if _, isIface := named.Underlying().(*types.Interface); isIface {
				continue
			}
			if types.Implements(named, iface) {
				out = append(out, named)
			} else if p := types.NewPointer(named); types.Implements(p, iface) {
				out = append(out, p)
			}
		}
	}
	implCache[key] = out
	return out
}

func typeShort(t types.Type) string {
	s := t.String()
	return s
}

func (i *interpreter) universeFor(it types.Type, depth int) []types.Type {
	spec := i.program.Lazy
	all := i.implementers(it)
	key := it.String()
	pick := func(names []string) []types.Type {
		var out []types.Type
		for _, t := range all {
			for _, n := range names {
				if t.String() == n {
					out = append(out, t)
				}
			}
		}
		return out
	}
	maxDepth := i.path.ex.opts.bound("K", 3)
	if depth >= maxDepth {
		if spec != nil {
			if l, ok := spec.Leaf[key]; ok {
				return pick(l)
			}
		}
		return nil
	}
	if spec != nil {
		if u, ok := spec.Universe[key]; ok {
			return pick(u)
		}
	}
	if f := i.path.lz.focus; f != nil && strings.HasPrefix(key, "go/ast.") {
		var out []types.Type
		for _, t := range all {
			if f[t.String()] {
				out = append(out, t)
			}
		}
		return out
	}
	return all
}

// ---------------------------------------------------------------------------
// materialisation

func specKey(owner types.Type, field string) string {
	if n, ok := owner.(*types.Named); ok && n.Obj().Pkg() != nil {
		return n.Obj().Pkg().Path() + "." + n.Obj().Name() + "." + field
	}
	return owner.String() + "." + field
}

func namedString(t types.Type) string {
	if n, ok := t.(*types.Named); ok && n.Obj().Pkg() != nil {
		return n.Obj().Pkg().Path() + "." + n.Obj().Name()
	}
	return t.String()
}

// note records a structural decision of lazy initialisation (dynamic type,
// nil-ness, length) in the path's model so that counterexamples can be realised.
func (i *interpreter) note(key string, val string) {
	p := i.path
	if p.extraModel == nil {
		p.extraModel = map[string]ModelVal{}
	}
	p.extraModel[key] = ModelVal{S: SStr, Str: val}
}

// newLazyStruct creates the structure for struct type T with all fields pending.
func (i *interpreter) newLazyStruct(T types.Type, path string, depth int, prot bool) structure {
	if n, ok := T.(*types.Named); ok && n.Obj().Pkg() != nil && n.Obj().Pkg().Path() != "go/ast" && n.Obj().Name() != "Info" {
		// go/types objects cache internally (lazy resolution): only syntax and the Info tables are write-protected
		prot = false
	}
	st := T.Underlying().(*types.Struct)
	s := make(structure, st.NumFields())
	for k := 0; k < st.NumFields(); k++ {
		f := st.Field(k)
		pend := &lazyPending{path: path + "." + f.Name(), depth: depth, key: specKey(T, f.Name()), prot: prot}
		if typePositions[pend.key] {
			// where the grammar wants a type, a parsed program has a type expression
			pend.only = typeExprKinds
		}
		s[k] = pend
	}
	if prot {
		for k := range s {
			i.protected[&s[k]] = path + "." + st.Field(k).Name()
		}
		cells := s
		i.path.logUndo(func() {
			for k := range cells {
				delete(i.protected, &cells[k])
			}
		})
	}
	return s
}

func (i *interpreter) materialise(p *lazyPending, T types.Type) value {
	if p.done {
		switch v := p.val.(type) {
		case structure:
			return append(structure(nil), v...)
		case array:
			return append(array(nil), v...)
		}
		return p.val
	}
	v := i.materialise1(p, T)
	p.done, p.val = true, v
	switch v := v.(type) {
	case structure:
		return append(structure(nil), v...)
	case array:
		return append(array(nil), v...)
	}
	return v
}

func (i *interpreter) materialise1(p *lazyPending, T types.Type) value {
	spec := i.program.Lazy
	path := i.path
	if spec != nil && spec.AlwaysNil[p.key] {
		return zero(T)
	}
	tn := namedString(T)
	switch tn {
	case "go/token.Pos":
		t := path.Fresh(p.path, SInt)
		lo := int64(1)
		if spec != nil && spec.OptPos[p.key] {
			lo = 0
		}
		path.Assume(And(Ge(t, IntLit(lo)), Le(t, IntLit(1<<30))))
		return sym{t, types.Int}
	case "go/token.FileSet", "sync.Mutex", "sync.RWMutex":
		return zero(T)
	}
	switch U := T.Underlying().(type) {
	case *types.Basic:
		k := basicKind(T)
		switch {
		case k == types.Bool:
			return sym{path.Fresh(p.path, SBool), types.Bool}
		case k == types.String:
			t := path.Fresh(p.path, SStr)
			path.Assume(Le(StrLen(t), IntLit(int64(path.ex.opts.bound("strlen", 12)))))
			if spec != nil {
				if re, ok := spec.StringRe[p.key]; ok {
					m, err := MatchTerm(re, t)
					if err != nil {
						panic(engineError{"lazy string constraint: " + err.Error()})
					}
					path.Assume(m)
				}
			}
			return sym{t, types.String}
		case isIntKind(k):
			t := path.Fresh(p.path, SInt)
			if spec != nil {
				if set, ok := spec.IntSet[p.key]; ok {
					alts := TFalse
					for _, v := range set {
						alts = Or(alts, Eq(t, IntLit(v)))
					}
					path.Assume(alts)
					return sym{t, k}
				}
			}
			lo, hi := kindRange(k)
			path.Assume(And(Ge(t, BigLit(lo)), Le(t, BigLit(hi))))
			return sym{t, k}
		case k == types.Float64 || k == types.Float32:
			return zero(T)
		}
		return zero(T)
	case *types.Pointer:
		nullable := spec == nil || spec.Nullable[p.key] || p.key == ""
		if p.root {
			nullable = false
		}
		maxDepth := path.ex.opts.bound("K", 3)
		if _, isStruct := U.Elem().Underlying().(*types.Struct); !isStruct {
			return zero(T)
		}
		if nullable {
			if p.depth > maxDepth {
				i.note(p.path+"#nil", "1")
				return zero(T)
			}
			if path.choose(2) == 0 {
				i.note(p.path+"#nil", "1")
				return zero(T)
			}
		}
		i.note(p.path+"#nil", "0")
		cell := new(value)
		*cell = i.newLazyStruct(U.Elem(), p.path, p.depth+1, p.prot)
		i.path.lz.cellName[cell] = p.path
		i.afterNewStruct(U.Elem(), cell, p)
		return cell
	case *types.Interface:
		nullable := spec == nil || spec.Nullable[p.key]
		if p.root {
			nullable = false
		}
		// go/ast documents Field.Type as "or nil", but receivers, parameters and results
		// of a parsed program always carry their type
		if p.key == "go/ast.Field.Type" && (strings.Contains(p.path, ".Recv.List[") || strings.Contains(p.path, ".Params.List[") || strings.Contains(p.path, ".Results.List[")) {
			nullable = false
		}
		cands := i.universeFor(T, p.depth)
		if p.only != nil {
			// the restriction narrows the universe of this depth (beyond the depth bound that is
			// the childless stand-ins: the exploration must stay finite)
			pool := i.implementers(T)
			if typePositions[p.key] {
				pool = cands
			}
			var keep []types.Type
			for _, c := range pool {
				for _, o := range p.only {
					if c.String() == o {
						keep = append(keep, c)
					}
				}
			}
			cands = keep
		}
		l := &lazyIface{path: p.path, depth: p.depth, static: T, cands: cands, mayNil: nullable, prot: p.prot}
		if len(cands) == 0 {
			if !nullable {
				// no way to build a value here: the path is outside the explored universe
				path.reached["bound:depth-cut"] = true
				panic(pathPruned{"depth bound"})
			}
			return iface{}
		}
		return l
	case *types.Slice:
		lo := 0
		if spec != nil {
			lo = spec.MinLen[p.key]
		}
		hi := path.ex.opts.bound("B", 2)
		if p.depth > path.ex.opts.bound("K", 3) {
			hi = lo
		}
		// a method has exactly one receiver field
		if p.key == "go/ast.FieldList.List" && strings.HasSuffix(p.path, ".Recv.List") {
			lo, hi = 1, 1
		}
		if hi < lo {
			hi = lo
		}
		n := lo + path.choose(hi-lo+1)
		i.note(p.path+"#len", fmt.Sprint(n))
		if n == 0 {
			return []value(nil)
		}
		sl := make([]value, n)
		for k := range sl {
			sl[k] = &lazyPending{path: fmt.Sprintf("%s[%d]", p.path, k), depth: p.depth, key: p.key + "[]", prot: p.prot, only: p.elemOnly}
		}
		if p.prot {
			for k := range sl {
				i.protected[&sl[k]] = fmt.Sprintf("%s[%d]", p.path, k)
			}
			cells := sl
			path.logUndo(func() {
				for k := range cells {
					delete(i.protected, &cells[k])
				}
			})
		}
		return sl
	case *types.Map:
		m := &gmap{kt: U.Key(), idx: map[value]*gent{}}
		m.lazy = &lazyMap{path: p.path, depth: p.depth, elemT: U.Elem(), prot: p.prot, memo: map[value]*gent{}}
		if p.prot {
			i.protected[m] = p.path
			path.logUndo(func() { delete(i.protected, m) })
		}
		return m
	case *types.Struct:
		return i.newLazyStruct(T, p.path, p.depth, p.prot)
	case *types.Array:
		a := make(array, U.Len())
		for k := range a {
			a[k] = &lazyPending{path: fmt.Sprintf("%s[%d]", p.path, k), depth: p.depth, prot: p.prot}
		}
		return a
	case *types.Signature, *types.Chan:
		return zero(T)
	}
	panic(engineError{fmt.Sprintf("cannot lazily initialise %s", T)})
}

// afterNewStruct applies type-specific invariants to a freshly created lazy struct.
func (i *interpreter) afterNewStruct(T types.Type, cell *value, p *lazyPending) {
	switch namedString(T) {
	case "go/types.Signature":
		// contract: a variadic signature has at least one parameter
		st := (*cell).(structure)
		sst := T.Underlying().(*types.Struct)
		pi, vi := -1, -1
		for f := 0; f < sst.NumFields(); f++ {
			switch sst.Field(f).Name() {
			case "params":
				pi = f
			case "variadic":
				vi = f
			}
		}
		if pi >= 0 && vi >= 0 {
			params := i.load(sst.Field(pi).Type(), &st[pi])
			n := 0
			if pc, ok := params.(*value); ok && pc != nil {
				tup := (*pc).(structure)
				tst := sst.Field(pi).Type().Underlying().(*types.Pointer).Elem().Underlying().(*types.Struct)
				for f := 0; f < tst.NumFields(); f++ {
					if tst.Field(f).Name() == "vars" {
						if vars, ok := i.load(tst.Field(f).Type(), &tup[f]).([]value); ok {
							n = len(vars)
						}
					}
				}
			}
			if n == 0 {
				st[vi] = false
			}
		}
	case "go/ast.BlockStmt":
		if p.listOnly != nil {
			st := (*cell).(structure)
			sst := T.Underlying().(*types.Struct)
			for f := 0; f < sst.NumFields(); f++ {
				if sst.Field(f).Name() == "List" {
					if pend, ok := st[f].(*lazyPending); ok {
						pend.elemOnly = p.listOnly
					}
				}
			}
		}
	case "go/ast.SwitchStmt", "go/ast.TypeSwitchStmt", "go/ast.SelectStmt":
		// the grammar: the body of a switch holds case clauses, of a select comm clauses
		clause := "*go/ast.CaseClause"
		if namedString(T) == "go/ast.SelectStmt" {
			clause = "*go/ast.CommClause"
		}
		st := (*cell).(structure)
		sst := T.Underlying().(*types.Struct)
		for f := 0; f < sst.NumFields(); f++ {
			pend, ok := st[f].(*lazyPending)
			if !ok {
				continue
			}
			switch sst.Field(f).Name() {
			case "Body":
				pend.listOnly = []string{clause}
			case "Assign":
				// x := y.(type) or y.(type)
				pend.only = []string{"*go/ast.AssignStmt", "*go/ast.ExprStmt"}
			}
		}
	}
	if namedString(T) == "go/types.Basic" {
		// (kind, info, name) are tied together as in the table go/types.Typ
		st := (*cell).(structure)
		k := i.path.Fresh(p.path+".kind", SInt)
		i.path.Assume(And(Ge(k, IntLit(0)), Le(k, IntLit(int64(types.UntypedNil)))))
		info := IntLit(0)
		name := StrLit("invalid type")
		for kind := types.Invalid; kind <= types.UntypedNil; kind++ {
			b := types.Typ[kind]
			info = Ite(Eq(k, IntLit(int64(kind))), IntLit(int64(b.Info())), info)
			name = Ite(Eq(k, IntLit(int64(kind))), StrLit(b.Name()), name)
		}
		sst := T.Underlying().(*types.Struct)
		for f := 0; f < sst.NumFields(); f++ {
			switch sst.Field(f).Name() {
			case "kind":
				st[f] = sym{k, types.Int}
			case "info":
				st[f] = mkval(info, types.Int)
			case "name":
				st[f] = mkval(name, types.String)
			}
		}
		i.path.lz.basicKind[cell] = k
	}
}

// ---------------------------------------------------------------------------
// lazy interfaces

func (l *lazyIface) decideNil(i *interpreter) bool {
	if l.resolved != nil {
		return l.resolved.t == nil
	}
	if !l.mayNil {
		return false
	}
	if len(l.cands) == 0 {
		l.resolved = &iface{}
		i.note(l.path+"#nil", "1")
		return true
	}
	if i.path.choose(2) == 0 {
		l.resolved = &iface{}
		i.note(l.path+"#nil", "1")
		return true
	}
	l.mayNil = false
	return false
}

func (l *lazyIface) become(i *interpreter, t types.Type) iface {
	i.note(l.path+"#type", t.String())
	var v value
	switch U := t.Underlying().(type) {
	case *types.Pointer:
		cell := new(value)
		*cell = i.newLazyStruct(U.Elem(), l.path, l.depth+1, l.prot)
		i.path.lz.cellName[cell] = l.path
		i.path.lz.owner[cell] = l
		i.afterNewStruct(U.Elem(), cell, &lazyPending{path: l.path, depth: l.depth})
		v = cell
	case *types.Struct:
		v = i.newLazyStruct(t, l.path, l.depth+1, l.prot)
	default:
		pend := &lazyPending{path: l.path, depth: l.depth + 1, prot: l.prot}
		v = i.materialise(pend, t)
	}
	r := iface{t: t, v: v}
	l.resolved = &r
	l.cands = nil
	// tie Pos()/End() answered before resolution to the real node
	if l.posTerm != nil || l.endTerm != nil {
		for _, m := range []struct {
			name string
			t    *Term
		}{{"Pos", l.posTerm}, {"End", l.endTerm}} {
			if m.t == nil {
				continue
			}
			if fn := i.lookupMethodSafe(t, m.name); fn != nil {
				real := call(i, i.cur, 0, fn, []value{v})
				i.path.Assume(Eq(m.t, mustTerm(real)))
			}
		}
	}
	return r
}

// resolve decides the dynamic type completely.
func (l *lazyIface) resolve(i *interpreter) iface {
	if l.resolved != nil {
		return *l.resolved
	}
	if l.decideNil(i) {
		return iface{}
	}
	if len(l.cands) == 0 {
		panic(pathPruned{"no candidate type"})
	}
	c := i.path.choose(len(l.cands))
	return l.become(i, l.cands[c])
}

func (l *lazyIface) equalsT(i *interpreter, t types.Type, y value) *Term {
	switch y := y.(type) {
	case iface:
		if y.t == nil {
			return BoolLit(l.decideNil(i))
		}
		r := l.resolve(i)
		return equalsT(t, r, y)
	case *lazyIface:
		if y == l {
			return TTrue
		}
		ln, yn := l.decideNil(i), y.decideNil(i)
		if ln || yn {
			return BoolLit(ln && yn)
		}
		// distinct lazy objects are distinct fresh nodes/objects
		return equalsT(t, l.resolve(i), y.resolve(i))
	}
	panic(engineError{fmt.Sprintf("lazyIface == %T", y)})
}

// typeAssertLazy narrows the candidate set instead of resolving.
func (i *interpreter) typeAssertLazy(instr *ssa.TypeAssert, l *lazyIface) value {
	if l.resolved != nil {
		return typeAssert(i, instr, *l.resolved)
	}
	fail := func(msg string) value {
		if !instr.CommaOk {
			panic(targetPanic{v: msg, stack: i.stack()})
		}
		return tuple{zero(instr.AssertedType), false}
	}
	if l.decideNil(i) {
		return fail(fmt.Sprintf("interface conversion: interface is nil, not %s", instr.AssertedType))
	}
	if idst, ok := instr.AssertedType.Underlying().(*types.Interface); ok {
		var yes, no []types.Type
		for _, c := range l.cands {
			if types.Implements(c, idst) {
				yes = append(yes, c)
			} else {
				no = append(no, c)
			}
		}
		pick := 0
		switch {
		case len(yes) == 0:
			pick = 1
		case len(no) == 0:
			pick = 0
		default:
			pick = i.path.choose(2)
		}
		if pick == 0 {
			l.cands = yes
			i.noteCands(l)
			if instr.CommaOk {
				return tuple{l, true}
			}
			return l
		}
		l.cands = no
		i.noteCands(l)
		return fail(fmt.Sprintf("interface conversion: value does not implement %s", instr.AssertedType))
	}
	idx := -1
	for k, c := range l.cands {
		if types.Identical(c, instr.AssertedType) {
			idx = k
		}
	}
	if idx < 0 {
		return fail(fmt.Sprintf("interface conversion: interface is not %s", instr.AssertedType))
	}
	pick := 0
	if len(l.cands) > 1 {
		pick = i.path.choose(2)
	}
	if pick == 0 {
		r := l.become(i, l.cands[idx])
		if instr.CommaOk {
			return tuple{r.v, true}
		}
		return r.v
	}
	l.cands = append(append([]types.Type(nil), l.cands[:idx]...), l.cands[idx+1:]...)
	i.noteCands(l)
	return fail(fmt.Sprintf("interface conversion: interface is not %s", instr.AssertedType))
}

// noteCands records the remaining candidate types of a narrowed lazy interface.
func (i *interpreter) noteCands(l *lazyIface) {
	var names []string
	for _, c := range l.cands {
		names = append(names, c.String())
	}
	i.note(l.path+"#cands", strings.Join(names, ","))
}

// lazyInvoke handles method calls on an unresolved lazy interface that can be
// answered without deciding the dynamic type.
func (i *interpreter) lazyInvoke(fr *frame, l *lazyIface, call *ssa.CallCommon) (value, bool) {
	if l.resolved != nil {
		return nil, false
	}
	if strings.HasPrefix(l.static.String(), "go/ast.") {
		switch call.Method.Name() {
		case "Pos", "End":
			if l.decideNil(i) {
				return nil, false
			}
			tp := &l.posTerm
			if call.Method.Name() == "End" {
				tp = &l.endTerm
			}
			if *tp == nil {
				t := i.path.Fresh(l.path+"#"+call.Method.Name(), SInt)
				i.path.Assume(And(Ge(t, IntLit(1)), Le(t, IntLit(1<<30))))
				*tp = t
			}
			return sym{*tp, types.Int}, true
		}
	}
	return nil, false
}

func (l *lazySlice) force(i *interpreter) []value              { panic(engineError{"lazy slice"}) }
func (l *lazySlice) isNil(i *interpreter) bool                 { panic(engineError{"lazy slice"}) }
func (l *lazySlice) indexAddr(i *interpreter, idx value) value { panic(engineError{"lazy slice"}) }

// ---------------------------------------------------------------------------
// lazy maps: keyed by identity (pointers / interfaces holding pointers), answers memoised

func (i *interpreter) identityKey(k value) (value, bool) {
	switch k := k.(type) {
	case *value:
		if l, ok := i.path.lz.owner[k]; ok {
			return l, true
		}
		return k, true
	case iface:
		if p, ok := k.v.(*value); ok {
			if l, ok := i.path.lz.owner[p]; ok {
				return l, true
			}
			return p, true
		}
		if k.t == nil {
			return nil, true
		}
	case *lazyIface:
		if k.resolved != nil && k.resolved.t == nil {
			return nil, true
		}
		return k, true
	case string, int:
		return k, true
	}
	return nil, false
}

func (lm *lazyMap) lookup(i *interpreter, m *gmap, k value) (value, bool) {
	if li, ok := k.(*lazyIface); ok {
		if li.decideNil(i) {
			return nil, false
		}
	}
	id, ok := i.identityKey(k)
	if !ok {
		panic(engineError{fmt.Sprintf("lazy map lookup with key %T", k)})
	}
	if id == nil {
		return nil, false
	}
	if e, ok := lm.memo[id]; ok {
		if e == nil {
			return nil, false
		}
		return e.val, true
	}
	// present or absent?
	if i.path.choose(2) == 1 {
		lm.memo[id] = nil
		i.note(fmt.Sprintf("%s[%s]#present", lm.path, i.describeKey(k)), "0")
		return nil, false
	}
	i.note(fmt.Sprintf("%s[%s]#present", lm.path, i.describeKey(k)), "1")
	pend := &lazyPending{path: fmt.Sprintf("%s[%s]", lm.path, i.describeKey(k)), depth: lm.depth, prot: lm.prot, root: true}
	v := i.materialise(pend, lm.elemT)
	e := &gent{key: k, val: v}
	lm.memo[id] = e
	return v, true
}

func (i *interpreter) describeKey(k value) string {
	lz := i.path.lz
	name := func(p *value) string {
		if n, ok := lz.cellName[p]; ok {
			return n
		}
		lz.anon++
		n := fmt.Sprintf("obj%d", lz.anon)
		lz.cellName[p] = n
		return n
	}
	switch k := k.(type) {
	case iface:
		if p, ok := k.v.(*value); ok && p != nil {
			return name(p)
		}
	case *value:
		if k != nil {
			return name(k)
		}
	case *lazyIface:
		return k.path
	}
	return showValue(k)
}

var _ = token.NoPos

// ---------------------------------------------------------------------------
// tag universe per harness: R ∪ Base ∪ opaque (DESIGN 2.1)

var (
	focusMu    sync.Mutex
	focusCache = map[string]map[string]bool{}
)

var baseKinds = []string{"*go/ast.Ident", "*go/ast.BasicLit", "*go/ast.CallExpr", "*go/ast.ParenExpr", "*go/ast.BlockStmt",
	"*go/ast.ExprStmt", "*go/ast.ReturnStmt", "*go/ast.AssignStmt", "*go/ast.BadExpr", "*go/ast.BadStmt", "*go/ast.BadDecl",
	"*go/ast.FuncDecl", "*go/ast.GenDecl", "*go/ast.ValueSpec", "*go/ast.TypeSpec", "*go/ast.ImportSpec", "*go/ast.SelectorExpr"}

func ownedPackage(p *ssa.Package) bool {
	if p == nil || p.Pkg == nil {
		return false
	}
	path := p.Pkg.Path()
	return strings.HasPrefix(path, "github.com/go-critic/go-critic") || strings.HasPrefix(path, "github.com/go-toolsmith/") ||
		strings.HasPrefix(path, "github.com/quasilyte/")
}

// namedKinds computes the set of go/ast node types that code reachable from
// the methods of T (within go-critic / go-toolsmith code) names in a type
// assertion, type switch or composite literal.
func (i *interpreter) namedKinds(T types.Type) map[string]bool {
	key := T.String()
	focusMu.Lock()
	defer focusMu.Unlock()
	if r, ok := focusCache[key]; ok {
		return r
	}
	res := map[string]bool{}
	seen := map[*ssa.Function]bool{}
	var work []*ssa.Function
	add := func(f *ssa.Function) {
		if f != nil && !seen[f] && f.Blocks != nil && (ownedPackage(f.Pkg) || (f.Pkg == nil && f.Origin() != nil && ownedPackage(f.Origin().Pkg))) {
			seen[f] = true
			work = append(work, f)
		}
	}
	ms := i.prog.MethodSets.MethodSet(T)
	for k := 0; k < ms.Len(); k++ {
		add(i.prog.MethodValue(ms.At(k)))
	}
	note := func(t types.Type) {
		if p, ok := t.(*types.Pointer); ok {
			if n, ok := p.Elem().(*types.Named); ok && n.Obj().Pkg() != nil && n.Obj().Pkg().Path() == "go/ast" {
				res[t.String()] = true
			}
		}
	}
	for len(work) > 0 {
		f := work[len(work)-1]
		work = work[:len(work)-1]
		for _, af := range f.AnonFuncs {
			add(af)
		}
		for _, b := range f.Blocks {
			for _, ins := range b.Instrs {
				switch ins := ins.(type) {
				case *ssa.TypeAssert:
					note(ins.AssertedType)
				case *ssa.Alloc:
					note(ins.Type())
				case *ssa.MakeInterface:
					note(ins.X.Type())
				case ssa.CallInstruction:
					if c := ins.Common().StaticCallee(); c != nil {
						add(c)
					}
				}
				if mc, ok := ins.(*ssa.MakeClosure); ok {
					if fn, ok := mc.Fn.(*ssa.Function); ok {
						add(fn)
					}
				}
			}
		}
	}
	focusCache[key] = res
	return res
}

func init() {
	// FocusOn(v): restrict the dynamic types of lazy AST interfaces to the node
	// kinds the code behind v can tell apart, plus the base kinds and the opaque leaves.
	reg(rtPkg+".FocusOn", func(fr *frame, args []value) value {
		it := fr.i.asIface(args[0])
		if it.t == nil {
			return nil
		}
		kinds := map[string]bool{}
		for k := range fr.i.namedKinds(it.t) {
			kinds[k] = true
		}
		for _, b := range baseKinds {
			kinds[b] = true
		}
		fr.i.path.lz.focus = kinds
		return nil
	})
}

// typePositions: go/ast fields that hold a type in every parsed program.
var typePositions = map[string]bool{
	"go/ast.Field.Type": true, "go/ast.ValueSpec.Type": true, "go/ast.TypeSpec.Type": true, "go/ast.ArrayType.Elt": true,
	"go/ast.MapType.Key": true, "go/ast.MapType.Value": true, "go/ast.ChanType.Value": true, "go/ast.TypeAssertExpr.Type": true,
	"go/ast.CompositeLit.Type": true,
}

// typeExprKinds: the node kinds a type expression can have at its root.
var typeExprKinds = []string{"*go/ast.Ident", "*go/ast.StarExpr", "*go/ast.ParenExpr", "*go/ast.SelectorExpr", "*go/ast.ArrayType", "*go/ast.MapType",
	"*go/ast.ChanType", "*go/ast.FuncType", "*go/ast.StructType", "*go/ast.InterfaceType", "*go/ast.IndexExpr", "*go/ast.IndexListExpr", "*go/ast.Ellipsis"}
