package interp

// Lazy initialisation (generalised symbolic execution) of pointer-rich inputs.

import (
	"go/types"

	"golang.org/x/tools/go/ssa"
)

type lazyState struct {
	p *Path
	n int
}

func newLazyState(p *Path) *lazyState { return &lazyState{p: p} }

// lazyPending marks a cell whose content has not been read yet.
type lazyPending struct {
	path  string
	depth int
}

type lazyIface struct {
	path string
}

type lazySlice struct {
	path string
}

type lazyMap struct{}

func (i *interpreter) materialise(p *lazyPending, T types.Type) value {
	panic(engineError{"lazy initialisation not built yet"})
}

func (l *lazyIface) resolve(i *interpreter) iface { panic(engineError{"lazy iface"}) }
func (l *lazyIface) equalsT(i *interpreter, t types.Type, y value) *Term {
	panic(engineError{"lazy iface"})
}
func (i *interpreter) lazyInvoke(fr *frame, l *lazyIface, call *ssa.CallCommon) (value, bool) {
	return nil, false
}
func (l *lazySlice) force(i *interpreter) []value                  { panic(engineError{"lazy slice"}) }
func (l *lazySlice) isNil(i *interpreter) bool                     { panic(engineError{"lazy slice"}) }
func (l *lazySlice) indexAddr(i *interpreter, idx value) value     { panic(engineError{"lazy slice"}) }
func (l *lazyMap) lookup(i *interpreter, m *gmap, k value) (value, bool) { panic(engineError{"lazy map"}) }
