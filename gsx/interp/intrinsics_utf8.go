package interp

// unicode/utf8 and unicode predicates on symbolic text: the text is assumed
// ASCII (stated bound: bytes < 0x80), so a rune is a byte.

import (
	"go/types"
	"unicode"
	"unicode/utf8"
)

func (i *interpreter) assumeASCII(s *Term) {
	i.path.Assume(InRe(s, `(re.* (re.range "\u{0}" "\u{7f}"))`))
	i.path.reached["bound:ascii-text"] = true
}

func asciiClass(r *Term, ranges ...int64) *Term {
	res := TFalse
	for k := 0; k+1 < len(ranges); k += 2 {
		if ranges[k] == ranges[k+1] {
			res = Or(res, Eq(r, IntLit(ranges[k])))
		} else {
			res = Or(res, And(Ge(r, IntLit(ranges[k])), Le(r, IntLit(ranges[k+1]))))
		}
	}
	return res
}

func init() {
	reg("unicode/utf8.RuneCountInString", func(fr *frame, args []value) value {
		if s, ok := args[0].(string); ok {
			return utf8.RuneCountInString(s)
		}
		t := mustTerm(args[0])
		fr.i.assumeASCII(t)
		return intVal(StrLen(t))
	})
	reg("unicode/utf8.ValidString", func(fr *frame, args []value) value {
		if s, ok := args[0].(string); ok {
			return utf8.ValidString(s)
		}
		fr.i.assumeASCII(mustTerm(args[0]))
		return true
	})
	reg("unicode/utf8.DecodeRuneInString", func(fr *frame, args []value) value {
		if s, ok := args[0].(string); ok {
			r, n := utf8.DecodeRuneInString(s)
			return tuple{r, n}
		}
		t := mustTerm(args[0])
		if fr.i.path.branch(Eq(StrLen(t), IntLit(0))) {
			return tuple{utf8.RuneError, 0}
		}
		c := StrCode(StrAt(t, IntLit(0)))
		fr.i.path.Assume(Lt(c, IntLit(128)))
		fr.i.path.reached["bound:ascii-text"] = true
		return tuple{mkval(c, types.Int32), 1}
	})
	reg("unicode/utf8.DecodeLastRuneInString", func(fr *frame, args []value) value {
		if s, ok := args[0].(string); ok {
			r, n := utf8.DecodeLastRuneInString(s)
			return tuple{r, n}
		}
		t := mustTerm(args[0])
		if fr.i.path.branch(Eq(StrLen(t), IntLit(0))) {
			return tuple{utf8.RuneError, 0}
		}
		c := StrCode(StrAt(t, Sub(StrLen(t), IntLit(1))))
		fr.i.path.Assume(Lt(c, IntLit(128)))
		fr.i.path.reached["bound:ascii-text"] = true
		return tuple{mkval(c, types.Int32), 1}
	})
	reg("unicode/utf8.RuneLen", func(fr *frame, args []value) value {
		if r, ok := args[0].(int32); ok {
			return utf8.RuneLen(r)
		}
		fr.i.path.Assume(And(Ge(mustTerm(args[0]), IntLit(0)), Lt(mustTerm(args[0]), IntLit(128))))
		return 1
	})
	classes := map[string]struct {
		f      func(rune) bool
		ranges []int64
	}{
		"unicode.IsSpace":   {unicode.IsSpace, []int64{9, 13, 32, 32}},
		"unicode.IsUpper":   {unicode.IsUpper, []int64{65, 90}},
		"unicode.IsLower":   {unicode.IsLower, []int64{97, 122}},
		"unicode.IsLetter":  {unicode.IsLetter, []int64{65, 90, 97, 122}},
		"unicode.IsDigit":   {unicode.IsDigit, []int64{48, 57}},
		"unicode.IsNumber":  {unicode.IsNumber, []int64{48, 57}},
		"unicode.IsControl": {unicode.IsControl, []int64{0, 31, 127, 127}},
		"unicode.IsPunct":   {unicode.IsPunct, []int64{33, 35, 37, 42, 44, 47, 58, 59, 63, 64, 91, 93, 95, 95, 123, 123, 125, 125}},
		"unicode.IsPrint":   {unicode.IsPrint, []int64{32, 126}},
		"unicode.IsGraphic": {unicode.IsGraphic, []int64{32, 126}},
		"unicode.IsSymbol":  {unicode.IsSymbol, []int64{36, 36, 43, 43, 60, 62, 94, 94, 96, 96, 124, 124, 126, 126}},
	}
	for name, c := range classes {
		name, c := name, c
		reg(name, func(fr *frame, args []value) value {
			if r, ok := args[0].(int32); ok {
				return c.f(r)
			}
			t := mustTerm(args[0])
			fr.i.path.Assume(And(Ge(t, IntLit(0)), Lt(t, IntLit(128))))
			fr.i.path.reached["bound:ascii-text"] = true
			return boolVal(asciiClass(t, c.ranges...))
		})
	}
	reg("unicode.ToLower", func(fr *frame, args []value) value {
		if r, ok := args[0].(int32); ok {
			return unicode.ToLower(r)
		}
		t := mustTerm(args[0])
		fr.i.path.Assume(And(Ge(t, IntLit(0)), Lt(t, IntLit(128))))
		return mkval(Ite(asciiClass(t, 65, 90), Add(t, IntLit(32)), t), types.Int32)
	})
	reg("unicode.ToUpper", func(fr *frame, args []value) value {
		if r, ok := args[0].(int32); ok {
			return unicode.ToUpper(r)
		}
		t := mustTerm(args[0])
		fr.i.path.Assume(And(Ge(t, IntLit(0)), Lt(t, IntLit(128))))
		return mkval(Ite(asciiClass(t, 97, 122), Sub(t, IntLit(32)), t), types.Int32)
	})
}
