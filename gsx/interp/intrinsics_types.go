package interp

// Stubs with contracts for the parts of go/types whose real implementation
// resolves lazily, caches, or recurses over whole type graphs. Results are
// fresh lazy objects / symbolic scalars memoised per receiver identity, so
// repeated questions get the same answer.

import (
	"fmt"
	"go/types"
	"strings"

	"golang.org/x/tools/go/ssa"
)

func (i *interpreter) typesType(name string) types.Type {
	pkg := i.prog.ImportedPackage("go/types")
	if pkg == nil {
		panic(engineError{"go/types not loaded"})
	}
	m := pkg.Members[name]
	if m == nil {
		panic(engineError{"go/types." + name + " not found"})
	}
	return m.(*ssa.Type).Type()
}

// objID gives a deterministic identity string for a receiver / argument.
func (i *interpreter) objID(v value) string {
	switch v := v.(type) {
	case *lazyIface:
		if v.resolved != nil && v.resolved.t == nil {
			return "nil"
		}
		return "L:" + v.path
	case iface:
		if v.t == nil {
			return "nil"
		}
		return i.objID(v.v)
	case *value:
		if v == nil {
			return "nil"
		}
		if l, ok := i.path.lz.owner[v]; ok {
			return "L:" + l.path
		}
		return "P:" + i.describeKey(v)
	}
	return showValue(v)
}

// memoLazy returns a memoised lazily initialised value of type T.
func (i *interpreter) memoLazy(key string, T types.Type, nullable bool, restrict []string) value {
	p := i.path
	if v, ok := p.memo[key]; ok {
		return v
	}
	pend := &lazyPending{path: key, depth: p.ex.opts.bound("K", 3) - p.ex.opts.bound("TK", 2), root: !nullable}
	v := i.materialise(pend, T)
	if l, ok := v.(*lazyIface); ok && restrict != nil {
		var keep []types.Type
		for _, c := range l.cands {
			for _, r := range restrict {
				if c.String() == r {
					keep = append(keep, c)
				}
			}
		}
		l.cands = keep
	}
	p.memo[key] = v
	return v
}

func (i *interpreter) memoBool(key string) value {
	p := i.path
	if v, ok := p.memo[key]; ok {
		return v
	}
	v := sym{p.Fresh(key, SBool), types.Bool}
	p.memo[key] = v
	return v
}

func (i *interpreter) memoInt(key string, lo, hi int64, k types.BasicKind) value {
	p := i.path
	if v, ok := p.memo[key]; ok {
		return v
	}
	t := p.Fresh(key, SInt)
	p.Assume(And(Ge(t, IntLit(lo)), Le(t, IntLit(hi))))
	v := sym{t, k}
	p.memo[key] = v
	return v
}

func (i *interpreter) memoStr(key string) value {
	p := i.path
	if v, ok := p.memo[key]; ok {
		return v
	}
	t := p.Fresh(key, SStr)
	p.Assume(Le(StrLen(t), IntLit(int64(p.ex.opts.bound("strlen", 12)))))
	v := sym{t, types.String}
	p.memo[key] = v
	return v
}

var underlyingKinds = []string{"*go/types.Basic", "*go/types.Pointer", "*go/types.Slice", "*go/types.Array", "*go/types.Map",
	"*go/types.Struct", "*go/types.Signature", "*go/types.Interface", "*go/types.Chan"}

func init() {
	isLazyRecv := func(fr *frame, v value) bool {
		if fr.i.path == nil {
			return false
		}
		switch v := v.(type) {
		case *value:
			if v == nil {
				return false
			}
			_, ok := fr.i.path.lz.cellName[v]
			return ok
		case *lazyIface:
			return true
		case iface:
			if p, ok := v.v.(*value); ok && p != nil {
				_, ok := fr.i.path.lz.cellName[p]
				return ok
			}
		}
		return false
	}
	// regLazy registers a stub that applies only to lazily created receivers;
	// concrete go/types objects (the universe) run the real code.
	regLazy := func(name string, f externalFn) {
		reg(name, func(fr *frame, args []value) value {
			lazy := false
			for _, a := range args {
				if isLazyRecv(fr, a) {
					lazy = true
				}
			}
			if !lazy {
				return fr.i.callReal(fr, name, args)
			}
			return f(fr, args)
		})
	}
	T := func(fr *frame) types.Type { return fr.i.typesType("Type") }

	regLazy("(*go/types.Named).Underlying", func(fr *frame, args []value) value {
		return fr.i.memoLazy("under("+fr.i.objID(args[0])+")", T(fr), false, underlyingKinds)
	})
	regLazy("(*go/types.Alias).Underlying", func(fr *frame, args []value) value {
		return fr.i.memoLazy("under("+fr.i.objID(args[0])+")", T(fr), false, underlyingKinds)
	})
	regLazy("(*go/types.TypeParam).Underlying", func(fr *frame, args []value) value {
		return fr.i.memoLazy("under("+fr.i.objID(args[0])+")", T(fr), false, []string{"*go/types.Interface"})
	})
	regLazy("go/types.Unalias", func(fr *frame, args []value) value {
		if l, ok := args[0].(*lazyIface); ok && l.resolved == nil {
			// decide alias-ness
			idx := -1
			for k, c := range l.cands {
				if c.String() == "*go/types.Alias" {
					idx = k
				}
			}
			if idx < 0 {
				return args[0]
			}
			if fr.i.path.choose(2) == 0 {
				l.cands = append(append([]types.Type(nil), l.cands[:idx]...), l.cands[idx+1:]...)
				return args[0]
			}
			l.become(fr.i, l.cands[idx])
		}
		it := fr.i.asIface(args[0])
		if it.t != nil && it.t.String() == "*go/types.Alias" {
			r := fr.i.memoLazy("unalias("+fr.i.objID(it)+")", T(fr), false, nil)
			if l, ok := r.(*lazyIface); ok && l.resolved == nil {
				var keep []types.Type
				for _, c := range l.cands {
					if c.String() != "*go/types.Alias" {
						keep = append(keep, c)
					}
				}
				l.cands = keep
			}
			return r
		}
		return args[0]
	})
	for _, n := range []string{"(*go/types.Named).NumMethods", "(*go/types.Interface).NumMethods", "(*go/types.Interface).NumExplicitMethods",
		"(*go/types.Interface).NumEmbeddeds", "(*go/types.Named).NumMethods"} {
		n := n
		regLazy(n, func(fr *frame, args []value) value {
			return fr.i.memoInt(n+"("+fr.i.objID(args[0])+")", 0, int64(fr.i.path.ex.opts.bound("B", 2)), types.Int)
		})
	}
	regLazy("(*go/types.Interface).Empty", func(fr *frame, args []value) value {
		return fr.i.memoBool("Empty(" + fr.i.objID(args[0]) + ")")
	})
	regLazy("(*go/types.Named).TypeParams", func(fr *frame, args []value) value {
		return fr.i.memoLazy("tparams("+fr.i.objID(args[0])+")", types.NewPointer(fr.i.typesType("TypeParamList")), true, nil)
	})
	regLazy("(*go/types.Named).TypeArgs", func(fr *frame, args []value) value {
		return fr.i.memoLazy("targs("+fr.i.objID(args[0])+")", types.NewPointer(fr.i.typesType("TypeList")), true, nil)
	})
	regLazy("(*go/types.Named).Obj", func(fr *frame, args []value) value {
		return fr.i.memoLazy("obj("+fr.i.objID(args[0])+")", types.NewPointer(fr.i.typesType("TypeName")), false, nil)
	})
	regLazy("(*go/types.Alias).Obj", func(fr *frame, args []value) value {
		return fr.i.memoLazy("obj("+fr.i.objID(args[0])+")", types.NewPointer(fr.i.typesType("TypeName")), false, nil)
	})
	for _, n := range []string{"go/types.Identical", "go/types.IdenticalIgnoreTags", "go/types.AssignableTo", "go/types.ConvertibleTo"} {
		n := n
		regLazy(n, func(fr *frame, args []value) value {
			a, b := fr.i.objID(args[0]), fr.i.objID(args[1])
			if a == b && strings.HasPrefix(n, "go/types.Identical") {
				return true
			}
			if strings.HasPrefix(n, "go/types.Identical") && a > b {
				a, b = b, a
			}
			return fr.i.memoBool(n + "(" + a + "," + b + ")")
		})
	}
	regLazy("go/types.Implements", func(fr *frame, args []value) value {
		return fr.i.memoBool("Implements(" + fr.i.objID(args[0]) + "," + fr.i.objID(args[1]) + ")")
	})
	regLazy("go/types.Comparable", func(fr *frame, args []value) value {
		return fr.i.memoBool("Comparable(" + fr.i.objID(args[0]) + ")")
	})
	regLazy("go/types.TypeString", func(fr *frame, args []value) value {
		return fr.i.memoStr("TypeString(" + fr.i.objID(args[0]) + ")")
	})
	for _, tn := range []string{"Named", "Pointer", "Slice", "Array", "Map", "Struct", "Signature", "Interface", "Tuple", "Chan", "TypeParam", "Alias"} {
		tn := tn
		regLazy("(*go/types."+tn+").String", func(fr *frame, args []value) value {
			return fr.i.memoStr("TypeString(" + fr.i.objID(args[0]) + ")")
		})
	}
	for _, n := range []string{"(*go/types.StdSizes).Sizeof", "(*go/types.gcSizes).Sizeof"} {
		n := n
		reg(n, func(fr *frame, args []value) value {
			if !isLazyRecv(fr, args[1]) {
				return fr.i.callReal(fr, n, args)
			}
			// go/types' size computation is known to give up on some types built from
			// type parameters with panic("assertion failed") (go-critic issue 1354):
			// with the sizeofpanic bound set, that is one of the stub's behaviours
			if fr.i.path.ex.opts.bound("sizeofpanic", 1) > 0 {
				id := fr.i.objID(args[1])
				if fr.i.truth(fr.i.memoBool("SizeofPanics(" + id + ")")) {
					panic(targetPanic{v: iface{t: types.Typ[types.String], v: "assertion failed"}, stack: fr.i.stack()})
				}
			}
			return fr.i.memoInt("Sizeof("+fr.i.objID(args[1])+")", 0, 1<<40, types.Int64)
		})
	}
	regLazy("(*go/types.Scope).Lookup", func(fr *frame, args []value) value {
		return fr.i.memoLazy("scope("+fr.i.objID(args[0])+")."+showValue(args[1]), fr.i.typesType("Object"), true, nil)
	})
	regLazy("(*go/types.Interface).Complete", func(fr *frame, args []value) value { return args[0] })

	regLazy("go/constant.StringVal", func(fr *frame, args []value) value {
		// The text of string constants is symbolic only up to the "conststr" bound
		// (default 0: a two-entry menu of concrete texts). Code that parses constant
		// strings (regexp patterns, flag names, SQL) loops per byte; its own input
		// space is explored by dedicated harnesses.
		key := "StringVal(" + fr.i.objID(args[0]) + ")"
		if n := fr.i.path.ex.opts.bound("conststr", 0); n > 0 {
			if v, ok := fr.i.path.memo[key]; ok {
				return v
			}
			t := fr.i.path.Fresh(key, SStr)
			fr.i.path.Assume(Le(StrLen(t), IntLit(int64(n))))
			v := sym{t, types.String}
			fr.i.path.memo[key] = v
			return v
		}
		if v, ok := fr.i.path.memo[key]; ok {
			return v
		}
		// "x y": whitespace in a name; "[a-aa]": a char class with an overlap that can be simplified; "a.com": an unescaped dot before a top-level domain
		menu := []string{"", "x y", "[a-aa]", "a.com"}
		v := menu[fr.i.path.choose(len(menu))]
		fr.i.note(key, v)
		fr.i.path.memo[key] = v
		return v
	})
	regLazy("go/constant.Int64Val", func(fr *frame, args []value) value {
		return tuple{fr.i.memoInt("Int64Val("+fr.i.objID(args[0])+")", -1<<62, 1<<62, types.Int64), fr.i.memoBool("Int64ValExact(" + fr.i.objID(args[0]) + ")")}
	})
	regLazy("go/constant.Compare", func(fr *frame, args []value) value {
		return fr.i.memoBool(fmt.Sprintf("Compare(%s,%v,%s)", fr.i.objID(args[0]), args[1], fr.i.objID(args[2])))
	})
	regLazy("go/constant.BoolVal", func(fr *frame, args []value) value {
		return fr.i.memoBool("BoolVal(" + fr.i.objID(args[0]) + ")")
	})

	// the printer is the environment: message formatting is recorded, not executed
	reg("(*github.com/go-toolsmith/astfmt.Printer).Sprintf", func(fr *frame, args []value) value {
		var rendered []value
		for _, a := range args[2].([]value) {
			rendered = append(rendered, fr.i.renderFmtArg(a))
		}
		if fr.i.path != nil {
			fr.i.path.events = append(fr.i.path.events, Event{Kind: "astfmt.Sprintf", Args: append([]value{args[1]}, args[2].([]value)...)})
			fr.i.checkFormat(args[1], args[2].([]value))
		}
		return fr.i.symSprintf(args[1], rendered)
	})
	reg("(*github.com/go-toolsmith/astfmt.Printer).Sprint", func(fr *frame, args []value) value {
		var rendered []value
		for _, a := range args[1].([]value) {
			rendered = append(rendered, fr.i.renderFmtArg(a))
		}
		return fr.i.symSprint(rendered, false)
	})
	reg("github.com/go-toolsmith/astfmt.Sprint", func(fr *frame, args []value) value {
		var rendered []value
		for _, a := range args[0].([]value) {
			rendered = append(rendered, fr.i.renderFmtArg(a))
		}
		return fr.i.symSprint(rendered, false)
	})
}

// renderFmtArg replaces AST node arguments by an opaque placeholder string.
func (i *interpreter) renderFmtArg(a value) value {
	switch a := a.(type) {
	case *lazyIface:
		if a.resolved == nil {
			return "‹" + a.path + "›"
		}
		return i.renderFmtArg(*a.resolved)
	case iface:
		if a.t == nil {
			return a
		}
		if strings.Contains(a.t.String(), "go/ast.") {
			if p, ok := a.v.(*value); ok {
				if p == nil {
					return "‹nil node›"
				}
				return "‹" + i.describeKey(p) + "›"
			}
			return "‹node›"
		}
		if strings.Contains(a.t.String(), "go/types.") {
			return "‹type " + i.objID(a) + "›"
		}
	}
	return a
}

// callReal runs the real (SSA) body of a function that has an intrinsic.
func (i *interpreter) callReal(fr *frame, name string, args []value) value {
	fn := i.funcByName(name)
	if fn == nil || fn.Blocks == nil {
		panic(engineError{"no real body for " + name})
	}
	return i.runSSA(fr.caller, fn, args, nil)
}

func (i *interpreter) funcByName(name string) *ssa.Function {
	if f, ok := i.program.byName[name]; ok {
		return f
	}
	return nil
}

var _ = fmt.Sprintf

// checkFormat is the C07 monitor at the message-formatting stub.
func (i *interpreter) checkFormat(format value, args []value) {
	f, ok := format.(string)
	if !ok {
		return
	}
	if strings.Contains(f, "‹") {
		i.path.violation("assert", "pos: the format string of a diagnostic is built from analysed source text", nil, i.stack())
		return
	}
	verbs := 0
	for k := 0; k < len(f); k++ {
		if f[k] != '%' {
			continue
		}
		k++
		for k < len(f) && strings.IndexByte("+-# 0123456789.", f[k]) >= 0 {
			k++
		}
		if k < len(f) && f[k] != '%' {
			verbs++
		}
	}
	if verbs != len(args) {
		i.path.violation("assert", fmt.Sprintf("pos: format %q has %d verbs for %d arguments", f, verbs, len(args)), nil, i.stack())
	}
	if i.path.ex.opts.bound("witness", 0) > 0 && len(args) >= 2 {
		// witness mode: every structurally distinct way of quoting two pieces of
		// code (original, suggestion) is handed to the native suggestion oracle
		sig := f
		for _, a := range args {
			sig += " | " + i.dynTypeName(a)
		}
		i.path.violation("assert", "suggest: witness "+sig, nil, "")
	}
	for _, a := range args {
		if bad := i.astIllFormed(a, map[*value]bool{}, 0); bad != "" {
			i.path.violation("assert", "suggest: a syntax tree quoted in a diagnostic is not well-formed: "+bad, nil, i.stack())
		}
	}
	for _, a := range args {
		if it, ok := a.(iface); ok {
			if it.t == nil {
				i.path.violation("assert", "pos: a nil value is formatted into a diagnostic", nil, i.stack())
			} else if p, ok := it.v.(*value); ok && p == nil && strings.Contains(it.t.String(), "go/ast.") {
				i.path.violation("assert", "pos: a nil syntax node is formatted into a diagnostic", nil, i.stack())
			}
		}
	}
}

// astIllFormed walks the concretely built part of a go/ast tree (lazily
// initialised input parts are well-formed by construction and skipped) and
// returns a description of the first child that go/ast's own documentation
// requires to be present but is nil, e.g. "go/ast.CallExpr.Args[0] is nil".
func (i *interpreter) astIllFormed(v value, seen map[*value]bool, depth int) string {
	if depth > 12 {
		return ""
	}
	switch x := v.(type) {
	case *lazyIface:
		if x.resolved != nil {
			return i.astIllFormed(*x.resolved, seen, depth)
		}
		return ""
	case iface:
		if x.t == nil || !strings.Contains(x.t.String(), "go/ast.") {
			return ""
		}
		p, ok := x.v.(*value)
		if !ok || p == nil {
			return ""
		}
		return i.astNodeIllFormed(x.t, p, seen, depth)
	}
	return ""
}

func (i *interpreter) astNodeIllFormed(t types.Type, p *value, seen map[*value]bool, depth int) string {
	if p == nil || seen[p] {
		return ""
	}
	seen[p] = true
	pt, ok := t.Underlying().(*types.Pointer)
	if !ok {
		return ""
	}
	named, _ := pt.Elem().(*types.Named)
	st, ok := pt.Elem().Underlying().(*types.Struct)
	if !ok || named == nil || named.Obj().Pkg() == nil || named.Obj().Pkg().Path() != "go/ast" {
		return ""
	}
	fields, ok := (*p).(structure)
	if !ok {
		return "" // not materialised (lazy)
	}
	spec := i.program.Lazy
	for k := 0; k < st.NumFields() && k < len(fields); k++ {
		f := st.Field(k)
		key := "go/ast." + named.Obj().Name() + "." + f.Name()
		if spec != nil && (spec.AlwaysNil[key] || spec.Nullable[key]) {
			// optional child: recurse only if present
			if bad := i.astChild(key, f.Type(), fields[k], seen, depth, true); bad != "" {
				return bad
			}
			continue
		}
		if bad := i.astChild(key, f.Type(), fields[k], seen, depth, false); bad != "" {
			return bad
		}
	}
	return ""
}

func (i *interpreter) astChild(key string, ft types.Type, v value, seen map[*value]bool, depth int, optional bool) string {
	if _, pending := v.(lazyPending); pending {
		return ""
	}
	if _, pending := v.(*lazyPending); pending {
		return ""
	}
	switch u := ft.Underlying().(type) {
	case *types.Interface:
		if !strings.Contains(ft.String(), "go/ast.") {
			return ""
		}
		switch x := v.(type) {
		case iface:
			if x.t == nil {
				if optional {
					return ""
				}
				return key + " is nil"
			}
			return i.astIllFormed(x, seen, depth+1)
		case *lazyIface:
			return i.astIllFormed(x, seen, depth+1)
		}
	case *types.Pointer:
		n, _ := u.Elem().(*types.Named)
		if n == nil || n.Obj().Pkg() == nil || n.Obj().Pkg().Path() != "go/ast" {
			return ""
		}
		if p, ok := v.(*value); ok {
			if p == nil {
				if optional {
					return ""
				}
				return key + " is nil"
			}
			return i.astNodeIllFormed(ft, p, seen, depth+1)
		}
	case *types.Slice:
		sl, ok := v.([]value)
		if !ok {
			return ""
		}
		for k, e := range sl {
			if bad := i.astChild(fmt.Sprintf("%s[%d]", key, k), u.Elem(), e, seen, depth, false); bad != "" {
				return bad
			}
		}
	}
	return ""
}

// dynTypeName names the dynamic type of a formatted argument (for witness classes).
func (i *interpreter) dynTypeName(a value) string {
	switch x := a.(type) {
	case *lazyIface:
		if x.resolved != nil {
			return i.dynTypeName(*x.resolved)
		}
		return "lazy"
	case iface:
		if x.t == nil {
			return "nil"
		}
		return x.t.String()
	case sym:
		return "sym"
	}
	return fmt.Sprintf("%T", a)
}
