package interp

// Core additions of the symbolic interpreter: explicit run-time checks (so
// that target panics are never confused with interpreter defects), write
// logging for roll-back between paths, the write monitor, package
// initialisation.

import (
	"fmt"
	"go/types"
	"runtime/debug"
	"strings"

	"golang.org/x/tools/go/ssa"
)

type immediate struct{ v value }

func mustDeref(t types.Type) types.Type {
	if p, ok := t.Underlying().(*types.Pointer); ok {
		return p.Elem()
	}
	panic(fmt.Sprintf("mustDeref: not a pointer: %s", t))
}

func isSym(v value) bool {
	_, ok := v.(sym)
	return ok
}

func newInterpreter(pr *Program) *interpreter {
	i := &interpreter{
		prog:      pr.Prog,
		program:   pr,
		globals:   make(map[*ssa.Global]*value),
		sizes:     pr.Sizes,
		protected: map[interface{}]string{},
		initDone:  map[*ssa.Package]bool{},
	}
	if rt := i.prog.ImportedPackage("runtime"); rt != nil {
		if es := rt.Type("errorString"); es != nil {
			i.runtimeErrorString = es.Object().Type()
		}
	}
	if i.runtimeErrorString == nil {
		i.runtimeErrorString = types.Typ[types.String]
	}
	initReflect(i)
	for _, pkg := range i.prog.AllPackages() {
		for _, m := range pkg.Members {
			if v, ok := m.(*ssa.Global); ok {
				cell := zero(mustDeref(v.Type()))
				i.globals[v] = &cell
			}
		}
	}
	return i
}

// runInits runs the init functions of the selected packages concretely.
//
// Only the packages linked into the binary of the entry function (its
// package and the transitive imports) are initialised, in dependency order.
func (i *interpreter) runInits(entry *ssa.Function) (err error) {
	var linked map[*types.Package]bool
	if entry != nil && entry.Pkg != nil {
		linked = map[*types.Package]bool{}
		var visit func(p *types.Package)
		visit = func(p *types.Package) {
			if linked[p] {
				return
			}
			linked[p] = true
			for _, q := range p.Imports() {
				visit(q)
			}
		}
		visit(entry.Pkg.Pkg)
	}
	defer func() {
		if r := recover(); r != nil {
			switch r := r.(type) {
			case targetPanic:
				err = fmt.Errorf("panic during init: %s\n%s", panicString(r.v), r.stack)
			case engineError:
				err = fmt.Errorf("engine error during init: %s", r.msg)
			default:
				err = fmt.Errorf("crash during init: %v\ninterpreted stack:\n%s\nhost stack:\n%s", r, i.stack(), debug.Stack())
			}
		}
	}()
	for _, pkg := range i.program.initPkgs {
		if i.initDone[pkg] || (linked != nil && !linked[pkg.Pkg]) {
			continue
		}
		i.initDone[pkg] = true
		if fn := pkg.Func("init"); fn != nil {
			i.callInit(fn)
		}
	}
	return nil
}

// callInit runs a package init but skips the calls to dependency inits
// (those are run, selectively, by runInits in dependency order).
func (i *interpreter) callInit(fn *ssa.Function) {
	call(i, nil, 0, fn, nil)
}

// stack renders the interpreted call stack.
func (i *interpreter) stack() string {
	var b strings.Builder
	n := 0
	for fr := i.cur; fr != nil && n < 40; fr = fr.caller {
		pos := ""
		if fr.block != nil {
			// best effort: position of the function
		}
		fmt.Fprintf(&b, "  %s%s\n", fr.fn.String(), pos)
		n++
	}
	return b.String()
}

// truth converts a branch condition to a concrete bool, forking if symbolic.
func (i *interpreter) truth(c value) bool {
	switch c := c.(type) {
	case bool:
		return c
	case sym:
		return i.path.branch(c.t)
	}
	panic(engineError{fmt.Sprintf("branch on %T", c)})
}

// concInt yields a concrete int64 for v; a symbolic v is concretised by
// forking over 0..bound.
func (i *interpreter) concInt(v value, what string) int64 {
	if s, ok := v.(sym); ok {
		return int64(i.concretizeInt(s.t, 0, i.path.ex.opts.bound("concint", 8)))
	}
	return asInt64(v)
}

func (i *interpreter) nilDeref() {
	panic(targetPanic{v: "runtime error: invalid memory address or nil pointer dereference", stack: i.stack()})
}

// noteWrite is the write monitor: target is a *value cell or a *gmap.
func (i *interpreter) noteWrite(target interface{}, what string) {
	if i.path == nil || len(i.protected) == 0 {
		return
	}
	if name, ok := i.protected[target]; ok {
		i.path.violation("write", fmt.Sprintf("%s to protected %s", what, name), nil, i.stack())
	}
}

func (i *interpreter) setCell(addr *value, v value) {
	if i.path != nil {
		i.path.logStore(addr)
		if len(i.protected) > 0 {
			i.noteWrite(addr, "store")
		}
	}
	*addr = v
}

func (i *interpreter) store(T types.Type, addr *value, v value) {
	switch T := T.Underlying().(type) {
	case *types.Struct:
		lhs, ok := (*addr).(structure)
		if !ok {
			// pending lazy struct being overwritten wholesale
			i.setCell(addr, v)
			return
		}
		rhs := v.(structure)
		for k := range lhs {
			i.store(T.Field(k).Type(), &lhs[k], rhs[k])
		}
	case *types.Array:
		lhs := (*addr).(array)
		rhs := v.(array)
		for k := range lhs {
			i.store(T.Elem(), &lhs[k], rhs[k])
		}
	default:
		i.setCell(addr, v)
	}
}

func (i *interpreter) storeChecked(T types.Type, addr value, v value) {
	p, ok := addr.(*value)
	if !ok {
		panic(engineError{fmt.Sprintf("store through %T", addr)})
	}
	if p == nil {
		i.nilDeref()
	}
	i.store(T, p, v)
}

func (i *interpreter) loadChecked(T types.Type, x value) value {
	p, ok := x.(*value)
	if !ok {
		panic(engineError{fmt.Sprintf("load through %T", x)})
	}
	if p == nil {
		i.nilDeref()
	}
	return i.load(T, p)
}

// load returns the value of type T in *addr, materialising lazy cells.
func (i *interpreter) load(T types.Type, addr *value) value {
	if pend, ok := (*addr).(*lazyPending); ok {
		*addr = i.materialise(pend, T) // engine write: not logged as target store (cell is path-local)
	}
	switch T := T.Underlying().(type) {
	case *types.Struct:
		v := (*addr).(structure)
		a := make(structure, len(v))
		for k := range a {
			a[k] = i.load(T.Field(k).Type(), &v[k])
		}
		return a
	case *types.Array:
		v := (*addr).(array)
		a := make(array, len(v))
		for k := range a {
			a[k] = i.load(T.Elem(), &v[k])
		}
		return a
	default:
		return *addr
	}
}

func (i *interpreter) fieldAddr(instr *ssa.FieldAddr, x value) value {
	p, ok := x.(*value)
	if !ok {
		panic(engineError{fmt.Sprintf("FieldAddr on %T", x)})
	}
	if p == nil {
		i.nilDeref()
	}
	if pend, ok := (*p).(*lazyPending); ok {
		*p = i.materialise(pend, mustDeref(instr.X.Type()))
	}
	return &(*p).(structure)[instr.Field]
}

func (i *interpreter) indexCheck(idx value, n int, what string) int {
	if s, ok := idx.(sym); ok {
		inb := And(Ge(s.t, IntLit(0)), Lt(s.t, IntLit(int64(n))))
		if !i.path.branch(inb) {
			panic(targetPanic{v: fmt.Sprintf("runtime error: index out of range [symbolic] with length %d (%s)", n, what), stack: i.stack()})
		}
		return i.concretizeInt(s.t, 0, n-1)
	}
	k := asInt64(idx)
	if k < 0 || k >= int64(n) {
		panic(targetPanic{v: fmt.Sprintf("runtime error: index out of range [%d] with length %d", k, n), stack: i.stack()})
	}
	return int(k)
}

func (i *interpreter) indexAddr(x, idx value) value {
	switch x := x.(type) {
	case []value:
		return &x[i.indexCheck(idx, len(x), "slice")]
	case *lazySlice:
		return x.indexAddr(i, idx)
	case *value: // *array
		if x == nil {
			i.nilDeref()
		}
		a := (*x).(array)
		return &a[i.indexCheck(idx, len(a), "array")]
	}
	panic(engineError{fmt.Sprintf("unexpected x type in IndexAddr: %T", x)})
}

func (i *interpreter) index(x, idx value) value {
	switch x := x.(type) {
	case array:
		return x[i.indexCheck(idx, len(x), "array")]
	case string:
		if isSym(idx) {
			return i.symIndexString(x, idx)
		}
		return x[i.indexCheck(idx, len(x), "string")]
	case sym:
		return i.symIndexString(x, idx)
	}
	panic(engineError{fmt.Sprintf("unexpected x type in Index: %T", x)})
}

func (i *interpreter) asIface(v value) iface {
	switch v := v.(type) {
	case iface:
		return v
	case *lazyIface:
		return v.resolve(i)
	}
	panic(engineError{fmt.Sprintf("expected interface value, got %T", v)})
}

func (i *interpreter) makeInterface(t types.Type, v value) value {
	return iface{t: t, v: v}
}

// eqnilT is eqnil returning a term.
func (i *interpreter) eqnilT(t types.Type, x, y value) *Term {
	if lx, ok := x.(*lazyIface); ok {
		return lx.equalsT(i, t, y)
	}
	if ly, ok := y.(*lazyIface); ok {
		return ly.equalsT(i, t, x)
	}
	if lx, ok := x.(*lazySlice); ok {
		return BoolLit(lx.isNil(i) == sliceIsNil(i, y))
	}
	if ly, ok := y.(*lazySlice); ok {
		return BoolLit(ly.isNil(i) == sliceIsNil(i, x))
	}
	switch t.Underlying().(type) {
	case *types.Map, *types.Signature, *types.Slice:
		return BoolLit(eqnil(t, x, y))
	}
	return equalsT(t, x, y)
}

func sliceIsNil(i *interpreter, v value) bool {
	switch v := v.(type) {
	case []value:
		return v == nil
	case *lazySlice:
		return v.isNil(i)
	}
	panic(engineError{fmt.Sprintf("sliceIsNil %T", v)})
}

func (i *interpreter) appendSlice(dst, src []value) []value {
	if len(src) == 0 {
		return dst
	}
	if len(dst)+len(src) <= cap(dst) {
		// in-place append: log the cells that get overwritten
		ext := dst[:len(dst)+len(src)]
		for k := len(dst); k < len(ext); k++ {
			i.setCell(&ext[k], src[k-len(dst)])
		}
		return ext
	}
	return append(dst, src...)
}

func (i *interpreter) copySlice(dst, src []value) value {
	n := len(dst)
	if len(src) < n {
		n = len(src)
	}
	tmp := make([]value, n)
	copy(tmp, src[:n])
	for k := 0; k < n; k++ {
		i.setCell(&dst[k], tmp[k])
	}
	return n
}

// symStringIter ranges over a symbolic string byte-wise; the string is
// assumed ASCII (stated bound), so runes are bytes.
type symStringIter struct {
	in *interpreter
	s  *Term
	i  int
}

func (it *symStringIter) next() tuple {
	if it.i == 0 {
		it.in.path.Assume(InRe(it.s, `(re.* (re.range "\u{0}" "\u{7f}"))`))
	}
	if it.in.path.branch(Lt(IntLit(int64(it.i)), StrLen(it.s))) {
		ch := mkval(StrCode(StrAt(it.s, IntLit(int64(it.i)))), types.Int32)
		k := it.i
		it.i++
		if it.i > it.in.path.ex.opts.bound("strlen", 16)+1 {
			panic(engineError{"unwinding assertion: range over string longer than strlen bound"})
		}
		return tuple{true, k, ch}
	}
	return tuple{false, nil, nil}
}
