// Copyright 2013 The Go Authors. All rights reserved.
// Use of this source code is governed by a BSD-style
// license that can be found in the LICENSE file.

// Package ssa/interp defines an interpreter for the SSA
// representation of Go programs.
//
// This interpreter is provided as an adjunct for testing the SSA
// construction algorithm.  Its purpose is to provide a minimal
// metacircular implementation of the dynamic semantics of each SSA
// instruction.  It is not, and will never be, a production-quality Go
// interpreter.
//
// The following is a partial list of Go features that are currently
// unsupported or incomplete in the interpreter.
//
// * Unsafe operations, including all uses of unsafe.Pointer, are
// impossible to support given the "boxed" value representation we
// have chosen.
//
// * The reflect package is only partially implemented.
//
// * The "testing" package is no longer supported because it
// depends on low-level details that change too often.
//
// * "sync/atomic" operations are not atomic due to the "boxed" value
// representation: it is not possible to read, modify and write an
// interface value atomically. As a consequence, Mutexes are currently
// broken.
//
// * recover is only partially implemented.  Also, the interpreter
// makes no attempt to distinguish target panics from interpreter
// crashes.
//
// * the sizes of the int, uint and uintptr types in the target
// program are assumed to be the same as those of the interpreter
// itself.
//
// * all values occupy space, even those of types defined by the spec
// to have zero size, e.g. struct{}.  This can cause asymptotic
// performance degradation.
//
// * os.Exit is implemented using panic, causing deferred functions to
// run.
package interp // import "golang.org/x/tools/go/ssa/interp"

import (
	"fmt"
	"go/token"
	"go/types"
	"log"
	"os"
	"reflect"
	"runtime"
	"runtime/debug"
	"slices"
	_ "unsafe"

	"golang.org/x/tools/go/ssa"
)

type continuation int

const (
	kNext continuation = iota
	kReturn
	kJump
)

// Mode is a bitmask of options affecting the interpreter.
type Mode uint

const (
	DisableRecover Mode = 1 << iota // Disable recover() in target programs; show interpreter crash instead.
	EnableTracing                   // Print a trace of all instructions as they are interpreted.
)

type methodSet map[string]*ssa.Function

// State shared between all interpreted goroutines.
type interpreter struct {
	osArgs             []value                // the value of os.Args
	prog               *ssa.Program           // the SSA program
	globals            map[*ssa.Global]*value // addresses of global variables (immutable)
	mode               Mode                   // interpreter options
	reflectPackage     *ssa.Package           // the fake reflect package
	errorMethods       methodSet              // the method set of reflect.error, which implements the error interface.
	rtypeMethods       methodSet              // the method set of rtype, which implements the reflect.Type interface.
	runtimeErrorString types.Type             // the runtime.errorString type
	sizes              types.Sizes            // the effective type-sizing function
	goroutines         int32                  // atomically updated

	// --- symbolic execution state
	program          *Program
	path             *Path // current path (nil while running inits)
	cur              *frame
	symbolicMapOrder bool
	mapOrderBound    int
	protected        map[interface{}]string // cells / maps / slices' first cell that must not be written
	initDone         map[*ssa.Package]bool
	onceInit         map[string]bool
}

type deferred struct {
	fn    value
	args  []value
	instr *ssa.Defer
	tail  *deferred
}

type frame struct {
	i                *interpreter
	caller           *frame
	fn               *ssa.Function
	block, prevBlock *ssa.BasicBlock
	env              map[ssa.Value]value // dynamic values of SSA variables
	locals           []value
	defers           *deferred
	result           value
	panicking        bool
	panic            interface{}
	phitemps         []value // temporaries for parallel phi assignment
}

func (fr *frame) get(key ssa.Value) value {
	switch key := key.(type) {
	case nil:
		// Hack; simplifies handling of optional attributes
		// such as ssa.Slice.{Low,High}.
		return nil
	case *ssa.Function, *ssa.Builtin:
		return key
	case *ssa.Const:
		return constValue(key)
	case *ssa.Global:
		if r, ok := fr.i.globals[key]; ok {
			return r
		}
	}
	if r, ok := fr.env[key]; ok {
		return r
	}
	panic(fmt.Sprintf("get: no value for %T: %v", key, key.Name()))
}

// runDefer runs a deferred call d.
// It always returns normally, but may set or clear fr.panic.
func (fr *frame) runDefer(d *deferred) {
	if fr.i.mode&EnableTracing != 0 {
		fmt.Fprintf(os.Stderr, "%s: invoking deferred function call\n",
			fr.i.prog.Fset.Position(d.instr.Pos()))
	}
	var ok bool
	defer func() {
		if !ok {
			// Deferred call created a new state of panic.
			fr.panicking = true
			fr.panic = recover()
			switch fr.panic.(type) {
			case pathPruned, engineError, pathViolation, exitPanic:
				panic(fr.panic)
			}
		}
	}()
	call(fr.i, fr, d.instr.Pos(), d.fn, d.args)
	ok = true
}

// runDefers executes fr's deferred function calls in LIFO order.
//
// On entry, fr.panicking indicates a state of panic; if
// true, fr.panic contains the panic value.
//
// On completion, if a deferred call started a panic, or if no
// deferred call recovered from a previous state of panic, then
// runDefers itself panics after the last deferred call has run.
//
// If there was no initial state of panic, or it was recovered from,
// runDefers returns normally.
func (fr *frame) runDefers() {
	for d := fr.defers; d != nil; d = d.tail {
		fr.runDefer(d)
	}
	fr.defers = nil
	if fr.panicking {
		panic(fr.panic) // new panic, or still panicking
	}
}

// lookupMethod returns the method set for type typ, which may be one
// of the interpreter's fake types.
func lookupMethod(i *interpreter, typ types.Type, meth *types.Func) *ssa.Function {
	switch typ {
	case rtypeType:
		return i.rtypeMethods[meth.Id()]
	case errorType:
		return i.errorMethods[meth.Id()]
	}
	return i.prog.LookupMethod(typ, meth.Pkg(), meth.Name())
}

// visitInstr interprets a single ssa.Instruction within the activation
// record frame.  It returns a continuation value indicating where to
// read the next instruction from.
func visitInstr(fr *frame, instr ssa.Instruction) continuation {
	switch instr := instr.(type) {
	case *ssa.DebugRef:
		// no-op

	case *ssa.UnOp:
		fr.env[instr] = unop(fr.i, instr, fr.get(instr.X))

	case *ssa.BinOp:
		fr.env[instr] = fr.i.binop(instr.Op, instr.X.Type(), fr.get(instr.X), fr.get(instr.Y))

	case *ssa.Call:
		fn, args := prepareCall(fr, &instr.Call)
		fr.env[instr] = call(fr.i, fr, instr.Pos(), fn, args)

	case *ssa.ChangeInterface:
		fr.env[instr] = fr.get(instr.X)

	case *ssa.ChangeType:
		fr.env[instr] = fr.get(instr.X) // (can't fail)

	case *ssa.Convert:
		fr.env[instr] = fr.i.conv(instr.Type(), instr.X.Type(), fr.get(instr.X))

	case *ssa.SliceToArrayPointer:
		fr.env[instr] = sliceToArrayPointer(instr.Type(), instr.X.Type(), fr.get(instr.X))

	case *ssa.MakeInterface:
		fr.env[instr] = fr.i.makeInterface(instr.X.Type(), fr.get(instr.X))

	case *ssa.Extract:
		fr.env[instr] = fr.get(instr.Tuple).(tuple)[instr.Index]

	case *ssa.Slice:
		fr.env[instr] = fr.i.slice(fr.get(instr.X), fr.get(instr.Low), fr.get(instr.High), fr.get(instr.Max))

	case *ssa.Return:
		switch len(instr.Results) {
		case 0:
		case 1:
			fr.result = fr.get(instr.Results[0])
		default:
			var res []value
			for _, r := range instr.Results {
				res = append(res, fr.get(r))
			}
			fr.result = tuple(res)
		}
		fr.block = nil
		return kReturn

	case *ssa.RunDefers:
		fr.runDefers()

	case *ssa.Panic:
		panic(targetPanic{v: fr.get(instr.X), stack: fr.i.stack()})

	case *ssa.Send:
		fr.get(instr.Chan).(chan value) <- fr.get(instr.X)

	case *ssa.Store:
		fr.i.storeChecked(mustDeref(instr.Addr.Type()), fr.get(instr.Addr), fr.get(instr.Val))

	case *ssa.If:
		succ := 1
		if fr.i.truth(fr.get(instr.Cond)) {
			succ = 0
		}
		fr.prevBlock, fr.block = fr.block, fr.block.Succs[succ]
		return kJump

	case *ssa.Jump:
		fr.prevBlock, fr.block = fr.block, fr.block.Succs[0]
		return kJump

	case *ssa.Defer:
		fn, args := prepareCall(fr, &instr.Call)
		defers := &fr.defers
		if into := fr.get(instr.DeferStack); into != nil {
			defers = into.(**deferred)
		}
		*defers = &deferred{
			fn:    fn,
			args:  args,
			instr: instr,
			tail:  *defers,
		}

	case *ssa.Go:
		// Sequentialised: the goroutine body runs to completion at the spawn
		// point (one legal schedule; interleavings are the subject of ConcHB).
		fn, args := prepareCall(fr, &instr.Call)
		if fr.i.path != nil {
			fr.i.path.events = append(fr.i.path.events, Event{Kind: "go"})
		}
		call(fr.i, fr, instr.Pos(), fn, args)

	case *ssa.MakeChan:
		fr.env[instr] = make(chan value, fr.i.concInt(fr.get(instr.Size), "chan size"))

	case *ssa.Alloc:
		var addr *value
		if instr.Heap {
			// new
			addr = new(value)
			fr.env[instr] = addr
		} else {
			// local
			addr = fr.env[instr].(*value)
		}
		*addr = zero(mustDeref(instr.Type()))

	case *ssa.MakeSlice:
		slice := make([]value, fr.i.concInt(fr.get(instr.Cap), "make cap"))
		tElt := instr.Type().Underlying().(*types.Slice).Elem()
		for i := range slice {
			slice[i] = zero(tElt)
		}
		fr.env[instr] = slice[:fr.i.concInt(fr.get(instr.Len), "make len")]

	case *ssa.MakeMap:
		fr.env[instr] = makeMap(instr.Type().Underlying().(*types.Map).Key(), 0)

	case *ssa.Range:
		fr.env[instr] = fr.i.rangeIter(fr.get(instr.X), instr.X.Type())

	case *ssa.Next:
		fr.env[instr] = fr.get(instr.Iter).(iter).next()

	case *ssa.FieldAddr:
		fr.env[instr] = fr.i.fieldAddr(instr, fr.get(instr.X))

	case *ssa.Field:
		st := fr.get(instr.X).(structure)
		if pend, ok := st[instr.Field].(*lazyPending); ok {
			ft := instr.X.Type().Underlying().(*types.Struct).Field(instr.Field).Type()
			st[instr.Field] = fr.i.materialise(pend, ft)
		}
		fr.env[instr] = st[instr.Field]

	case *ssa.IndexAddr:
		fr.env[instr] = fr.i.indexAddr(fr.get(instr.X), fr.get(instr.Index))

	case *ssa.Index:
		fr.env[instr] = fr.i.index(fr.get(instr.X), fr.get(instr.Index))

	case *ssa.Lookup:
		fr.env[instr] = fr.i.lookup(instr, fr.get(instr.X), fr.get(instr.Index))

	case *ssa.MapUpdate:
		m := fr.get(instr.Map)
		key := fr.get(instr.Key)
		v := fr.get(instr.Value)
		switch m := m.(type) {
		case *gmap:
			m.insert(fr.i, key, v)
		default:
			panic(fmt.Sprintf("illegal map type: %T", m))
		}

	case *ssa.TypeAssert:
		if lz, ok := fr.get(instr.X).(*lazyIface); ok {
			fr.env[instr] = fr.i.typeAssertLazy(instr, lz)
		} else {
			fr.env[instr] = typeAssert(fr.i, instr, fr.i.asIface(fr.get(instr.X)))
		}

	case *ssa.MakeClosure:
		var bindings []value
		for _, binding := range instr.Bindings {
			bindings = append(bindings, fr.get(binding))
		}
		fr.env[instr] = &closure{instr.Fn.(*ssa.Function), bindings}

	case *ssa.Phi:
		log.Fatal("unreachable") // phis are processed at block entry

	case *ssa.Select:
		var cases []reflect.SelectCase
		if !instr.Blocking {
			cases = append(cases, reflect.SelectCase{
				Dir: reflect.SelectDefault,
			})
		}
		for _, state := range instr.States {
			var dir reflect.SelectDir
			if state.Dir == types.RecvOnly {
				dir = reflect.SelectRecv
			} else {
				dir = reflect.SelectSend
			}
			var send reflect.Value
			if state.Send != nil {
				send = reflect.ValueOf(fr.get(state.Send))
			}
			cases = append(cases, reflect.SelectCase{
				Dir:  dir,
				Chan: reflect.ValueOf(fr.get(state.Chan)),
				Send: send,
			})
		}
		chosen, recv, recvOk := reflect.Select(cases)
		if !instr.Blocking {
			chosen-- // default case should have index -1.
		}
		r := tuple{chosen, recvOk}
		for i, st := range instr.States {
			if st.Dir == types.RecvOnly {
				var v value
				if i == chosen && recvOk {
					// No need to copy since send makes an unaliased copy.
					v = recv.Interface().(value)
				} else {
					v = zero(st.Chan.Type().Underlying().(*types.Chan).Elem())
				}
				r = append(r, v)
			}
		}
		fr.env[instr] = r

	default:
		panic(fmt.Sprintf("unexpected instruction: %T", instr))
	}

	// if val, ok := instr.(ssa.Value); ok {
	// 	fmt.Println(toString(fr.env[val])) // debugging
	// }

	return kNext
}

// prepareCall determines the function value and argument values for a
// function call in a Call, Go or Defer instruction, performing
// interface method lookup if needed.
func prepareCall(fr *frame, call *ssa.CallCommon) (fn value, args []value) {
	v := fr.get(call.Value)
	if call.Method == nil {
		// Function call.
		fn = v
	} else {
		// Interface method invocation.
		if lz, ok := v.(*lazyIface); ok {
			if r, handled := fr.i.lazyInvoke(fr, lz, call); handled {
				return immediate{r}, nil
			}
		}
		recv := fr.i.asIface(v)
		if recv.t == nil {
			panic(targetPanic{v: "runtime error: invalid memory address or nil pointer dereference (method invoked on nil interface)", stack: fr.i.stack()})
		}
		if f := lookupMethod(fr.i, recv.t, call.Method); f == nil {
			// Unreachable in well-typed programs.
			panic(fmt.Sprintf("method set for dynamic type %v does not contain %s", recv.t, call.Method))
		} else {
			fn = f
		}
		args = append(args, recv.v)
	}
	for _, arg := range call.Args {
		args = append(args, fr.get(arg))
	}
	return
}

// call interprets a call to a function (function, builtin or closure)
// fn with arguments args, returning its result.
// callpos is the position of the callsite.
func call(i *interpreter, caller *frame, callpos token.Pos, fn value, args []value) value {
	switch fn := fn.(type) {
	case *ssa.Function:
		if fn == nil {
			panic("call of nil function") // nil of func type
		}
		return callSSA(i, caller, callpos, fn, args, nil)
	case *closure:
		return callSSA(i, caller, callpos, fn.Fn, args, fn.Env)
	case *ssa.Builtin:
		return callBuiltin(i, caller, callpos, fn, args)
	case immediate:
		return fn.v
	}
	panic(fmt.Sprintf("cannot call %T", fn))
}

func loc(fset *token.FileSet, pos token.Pos) string {
	if pos == token.NoPos {
		return ""
	}
	return " at " + fset.Position(pos).String()
}

// callSSA interprets a call to function fn with arguments args,
// and lexical environment env, returning its result.
// callpos is the position of the callsite.
func callSSA(i *interpreter, caller *frame, callpos token.Pos, fn *ssa.Function, args []value, env []value) value {
	if i.mode&EnableTracing != 0 {
		fset := fn.Prog.Fset
		// TODO(adonovan): fix: loc() lies for external functions.
		fmt.Fprintf(os.Stderr, "Entering %s%s.\n", fn, loc(fset, fn.Pos()))
		suffix := ""
		if caller != nil {
			suffix = ", resuming " + caller.fn.String() + loc(fset, callpos)
		}
		defer fmt.Fprintf(os.Stderr, "Leaving %s%s.\n", fn, suffix)
	}
	fr := &frame{
		i:      i,
		caller: caller, // for panic/recover
		fn:     fn,
	}
	if i.path != nil {
		i.path.funcs[fn.String()] = true
	}
	{
		name := fn.String()
		if fn.Origin() != nil {
			name = fn.Origin().String()
		}
		if fn.Synthetic == "package initializer" && fn.Pkg != nil && !i.program.initAllowed[fn.Pkg] {
			return nil // inits outside the allow-list are not executed
		}
		if st := i.program.stubFor(name, i.path.entryFn()); st != nil && !(i.path != nil && i.path.noStub[name]) {
			fn = st
			fr.fn = st
			name = st.String()
		}
		if ext := intrinsics[name]; ext != nil {
			saved := i.cur
			i.cur = fr
			defer func() { i.cur = saved }()
			return ext(fr, args)
		}
		if fn.Parent() == nil {
			if ext := externals[name]; ext != nil {
				return ext(fr, args)
			}
		}
		if fn.Blocks == nil {
			panic(engineError{"no code for function: " + name + "\n" + i.stack()})
		}
	}
	return i.runFrameFor(fr, fn, args, env)
}

// runSSA executes the SSA body of fn, bypassing intrinsics.
func (i *interpreter) runSSA(caller *frame, fn *ssa.Function, args []value, env []value) value {
	fr := &frame{i: i, caller: caller, fn: fn}
	return i.runFrameFor(fr, fn, args, env)
}

func (i *interpreter) runFrameFor(fr *frame, fn *ssa.Function, args []value, env []value) value {
	saved := i.cur
	i.cur = fr
	defer func() { i.cur = saved }()

	// generic function body?
	if fn.TypeParams().Len() > 0 && len(fn.TypeArgs()) == 0 {
		panic("interp requires ssa.BuilderMode to include InstantiateGenerics to execute generics")
	}

	fr.env = make(map[ssa.Value]value)
	fr.block = fn.Blocks[0]
	fr.locals = make([]value, len(fn.Locals))
	for i, l := range fn.Locals {
		fr.locals[i] = zero(mustDeref(l.Type()))
		fr.env[l] = &fr.locals[i]
	}
	for i, p := range fn.Params {
		fr.env[p] = args[i]
	}
	for i, fv := range fn.FreeVars {
		fr.env[fv] = env[i]
	}
	for fr.block != nil {
		runFrame(fr)
	}
	// Destroy the locals to avoid accidental use after return.
	for i := range fn.Locals {
		fr.locals[i] = bad{}
	}
	return fr.result
}

// runFrame executes SSA instructions starting at fr.block and
// continuing until a return, a panic, or a recovered panic.
//
// After a panic, runFrame panics.
//
// After a normal return, fr.result contains the result of the call
// and fr.block is nil.
//
// A recovered panic in a function without named return parameters
// (NRPs) becomes a normal return of the zero value of the function's
// result type.
//
// After a recovered panic in a function with NRPs, fr.result is
// undefined and fr.block contains the block at which to resume
// control.
func runFrame(fr *frame) {
	defer func() {
		if fr.block == nil {
			return // normal return
		}
		if fr.i.mode&DisableRecover != 0 {
			return // let interpreter crash
		}
		r := recover()
		switch r.(type) {
		case pathPruned, engineError, pathViolation, exitPanic:
			panic(r) // executor control flow: not visible to the target program
		case runtime.Error:
			// a host run-time error is an interpreter defect, never a target panic
			panic(engineError{fmt.Sprintf("interpreter run-time error in %s: %v\n%s", fr.fn, r, debug.Stack())})
		case string:
			panic(engineError{fmt.Sprintf("interpreter panic in %s: %v\n%s", fr.fn, r, debug.Stack())})
		}
		fr.panicking = true
		fr.panic = r
		if fr.i.mode&EnableTracing != 0 {
			fmt.Fprintf(os.Stderr, "Panicking: %T %v.\n", fr.panic, fr.panic)
		}
		fr.runDefers()
		fr.block = fr.fn.Recover
	}()

	for {
		if fr.i.mode&EnableTracing != 0 {
			fmt.Fprintf(os.Stderr, ".%s:\n", fr.block)
		}

		nonPhis := executePhis(fr)
		for _, instr := range nonPhis {
			if fr.i.mode&EnableTracing != 0 {
				if v, ok := instr.(ssa.Value); ok {
					fmt.Fprintln(os.Stderr, "\t", v.Name(), "=", instr)
				} else {
					fmt.Fprintln(os.Stderr, "\t", instr)
				}
			}
			if p := fr.i.path; p != nil {
				p.steps++
				if p.steps > p.ex.opts.MaxSteps {
					panic(engineError{"step budget exceeded (unwinding assertion): " + fr.fn.String()})
				}
				if p.steps&1023 == 0 && p.ex.abort {
					panic(engineError{"aborted by the memory watchdog"})
				}
			}
			if visitInstr(fr, instr) == kReturn {
				return
			}
			// Inv: kNext (continue) or kJump (last instr)
		}
	}
}

// executePhis executes the phi-nodes at the start of the current
// block and returns the non-phi instructions.
func executePhis(fr *frame) []ssa.Instruction {
	firstNonPhi := -1
	for i, instr := range fr.block.Instrs {
		if _, ok := instr.(*ssa.Phi); !ok {
			firstNonPhi = i
			break
		}
	}
	// Inv: 0 <= firstNonPhi; every block contains a non-phi.

	nonPhis := fr.block.Instrs[firstNonPhi:]
	if firstNonPhi > 0 {
		phis := fr.block.Instrs[:firstNonPhi]
		// Execute parallel assignment of phis.
		//
		// See "the swap problem" in Briggs et al's "Practical Improvements
		// to the Construction and Destruction of SSA Form" for discussion.
		predIndex := slices.Index(fr.block.Preds, fr.prevBlock)
		fr.phitemps = fr.phitemps[:0]
		for _, phi := range phis {
			phi := phi.(*ssa.Phi)
			if fr.i.mode&EnableTracing != 0 {
				fmt.Fprintln(os.Stderr, "\t", phi.Name(), "=", phi)
			}
			fr.phitemps = append(fr.phitemps, fr.get(phi.Edges[predIndex]))
		}
		for i, phi := range phis {
			fr.env[phi.(*ssa.Phi)] = fr.phitemps[i]
		}
	}
	return nonPhis
}

// doRecover implements the recover() built-in.
func doRecover(caller *frame) value {
	// recover() must be exactly one level beneath the deferred
	// function (two levels beneath the panicking function) to
	// have any effect.  Thus we ignore both "defer recover()" and
	// "defer f() -> g() -> recover()".
	if caller.i.mode&DisableRecover == 0 &&
		caller != nil && !caller.panicking &&
		caller.caller != nil && caller.caller.panicking {
		caller.caller.panicking = false
		p := caller.caller.panic
		caller.caller.panic = nil

		// TODO(adonovan): support runtime.Goexit.
		switch p := p.(type) {
		case targetPanic:
			// The target program explicitly called panic().
			if s, ok := p.v.(string); ok {
				return iface{caller.i.runtimeErrorString, s}
			}
			return p.v
		case runtime.Error:
			// The interpreter encountered a runtime error.
			return iface{caller.i.runtimeErrorString, p.Error()}
		case string:
			// The interpreter explicitly called panic().
			return iface{caller.i.runtimeErrorString, p}
		default:
			panic(fmt.Sprintf("unexpected panic type %T in target call to recover()", p))
		}
	}
	return iface{}
}
