package interp

// Path exploration by stateless re-execution: a path is the sequence of
// choices taken at symbolic fork points. Workers pull choice scripts from a
// shared frontier, re-run the harness from its start following the script and
// ask the solver only about decisions beyond the script.

import (
	"fmt"
	"go/types"
	"math/big"
	"os"
	"runtime"
	"runtime/debug"
	"sort"
	"strings"
	"sync"
	"time"

	"golang.org/x/tools/go/ssa"
)

type Options struct {
	Solver            string // cvc5 | z3 | z3-new
	TimeoutMs         int
	Workers           int
	MaxPaths          int
	MaxSteps          int64 // instruction budget per path (unwinding guard)
	Bounds            map[string]int
	Verbose           bool
	StopAtFirst       bool // stop exploring after the first violation candidate
	MaxViol           int  // keep at most this many violation candidates
	SolverLogDir      string
	Fallback          string // second solver asked when the first says unknown
	FallbackTimeoutMs int
	Seed              int
	SampleModels      int // keep models of this many violation-free paths (translator validation)
	MapOrder          int // >0: iteration order of maps with at most this many entries is symbolic
}

func (o *Options) bound(name string, def int) int {
	if v, ok := o.Bounds[name]; ok {
		return v
	}
	return def
}

type Event struct {
	Kind string
	Args []value
}

// Violation is a candidate counterexample: a feasible path on which an
// assertion fails, a panic escapes, or a monitor fires.
type Violation struct {
	Kind      string // assert | panic | write | engine
	Msg       string
	Model     map[string]ModelVal
	VarOrder  []string
	Decisions []int
	Trace     []string // rendered events
	Stack     string
	// Speculative: the solver did not decide the assertion; the model only
	// satisfies the path condition and counts only if native replay fails.
	Speculative bool
}

type Result struct {
	Harness      string
	Paths        int // completed paths (feasible executions)
	Pruned       int // paths ended by Assume(false)
	Forks        int
	Inconclusive []string // reasons (budget, unknown at assertion, engine error, unwinding)
	Violations   []*Violation
	// Unrealisable: candidates dropped because their model describes no Go program
	Unrealisable int
	Reached      map[string]int
	Stats        SolverStats
	Wall         time.Duration
	Samples      []string
	Asserts      int // assertion checks discharged (unsat or concrete true)
	Steps        int64
	MaxDepth     int
	Funcs        map[string]bool // SSA functions executed
	PathModels   []PathModel
}

// PathModel is a concrete witness of an explored feasible path.
type PathModel struct {
	Decisions []int
	Model     map[string]ModelVal
	Reached   []string
	Panicked  bool
}

type Explorer struct {
	prog     *Program
	opts     Options
	entry    *ssa.Function
	mu       sync.Mutex
	cond     *sync.Cond
	front    [][]int
	active   int
	started  int
	res      *Result
	stop     bool
	t0       time.Time
	perShape map[string]int
	perClass map[string]int
	abort    bool // set by the watchdog: running paths end at their next instruction
	rng      uint64
}

type undoRec struct {
	addr *value
	old  value
	fn   func()
}

type Path struct {
	noStub     map[string]bool // environment functions whose model is switched off on this path (gsxrt.RealEnv)
	ex         *Explorer
	solver     *Solver
	script     []int
	pos        int
	decisions  []int
	pc         []*Term
	sorts      map[string]Sort
	varOrder   []string
	nameCount  map[string]int
	undo       []undoRec
	steps      int64
	events     []Event
	reached    map[string]bool
	asserts    int
	forks      int
	lz         *lazyState
	memo       map[string]value    // per-path memo tables for stubs
	extraModel map[string]ModelVal // nondeterministic choices that are not solver variables
	funcs      map[string]bool
}

// control-flow panics
type pathPruned struct{ why string }
type engineError struct{ msg string }
type pathViolation struct{}

func (p *Path) logStore(addr *value) {
	p.undo = append(p.undo, undoRec{addr: addr, old: *addr})
}

func (p *Path) logUndo(fn func()) {
	p.undo = append(p.undo, undoRec{fn: fn})
}

func (p *Path) rollback() {
	for i := len(p.undo) - 1; i >= 0; i-- {
		u := p.undo[i]
		if u.fn != nil {
			u.fn()
		} else {
			*u.addr = u.old
		}
	}
	p.undo = nil
}

// Fresh returns a fresh symbolic constant. Names are deterministic per path.
func (p *Path) Fresh(name string, s Sort) *Term {
	n := p.nameCount[name]
	p.nameCount[name] = n + 1
	full := name
	if n > 0 {
		full = fmt.Sprintf("%s#%d", name, n)
	}
	full += map[Sort]string{SBool: "?b", SInt: "?i", SStr: "?s"}[s]
	p.sorts[full] = s
	p.varOrder = append(p.varOrder, full)
	return Var(full, s)
}

func (p *Path) Assume(t *Term) {
	if t.lit {
		if !t.b {
			panic(pathPruned{"assume false"})
		}
		return
	}
	p.pc = append(p.pc, t)
}

// fork chooses one of the alternatives (constraints). Alternatives must be
// jointly exhaustive under the path condition.
func (p *Path) fork(alts []*Term) int {
	// fast path: only one non-false alternative
	live := -1
	nlive := 0
	for i, a := range alts {
		if !(a.lit && !a.b) {
			live = i
			nlive++
		}
	}
	if nlive == 0 {
		panic(pathPruned{"no alternative"})
	}
	if nlive == 1 && alts[live].lit {
		return live
	}
	p.forks++
	if p.ex != nil && p.ex.abort {
		// the solver answers "unknown" from now on: no decision can be taken
		panic(engineError{"aborted by the time/memory watchdog"})
	}
	if p.pos < len(p.script) {
		c := p.script[p.pos]
		p.pos++
		p.decisions = append(p.decisions, c)
		if c >= len(alts) {
			panic(engineError{fmt.Sprintf("script replay diverged: choice %d of %d", c, len(alts))})
		}
		if !alts[c].lit {
			p.pc = append(p.pc, alts[c])
		}
		return c
	}
	var feas []int
	for i, a := range alts {
		if a.lit {
			if a.b {
				feas = append(feas, i)
			}
			continue
		}
		v, _ := p.solver.Check(p.pc, a, p.sorts, false, nil)
		if v != Unsat {
			feas = append(feas, i)
		}
	}
	if len(feas) == 0 {
		panic(pathPruned{"infeasible"})
	}
	c := feas[0]
	if len(feas) > 1 {
		base := append([]int(nil), p.decisions...)
		p.ex.mu.Lock()
		for _, o := range feas[1:] {
			sc := append(append([]int(nil), base...), o)
			p.ex.front = append(p.ex.front, sc)
		}
		p.ex.cond.Broadcast()
		p.ex.mu.Unlock()
	}
	p.decisions = append(p.decisions, c)
	p.pos = len(p.decisions)
	p.script = p.decisions
	if !alts[c].lit {
		p.pc = append(p.pc, alts[c])
	}
	return c
}

func (p *Path) branch(c *Term) bool {
	if c.lit {
		return c.b
	}
	return p.fork([]*Term{c, Not(c)}) == 0
}

// choose is an n-way nondeterministic choice (no constraint).
func (p *Path) choose(n int) int {
	if n <= 1 {
		return 0
	}
	alts := make([]*Term, n)
	for i := range alts {
		alts[i] = TTrue
	}
	// force a real fork even though all alternatives are literal true
	p.forks++
	if p.pos < len(p.script) {
		c := p.script[p.pos]
		p.pos++
		p.decisions = append(p.decisions, c)
		return c
	}
	base := append([]int(nil), p.decisions...)
	p.ex.mu.Lock()
	for o := 1; o < n; o++ {
		sc := append(append([]int(nil), base...), o)
		p.ex.front = append(p.ex.front, sc)
	}
	p.ex.cond.Broadcast()
	p.ex.mu.Unlock()
	p.decisions = append(p.decisions, 0)
	p.pos = len(p.decisions)
	p.script = p.decisions
	return 0
}

func (p *Path) model(extra *Term) (Verdict, map[string]ModelVal) {
	v, m := p.solver.Check(p.pc, extra, p.sorts, true, p.varOrder)
	if v == Sat {
		if m == nil {
			m = map[string]ModelVal{}
		}
		for k, x := range p.extraModel {
			m[k] = x
		}
	}
	return v, m
}

// recordChoice stores a nondeterministic choice under the name the native
// replay run-time will ask for.
func (p *Path) recordChoice(name string, c int) {
	n := p.nameCount["choose:"+name]
	p.nameCount["choose:"+name] = n + 1
	full := "choose:" + name
	if n > 0 {
		full = fmt.Sprintf("%s#%d", full, n)
	}
	if p.extraModel == nil {
		p.extraModel = map[string]ModelVal{}
	}
	p.extraModel[full+"?c"] = ModelVal{S: SInt, I: big.NewInt(int64(c))}
}

func (p *Path) renderEvents() []string {
	var out []string
	for _, e := range p.events {
		var b strings.Builder
		b.WriteString(e.Kind)
		for _, a := range e.Args {
			b.WriteByte(' ')
			b.WriteString(showValue(a))
		}
		out = append(out, b.String())
	}
	return out
}

func (p *Path) violation(kind, msg string, extra *Term, stack string) {
	v, m := p.model(extra)
	ex := p.ex
	if v == Unsat {
		return // not actually feasible
	}
	ex.mu.Lock()
	defer ex.mu.Unlock()
	if v == Unknown {
		ex.res.Inconclusive = append(ex.res.Inconclusive, fmt.Sprintf("%s candidate (%s) with unknown feasibility", kind, msg))
		return
	}
	// the lazy world is looser than go/types: it records a constant value only for constant
	// expressions. A candidate in which, say, a dereference or a composite literal "has" a
	// constant value describes no program; it is dropped (and counted) rather than kept as one
	// of the few candidates of its class.
	for k, tv := range m {
		if !strings.HasPrefix(k, "info.Types[") || !strings.HasSuffix(k, "].Value#type") || !strings.Contains(tv.Str, "go/constant.") {
			continue
		}
		node := strings.TrimSuffix(strings.TrimPrefix(k, "info.Types["), "].Value#type")
		if nt, ok := m[node+"#type"]; ok {
			switch nt.Str {
			case "*go/ast.BasicLit", "*go/ast.Ident", "*go/ast.ParenExpr", "*go/ast.BinaryExpr", "*go/ast.UnaryExpr", "*go/ast.SelectorExpr", "*go/ast.CallExpr":
			default:
				ex.res.Unrealisable++
				return
			}
			if nt.Str == "*go/ast.UnaryExpr" && strings.Contains(tv.Str, "stringVal") {
				ex.res.Unrealisable++ // no unary operator yields a string constant
				return
			}
		}
	}
	viol := &Violation{Kind: kind, Msg: msg, Model: m, VarOrder: append([]string(nil), p.varOrder...),
		Decisions: append([]int(nil), p.decisions...), Trace: p.renderEvents(), Stack: stack}
	// keep at most a few candidates per class (kind + message + innermost frame); within a
	// class prefer structurally different inputs: the bag of node kinds of the lazily built
	// input is the shape, at most 2 candidates per shape and 6 per class
	cls := kind + "|" + msg + "|" + firstLine(stack)
	if ex.perClass == nil {
		ex.perClass = map[string]int{}
		ex.perShape = map[string]int{}
	}
	var kinds []string
	for k, v := range m {
		if strings.HasSuffix(k, "#type") || strings.HasSuffix(k, "#cands") {
			kinds = append(kinds, v.Str)
		}
	}
	sort.Strings(kinds)
	shape := cls + "|" + strings.Join(kinds, ";")
	if ex.perClass[cls] < 6 && ex.perShape[shape] < 2 && (ex.opts.MaxViol == 0 || len(ex.res.Violations) < ex.opts.MaxViol) {
		ex.perClass[cls]++
		ex.perShape[shape]++
		ex.res.Violations = append(ex.res.Violations, viol)
	}
	if ex.opts.StopAtFirst {
		ex.stop = true
		ex.cond.Broadcast()
	}
}

// Assert checks a property term on the current path.
func (p *Path) Assert(c *Term, msg string) {
	p.asserts++
	if c.lit {
		if c.b {
			return
		}
		p.violation("assert", msg, nil, "")
		panic(pathViolation{})
	}
	v, _ := p.solver.Check(p.pc, Not(c), p.sorts, false, nil)
	switch v {
	case Unsat:
		return
	case Unknown:
		// The solver could not decide. Try to settle it by witness: a model of
		// the path condition alone is a concrete input on this path; it is kept
		// as a speculative candidate that only counts if native replay shows
		// the assertion failing. The run stays inconclusive otherwise.
		if v2, m := p.model(nil); v2 == Sat {
			p.ex.mu.Lock()
			p.ex.res.Violations = append(p.ex.res.Violations, &Violation{Kind: "assert", Msg: msg, Model: m, VarOrder: append([]string(nil), p.varOrder...),
				Decisions: append([]int(nil), p.decisions...), Trace: p.renderEvents(), Speculative: true})
			p.ex.mu.Unlock()
		}
		p.ex.mu.Lock()
		p.ex.res.Inconclusive = append(p.ex.res.Inconclusive, "assertion undecided (solver unknown): "+msg)
		p.ex.mu.Unlock()
		p.Assume(c)
		return
	}
	p.violation("assert", msg, Not(c), "")
	// continue on the side where the assertion holds, if feasible
	v2, _ := p.solver.Check(p.pc, c, p.sorts, false, nil)
	if v2 == Unsat {
		panic(pathViolation{})
	}
	p.Assume(c)
}

// ---------------------------------------------------------------------------

type Program struct {
	Prog        *ssa.Program
	Pkgs        map[string]*ssa.Package // by import path
	initPkgs    []*ssa.Package          // packages whose init is run concretely, in dependency order
	Sizes       types.Sizes
	initAllowed map[*ssa.Package]bool
	stubsPkg    map[string]map[string]*ssa.Function
	Stubs       map[string]*ssa.Function // environment function name -> harness model
	Lazy        *LazySpec
	byName      map[string]*ssa.Function
}

func (pr *Program) FindFunc(pkgPath, name string) *ssa.Function {
	pkg := pr.Pkgs[pkgPath]
	if pkg == nil {
		return nil
	}
	return pkg.Func(name)
}

func (pr *Program) Explore(entry *ssa.Function, opts Options) *Result {
	if opts.Workers <= 0 {
		opts.Workers = 14
	}
	if opts.MaxPaths <= 0 {
		opts.MaxPaths = 20000
	}
	if opts.MaxSteps <= 0 {
		opts.MaxSteps = 400_000
	}
	if opts.TimeoutMs <= 0 {
		opts.TimeoutMs = 5000
	}
	if opts.FallbackTimeoutMs <= 0 {
		opts.FallbackTimeoutMs = 20000
	}
	if opts.Solver == "" {
		opts.Solver = "cvc5"
		if opts.Fallback == "" {
			opts.Fallback = "z3-new"
		}
	}
	ex := &Explorer{prog: pr, opts: opts, entry: entry, rng: uint64(opts.Seed)*2654435761 + 12345}
	ex.cond = sync.NewCond(&ex.mu)
	ex.res = &Result{Harness: entry.String(), Reached: map[string]int{}, Funcs: map[string]bool{}}
	ex.front = [][]int{{}}
	t0 := time.Now()
	ex.t0 = t0
	// memory watchdog: a run that outgrows its budget is stopped and reported, never killed by the OS
	done := make(chan struct{})
	go func() {
		limit := uint64(opts.bound("mem_mb", 3000)) << 20
		tick := time.NewTicker(300 * time.Millisecond)
		defer tick.Stop()
		for {
			select {
			case <-done:
				return
			case <-tick.C:
				if w := opts.bound("wall_s", 0); w > 0 && time.Since(t0) > time.Duration(w+5)*time.Second {
					ex.mu.Lock()
					if !ex.abort {
						ex.res.Inconclusive = append(ex.res.Inconclusive, fmt.Sprintf("time budget %ds exhausted while paths were still running", w))
						ex.stop, ex.abort = true, true
						ex.cond.Broadcast()
					}
					ex.mu.Unlock()
				}
				var ms runtime.MemStats
				runtime.ReadMemStats(&ms)
				if ms.HeapAlloc > limit {
					ex.mu.Lock()
					if !ex.stop {
						ex.res.Inconclusive = append(ex.res.Inconclusive, fmt.Sprintf("memory budget %d MB exceeded: exploration stopped", limit>>20))
						ex.stop = true
						ex.abort = true
						ex.cond.Broadcast()
					}
					ex.mu.Unlock()
				}
			}
		}
	}()
	var wg sync.WaitGroup
	for w := 0; w < opts.Workers; w++ {
		wg.Add(1)
		go func(w int) {
			defer wg.Done()
			ex.worker(w)
		}(w)
	}
	wg.Wait()
	close(done)
	ex.res.Wall = time.Since(t0)
	sort.Strings(ex.res.Inconclusive)
	return ex.res
}

func (ex *Explorer) worker(id int) {
	solver, err := NewSolver(ex.opts.Solver, ex.opts.TimeoutMs)
	if err == nil {
		solver.OneShot = []string{"z3-new", "cvc5"}
		solver.OneShotTimeoutMs = ex.opts.FallbackTimeoutMs
		solver.Abort = &ex.abort
		if w := ex.opts.bound("wall_s", 0); w > 0 && w <= 60 {
			// budgeted quick runs do not wait long for a single undecided query
			solver.OneShotTimeoutMs = 6000
		}
	}
	if err != nil {
		ex.mu.Lock()
		ex.res.Inconclusive = append(ex.res.Inconclusive, "solver start failed: "+err.Error())
		ex.stop = true
		ex.cond.Broadcast()
		ex.mu.Unlock()
		return
	}
	defer solver.Close()
	if ex.opts.SolverLogDir != "" {
		f, err := os.Create(fmt.Sprintf("%s/solver-%d.smt2", ex.opts.SolverLogDir, id))
		if err == nil {
			solver.Log = f
			defer f.Close()
		}
	}
	var in *interpreter
	for {
		ex.mu.Lock()
		for len(ex.front) == 0 && ex.active > 0 && !ex.stop {
			ex.cond.Wait()
		}
		if ex.stop || len(ex.front) == 0 {
			ex.mu.Unlock()
			break
		}
		if w := ex.opts.bound("wall_s", 0); w > 0 && time.Since(ex.t0) > time.Duration(w)*time.Second {
			ex.res.Inconclusive = append(ex.res.Inconclusive, fmt.Sprintf("time budget %ds exhausted with %d prefixes unexplored", w, len(ex.front)))
			ex.stop = true
			ex.abort = true
			ex.cond.Broadcast()
			ex.mu.Unlock()
			break
		}
		if ex.started >= ex.opts.MaxPaths {
			ex.res.Inconclusive = append(ex.res.Inconclusive, fmt.Sprintf("path budget %d exhausted with %d prefixes unexplored", ex.opts.MaxPaths, len(ex.front)))
			ex.stop = true
			ex.cond.Broadcast()
			ex.mu.Unlock()
			break
		}
		pick := len(ex.front) - 1
		if ex.opts.Seed != 0 && len(ex.front) > 4 && ex.started%4 == 3 {
			// every fourth path starts from a pseudo-randomly chosen pending prefix:
			// a budgeted run then samples the path tree more evenly than pure depth-first order
			ex.rng = ex.rng*6364136223846793005 + 1442695040888963407
			pick = int((ex.rng >> 33) % uint64(len(ex.front)))
		}
		script := ex.front[pick]
		ex.front[pick] = ex.front[len(ex.front)-1]
		ex.front = ex.front[:len(ex.front)-1]
		ex.active++
		ex.started++
		ex.mu.Unlock()

		if in == nil {
			in = newInterpreter(ex.prog)
			if ex.opts.MapOrder > 0 {
				in.symbolicMapOrder = true
				in.mapOrderBound = ex.opts.MapOrder
			}
			if err := in.runInits(ex.entry); err != nil {
				ex.mu.Lock()
				ex.res.Inconclusive = append(ex.res.Inconclusive, "init failed: "+err.Error())
				ex.stop = true
				ex.active--
				ex.cond.Broadcast()
				ex.mu.Unlock()
				break
			}
		}
		ex.runPath(in, solver, script)

		ex.mu.Lock()
		ex.active--
		ex.cond.Broadcast()
		ex.mu.Unlock()
	}
	ex.mu.Lock()
	st := solver.Stats
	ex.res.Stats.Queries += st.Queries
	ex.res.Stats.Sat += st.Sat
	ex.res.Stats.Unsat += st.Unsat
	ex.res.Stats.Unknown += st.Unknown
	ex.res.Stats.Errors += st.Errors
	ex.res.Stats.Rescued += st.Rescued

	ex.res.Stats.SolveTime += st.SolveTime
	ex.mu.Unlock()
}

func (ex *Explorer) runPath(in *interpreter, solver *Solver, script []int) {
	p := &Path{ex: ex, solver: solver, script: script, sorts: map[string]Sort{}, nameCount: map[string]int{},
		reached: map[string]bool{}, memo: map[string]value{}, funcs: map[string]bool{}, noStub: map[string]bool{}}
	p.lz = newLazyState(p)
	in.path = p
	status := "ok"
	var detail string
	func() {
		defer func() {
			r := recover()
			if r == nil {
				return
			}
			switch r := r.(type) {
			case pathPruned:
				status = "pruned"
				detail = r.why
			case pathViolation:
				status = "violation"
			case engineError:
				status = "engine"
				detail = r.msg
			case targetPanic:
				status = "panic"
				detail = panicString(r.v)
				p.violation("panic", detail, nil, r.stack)
			case exitPanic:
				status = "exit"
				p.events = append(p.events, Event{Kind: "exit", Args: []value{int(r)}})
			default:
				status = "engine"
				detail = fmt.Sprintf("interpreter crash: %v\n%s", r, debug.Stack())
			}
		}()
		call(in, nil, 0, ex.entry, nil)
	}()
	var pm *PathModel
	if status == "ok" || status == "exit" {
		ex.mu.Lock()
		want := len(ex.res.PathModels) < ex.opts.SampleModels
		ex.mu.Unlock()
		if want {
			if v, m := p.model(nil); v == Sat {
				pm = &PathModel{Decisions: append([]int(nil), p.decisions...), Model: m}
				for k := range p.reached {
					pm.Reached = append(pm.Reached, k)
				}
				sort.Strings(pm.Reached)
			}
		}
	}
	p.rollback()
	in.path = nil

	ex.mu.Lock()
	defer ex.mu.Unlock()
	res := ex.res
	if pm != nil && len(res.PathModels) < ex.opts.SampleModels {
		res.PathModels = append(res.PathModels, *pm)
	}
	res.Forks += p.forks
	res.Asserts += p.asserts
	res.Steps += p.steps
	for f := range p.funcs {
		res.Funcs[f] = true
	}
	if len(p.decisions) > res.MaxDepth {
		res.MaxDepth = len(p.decisions)
	}
	switch status {
	case "pruned":
		res.Pruned++
	case "engine":
		res.Inconclusive = append(res.Inconclusive, "engine: "+firstLine(detail))
		if ex.opts.Verbose {
			fmt.Fprintln(os.Stderr, "ENGINE:", detail)
		}
		res.Paths++
	default:
		res.Paths++
	}
	for k := range p.reached {
		res.Reached[k]++
	}
	if len(res.Samples) < 5 && status != "pruned" {
		res.Samples = append(res.Samples, fmt.Sprintf("path %v status=%s pc=%d events=%v", p.decisions, status, len(p.pc), p.renderEvents()))
	}
	if ex.opts.Verbose {
		fmt.Fprintf(os.Stderr, "path %v: %s %s (pc %d, steps %d) events=%v\n", p.decisions, status, firstLine(detail), len(p.pc), p.steps, p.renderEvents())
	}
}

func firstLine(s string) string {
	if i := strings.IndexByte(s, '\n'); i >= 0 {
		return s[:i]
	}
	return s
}

// BindStub replaces calls to the environment function named env (as printed
// by ssa.Function.String) by calls to the harness-level model fn.
func (pr *Program) BindStub(env, pkg string, fn *ssa.Function) {
	pr.Stubs[env] = fn
	if pr.stubsPkg == nil {
		pr.stubsPkg = map[string]map[string]*ssa.Function{}
	}
	if pr.stubsPkg[env] == nil {
		pr.stubsPkg[env] = map[string]*ssa.Function{}
	}
	pr.stubsPkg[env][pkg] = fn
}

// stubFor returns the model bound to env, preferring the one that lives in
// the package of the harness being explored (twin packages carry the same models).
func (pr *Program) stubFor(env string, entry *ssa.Function) *ssa.Function {
	st := pr.Stubs[env]
	if st == nil {
		return nil
	}
	if entry != nil && entry.Pkg != nil {
		if f := pr.stubsPkg[env][entry.Pkg.Pkg.Path()]; f != nil {
			return f
		}
	}
	return st
}

func (p *Path) entryFn() *ssa.Function {
	if p == nil || p.ex == nil {
		return nil
	}
	return p.ex.entry
}
