#!/bin/bash
# Runs every seeded change against the check(s) expected to catch it (scratch worktrees); feed the output to tools/seedmatrix.py.
cd /verif
OUT=${SEEDMATRIX_OUT:-/tmp/seedmatrix}; rm -rf $OUT; mkdir -p $OUT
grep -v '^$' <<'L' | xargs -P ${SEEDMATRIX_JOBS:-4} -I{} sh -c 'cd /verif && tools/seedrun.sh {} 2>&1 | head -3 | cut -c1-400 > "$0/$(echo {} | tr " /:" "___").txt"' $OUT
C01-1 C01 --only rangeValCopy
C01-2 C01 --only badRegexp
C02-1 C03 --only typeDefFirst
C02-1 C02 --only typeDefFirst
C02-2 C02 --only RuleOrder
C03-1 C03 --only FileInfo
C03-2 C03 --only dupCase
C04-1 C05 --only hugeParam
C04-1 C04
C04-2 C04
C05-1 C05 --only commentFormatting
C05-2 C05 --only C18FailurePolicy
C06-1 C06
C06-2 C06
C07-1 C07 --only unnecessaryDefer
C07-2 C07 --only commentFormatting
C08-1 C06 --only Filter
C08-1 C08
C08-2 C08 --only TestVariants
C09-1 C09 --only rule:unslice
C09-2 C09 --only RuleFix
C10-1 C10
C10-2 C10 --only rule:assignOp
C11-1 C11
C11-2 C11
C12-1 C12 --only rule:offBy1
C12-2 C12
C13-1 C13 --only commentedOutCode
C13-2 C13 --only ifElseChain
C14-1 C14 --only SizeOf
C14-2 C14 --only nestingReduce
C15-1 C15
C15-2 C15
C16-1 C16
C16-2 C16
C17-1 C17
C17-2 C17
C18-1 C18
C18-2 C18
C19-1 C19
C19-2 C19
C20-1 C20 --only rule:flagDeref
C20-2 C20 --only flagName
C01-3 C01 --only underef
C02-3 C14 --only SizeOf
C02-3 C05 --only C05SizeOf
C02-3 C02 --only hugeParam
C03-3 C03 --only RuleRunContext
C05-3 C05 --only C05SizeOf
C07-3 C07 --only mapKey
C09-3 C09 --only ParamCombine
C10-3 C10 --only Namesake
C12-3 C12 --only CaseOrder
C13-3 C14 --only SizeOf
C13-3 C13 --only rangeValCopy
C14-3 C14 --only AnalyzerParam
C16-3 C16
C20-3 C20 --only C20ExitAfterDefer
C04-3 C05 --only typeUnparen
C04-3 C04
C06-3 C06
C08-3 C08
C11-3 C11
C15-3 C15
C17-3 C17 --only Groups
C18-3 C18
C19-3 C19
L
cat $OUT/*.txt
