#!/usr/bin/env python3
"""Verifies one seeded change in a scratch worktree of /repo (outside /repo and /verif):
the patch applies to /repo's HEAD, the tree builds, the repository's own test suite
still passes, and the seed's demonstration test passes without the patch and fails with it.
Writes /verif/seeded/<id>/meta.json. Usage: verify_seed.py <id> [--keep-caught]"""
import json, os, re, shutil, subprocess, sys, time

sid = sys.argv[1]
sd = f"/verif/seeded/{sid}"
wt = f"/root/scratch/seed-{sid}"
tmp = f"/root/scratch/tmp-{sid}"
env = dict(os.environ, GOFLAGS="-mod=mod", GOPROXY="off", GOSUMDB="off", GOTOOLCHAIN="local",
           GOMODCACHE="/root/go/pkg/mod", TMPDIR=tmp)

def sh(cmd, cwd=None, timeout=3000):
    p = subprocess.run(cmd, shell=True, cwd=cwd, env=env, stdout=subprocess.PIPE, stderr=subprocess.STDOUT, text=True, timeout=timeout)
    return p.returncode, p.stdout

def cleanup():
    sh(f"git -C /repo worktree remove --force {wt}")
    shutil.rmtree(wt, ignore_errors=True)
    shutil.rmtree(tmp, ignore_errors=True)
    sh("git -C /repo worktree prune")

cleanup()
os.makedirs(tmp, exist_ok=True)
head = sh("git -C /repo rev-parse --short HEAD")[1].strip()
rc, out = sh(f"git -C /repo worktree add --detach {wt} HEAD")
assert rc == 0, out

notes = open(f"{sd}/notes.md").read()
demo = [f for f in os.listdir(sd) if f.endswith("_test.go")][0]
pkgclause = re.search(r"^package (\w+)", open(f"{sd}/{demo}").read(), re.M).group(1)
m = re.search(r"((?:checkers|cmd|linter)[\w/-]*/)[\w]+_test\.go", notes)
destdir = m.group(1) if m else {"main": "cmd/go-critic/", "analyzer": "checkers/analyzer/", "linter": "linter/"}.get(pkgclause, "checkers/")
tests = re.findall(r"^func (Test\w+)\(", open(f"{sd}/{demo}").read(), re.M)
runre = "^(" + "|".join(tests) + ")$"
democmd = f"go test -vet=off -count=1 -run '{runre}' ./{destdir}"

def run_demo():
    shutil.copy(f"{sd}/{demo}", f"{wt}/{destdir}zz_seed_{demo}")
    rc, out = sh(democmd, cwd=wt, timeout=1500)
    os.remove(f"{wt}/{destdir}zz_seed_{demo}")
    return rc, out

meta = {"id": sid, "property": sid.split("-")[0], "verified_against_repo_head": head, "date": time.strftime("%Y-%m-%d")}
rc0, out0 = run_demo()
meta["demo_without_patch"] = {"cmd": democmd, "exit": rc0, "tail": out0.strip().splitlines()[-3:]}

patch = None
for cand in ["patch.diff", "patch.rebased.diff"]:
    if os.path.exists(f"{sd}/{cand}") and sh(f"git apply --check {sd}/{cand}", cwd=wt)[0] == 0:
        patch = cand
        break
meta["patch_file"] = patch
if patch is None:
    meta["status"] = "PATCH-DOES-NOT-APPLY"
else:
    sh(f"git apply {sd}/{patch}", cwd=wt)
    meta["files_changed"] = sh("git diff --stat | tail -1", cwd=wt)[1].strip()
    meta["files"] = sh("git diff --name-only", cwd=wt)[1].split()
    rcb, outb = sh("go build ./... && go test -vet=off -count=1 -run '^$' ./...", cwd=wt)
    meta["builds"] = rcb == 0
    rct, outt = sh("go test -vet=off -count=1 -timeout 25m ./... 2>&1 | grep -v 'no test files'", cwd=wt)
    fails = [l for l in outt.splitlines() if l.startswith("FAIL") or l.startswith("--- FAIL") or l.startswith("panic:")]
    meta["test_suite"] = {"cmd": "go test -vet=off -count=1 -timeout 25m ./...", "passes": len(fails) == 0 and "ok " in outt,
                          "packages_ok": len([l for l in outt.splitlines() if l.startswith("ok ")]), "failures": fails[:5]}
    rc1, out1 = run_demo()
    meta["demo_with_patch"] = {"cmd": democmd, "exit": rc1, "tail": [l for l in out1.strip().splitlines() if l.strip()][-6:]}
    ok = meta["builds"] and meta["test_suite"]["passes"] and rc0 == 0 and rc1 != 0
    meta["status"] = "CONFIRMED" if ok else "NOT-CONFIRMED"
# what it needs to manifest: the section of the author's notes
sec = re.search(r"^##[^\n]*needs[^\n]*\n(.*?)(?=^## )", notes, re.M | re.S | re.I)
meta["needs_to_manifest"] = (sec.group(1).strip() if sec else "")[:1500]
meta["what_i_ran"] = "tools/verify_seed.py: scratch worktree of /repo HEAD outside /repo and /verif; git apply; go build ./...; the repository's whole test suite; the demonstration test without and with the patch; worktree removed afterwards"
old = {}
if os.path.exists(f"{sd}/meta.json"):
    old = json.load(open(f"{sd}/meta.json"))
for k in ("caught_by", "missed_by", "check_runs"):
    if k in old:
        meta[k] = old[k]
json.dump(meta, open(f"{sd}/meta.json", "w"), indent=1)
cleanup()
print(sid, meta["status"], "suite_ok=%s" % meta.get("test_suite", {}).get("passes"), "demo %s -> %s" % (rc0, meta.get("demo_with_patch", {}).get("exit")))
