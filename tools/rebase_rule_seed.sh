#!/bin/bash
# usage: tools/rebase_rule_seed.sh <seed>...   re-creates patch.rebased.diff for seeds that edit the rule source:
# the rules.go hunks are applied 3-way on a scratch worktree of /repo HEAD and the shipped rule data is regenerated.
export GOFLAGS=-mod=mod GOPROXY=off GOSUMDB=off GOTOOLCHAIN=local GOMODCACHE=/root/go/pkg/mod
for id in "$@"; do
  W=/root/scratch/rebase-$id; git -C /repo worktree remove --force $W >/dev/null 2>&1; rm -rf $W
  git -C /repo worktree add --detach $W HEAD >/dev/null 2>&1
  src=/verif/seeded/$id/patch.diff; [ -f /verif/seeded/$id/patch.rebased.diff ] && src=/verif/seeded/$id/patch.rebased.diff
  ( cd $W && git apply --3way --include=checkers/rules/rules.go $src >/dev/null 2>&1
    if grep -q '<<<<<<<' checkers/rules/rules.go; then echo "$id CONFLICT"; else
      cd checkers && go run ./rules/precompile.go -rules ./rules/rules.go -o ./rulesdata/rulesdata.go && cd .. && git add -A >/dev/null && git diff --cached > /verif/seeded/$id/patch.rebased.diff && go build ./... && echo "$id rebased: $(git diff --cached --stat | tail -1)"; fi )
  git -C /repo worktree remove --force $W >/dev/null 2>&1; rm -rf $W
done
git -C /repo worktree prune
