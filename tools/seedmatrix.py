#!/usr/bin/env python3
"""Reads seedrun.sh output lines ("<seed> vs <ID> <args>: exit=.. violations=.. inconclusive=..", followed by
VIOLATION / harness lines) from the files given, records them in seeded/<seed>/meta.json (check_runs) and
prints the markdown table used in DESIGN.md 0.6."""
import json, os, re, sys
runs = {}
for f in sys.argv[1:]:
    cur = None
    for l in open(f):
        m = re.match(r"^(C\d\d-\d) vs (C\d\d) ?(.*): exit=(\d+) violations=(\d+) inconclusive=(\d+)", l)
        if m:
            cur = {"seed": m.group(1), "check": m.group(2), "args": m.group(3).strip(), "exit": int(m.group(4)), "violations": int(m.group(5)), "inconclusive": int(m.group(6)), "detail": ""}
            runs.setdefault(cur["seed"], {})[cur["check"] + " " + cur["args"]] = cur
            continue
        m = re.match(r'^\s+harness=(\S+) class="([^"]*)" ?(.*)', l)
        if m and cur is not None and not cur["detail"]:
            cur["detail"] = m.group(1) + ": " + m.group(2)
            cur["native"] = m.group(3).strip()[:200]
        m = re.match(r'^\s+(rule group .*|rewrite .*)', l)
        if m and cur is not None and not cur["detail"]:
            cur["detail"] = m.group(1)[:200]
rows = []
for seed in sorted(os.listdir("/verif/seeded")):
    mp = f"/verif/seeded/{seed}/meta.json"
    if not os.path.exists(mp):
        continue
    meta = json.load(open(mp))
    cr = meta.get("check_runs", {})
    for k, v in runs.get(seed, {}).items():
        cr[k.strip()] = {"cmd": f"tools/seedrun.sh {seed} {k.strip()}", "exit": v["exit"], "violations": v["violations"], "caught": v["exit"] == 1 and v["violations"] > 0, "reported": v["detail"], "replay": v.get("native", "")}
    meta["check_runs"] = cr
    meta["caught_by"] = sorted(k for k, v in cr.items() if v["caught"])
    meta["missed_by"] = sorted(k for k, v in cr.items() if not v["caught"])
    json.dump(meta, open(mp, "w"), indent=1)
    notes = open(f"/verif/seeded/{seed}/notes.md").readline().strip().lstrip("# ").split(":", 1)[-1].strip()
    caught = "; ".join(f"`check {k}` → {v['reported'][:110]}" for k, v in cr.items() if v["caught"]) or "—"
    missed = "; ".join(f"`check {k}`" for k, v in cr.items() if not v["caught"]) or ""
    rows.append(f"| {seed} | {notes[:110]} | {caught} | {missed} |")
print("| seed | change | caught by (what the check reported) | run without a report |")
print("|---|---|---|---|")
print("\n".join(rows))
