#!/bin/bash
# usage: tools/seedcheck.sh <seed-dir-name> <PROPERTY> [extra check args]
# applies /verif/seeded/<seed>/patch.diff to /repo, runs the quick check, reverts.
seed=$1; prop=$2; shift 2
cd /repo || exit 2
if ! git apply --check /verif/seeded/$seed/patch.diff 2>/dev/null; then
  if [ -f /verif/seeded/$seed/patch.rebased.diff ]; then P=/verif/seeded/$seed/patch.rebased.diff; else echo "PATCH-DOES-NOT-APPLY $seed"; exit 3; fi
else P=/verif/seeded/$seed/patch.diff; fi
git apply $P || exit 3
/verif/bin/check $prop "$@" > /tmp/seedcheck.$seed.$prop.log 2>&1
rc=$?
git checkout -- . ; git clean -fdq -- . 2>/dev/null
echo "$seed vs $prop: exit=$rc  $(grep -c '^VIOLATION' /tmp/seedcheck.$seed.$prop.log) violation line(s), $(grep -c '^INCONCLUSIVE' /tmp/seedcheck.$seed.$prop.log) inconclusive"
grep '^VIOLATION\|^INCONCLUSIVE\|^BROKEN\|^HARNESS' /tmp/seedcheck.$seed.$prop.log | cut -c1-220 | head -6
exit $rc
