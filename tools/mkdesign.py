#!/usr/bin/env python3
"""Splices tools/sec0.md (with SEEDMATRIX replaced by seeded/MATRIX.md) into DESIGN.md between the SEC0 markers."""
sec=open('/verif/tools/sec0.md').read()
try:
    matrix=open('/verif/seeded/MATRIX.md').read()
except FileNotFoundError:
    matrix='(matrix not generated yet)'
sec=sec.replace('SEEDMATRIX',matrix)
d=open('/verif/DESIGN.md').read()
B,E='<!-- SEC0-BEGIN -->','<!-- SEC0-END -->'
if B in d:
    d=d[:d.index(B)]+B+'\n'+sec+'\n'+E+d[d.index(E)+len(E):]
else:
    marker='--------------------------------------------------------------------------------------------------\n\n## 1. Why this family of technique, here'
    assert marker in d
    d=d.replace(marker,'--------------------------------------------------------------------------------------------------\n\n'+B+'\n'+sec+'\n'+E+'\n\n'+marker,1)
open('/verif/DESIGN.md','w').write(d)
print('DESIGN.md updated,',len(d.splitlines()),'lines')
