#!/bin/bash
# usage: tools/seedrun.sh <seed> <PROPERTY> [extra check args]
# Runs a check against a scratch worktree of /repo HEAD with the seeded change applied
# (VERIF_REPO/VERIF_OUT redirect the check; /repo and /verif/evidence stay untouched).
seed=$1; prop=$2; shift 2
W=/root/scratch/chk-$seed-$prop; O=/root/scratch/out-$seed-$prop
git -C /repo worktree remove --force $W >/dev/null 2>&1; rm -rf $W $O; mkdir -p $O
git -C /repo worktree add --detach $W HEAD >/dev/null 2>&1 || { echo "worktree failed"; exit 2; }
P=/verif/seeded/$seed/patch.diff
git -C $W apply --check $P 2>/dev/null || P=/verif/seeded/$seed/patch.rebased.diff
git -C $W apply $P || { echo "PATCH-DOES-NOT-APPLY $seed"; git -C /repo worktree remove --force $W; exit 3; }
VERIF_REPO=$W VERIF_OUT=$O /verif/bin/check $prop "$@" > $O/log 2>&1
rc=$?
echo "$seed vs $prop $*: exit=$rc violations=$(grep -c '^VIOLATION' $O/log) inconclusive=$(grep -c '^INCONCLUSIVE' $O/log)"
grep -A1 '^VIOLATION' $O/log | grep -v '^--' | cut -c1-260 | head -4
grep '^INCONCLUSIVE\|^BROKEN\|^HARNESS' $O/log | cut -c1-200 | head -3
cp $O/log /tmp/seedrun.$seed.$prop.log
git -C /repo worktree remove --force $W >/dev/null 2>&1; rm -rf $W $O; git -C /repo worktree prune
exit $rc
