#!/usr/bin/env python3
"""Regenerates /verif/MANIFEST.json from the table below (kept next to the code so that it stays valid)."""
import json, sys
props=[json.loads(l) for l in open('/verif/properties.jsonl')]
ids=[p['id'] for p in props]

TRUST=("go/packages + go/ssa construction; the vendored x/tools interpreter's concrete semantics extended with symbolic scalars "
       "(validated per run by replaying solver models of explored paths natively); intrinsic models of strings/strconv/fmt listed in DESIGN.md 2.1; "
       "mathematical integers (no overflow); cvc5 1.0 / z3 verdicts (any unknown/error makes the run inconclusive, exit 2)")

claimed={
 "C02":{"category":"model_checking",
   "text":"every hand-written checker's Check is executed twice on the same lazily initialised file with the iteration order of every Go map (<=4 entries) an independent nondeterministic permutation at each range statement; the two diagnostic sequences must be equal; candidates are realised and the real checker is run 200 times natively, only differing outputs count",
   "design_ref":"DESIGN.md 3 C02","technique":"symbolic execution of go/ssa with adversarial map order + SMT, realisation + repeated native replay",
   "note":TRUST+"; bounds: K=2, lists<=3 (4 for the import checkers), maps<=4 entries; goroutine timing is C04; the ruleguard engine's own order is outside"},
 "C03":{"category":"model_checking",
   "text":"one step of history from the initial checker state against a fresh instance: (i) visitor level: instance A visits an arbitrary lazy input y then x, a fresh instance B visits x only; (ii) through SetFileInfo+Check for two lazy files; diagnostics for x must agree. Checkers that assign to their own fields (found by reading the checker sources) get the deep budgets",
   "design_ref":"DESIGN.md 3 C03","technique":"relational symbolic execution of go/ssa (reused vs fresh instance) + SMT, realisation + native replay",
   "note":TRUST+"; one-step history, not an inductive invariant over arbitrary pre-states (deviation from DESIGN 3 C03); package order on the command line outside"},
 "C11":{"category":"translation_validation",
   "text":"the real regexpSimplify checker runs natively on the repository's examples plus ~31k patterns of a bounded grammar; each proposed rewrite A->B is judged by the solver: language equality over all byte strings (regex theory, unbounded) and equality of leftmost-first match extents and all capture-group extents for every subject up to length 4 (6 thorough) through an SMT encoding of Go's backtracking priorities; group counts/names compared natively",
   "design_ref":"DESIGN.md 3 C11","technique":"translation validation: concrete implementation runs, SMT decides equivalence over all subjects (regex theory + bounded leftmost-first encoding), native replay with regexp.FindStringSubmatchIndex",
   "note":"pattern dimension is enumerated, not symbolic; subjects beyond the length bound are covered only by the language query; trusted: regexp/syntax parser, the regexsem encoding (every sat answer was replayed natively), z3/cvc5"},
 "C13":{"category":"model_checking",
   "text":"for two lazily initialised function declarations d1, d2 (source order) the diagnostics of the file [d1,d2] must be those of [d1] followed by those of [d2], for every hand-written checker except the documented file-order ones",
   "design_ref":"DESIGN.md 3 C13","technique":"relational symbolic execution of go/ssa + SMT, realisation + native replay",
   "note":TRUST+"; bounds K=3, lists<=2; padding/blank lines are implied by symbolic positions only; the curated example files are not transformed (second sentence of the property outside)"},
 "C20":{"category":"model_checking",
   "text":"for the checkers whose documented subject is a builtin or a standard package (table in the harness) GSX explores a visit and, when a diagnostic was produced, asserts over the lazy types.Info that the identifier matched by spelling resolves to that builtin / package; candidates are realised with shadowing declarations and confirmed with the real checker plus go/types",
   "design_ref":"DESIGN.md 3 C20","technique":"generalised symbolic execution of go/ssa + SMT, realisation with shadowing declarations + native replay against go/types",
   "note":TRUST+"; 9 hand-written checkers; rule-based checkers outside"},
 "C05":{"category":"model_checking",
   "text":"the C01 explorations with the write monitor: every cell of the lazily created syntax tree, comment lists and types.Info tables is write-protected; any store, map update or in-place append into a protected cell on an explored path is a candidate, realised as a Go program and confirmed by fingerprinting the real tree before/after the real checker runs; registered parameter values are checked around the ruleguard constructor",
   "design_ref":"DESIGN.md 3 C05","technique":"generalised symbolic execution of go/ssa with a write monitor + SMT, realisation + native replay",
   "note":TRUST+"; bounds as C01; go/types objects' internal caches are not protected; rule-based checkers outside"},
 "C07":{"category":"model_checking",
   "text":"the C01 explorations with assertions on every diagnostic in the checker's warning buffer: position is a token-start variable of the lazy input (never NoPos, never a computed value), fix ranges start/end at input positions and are not inverted, message non-empty; the message-formatting stub checks verb/argument counts, nil arguments and format strings built from source text; candidates are realised and the real diagnostics checked against the scanned token starts and file extent",
   "design_ref":"DESIGN.md 3 C07","technique":"generalised symbolic execution of go/ssa + SMT, realisation + native replay with a token-level oracle",
   "note":TRUST+"; bounds as C01; go/printer output and ruleguard-produced positions outside"},
 "C14":{"category":"model_checking",
   "text":"GSX checks (a) flag-cell -> assignCheckerParams -> constructor plumbing in both CLIs and an integrator override, (b) every real constructor stores the documented parameter key in the field it compares against, (c) monotonicity: two instances of a threshold checker differing only in the (symbolic) threshold visit the same lazy input and the relaxed one never reports more, (d) boundary: thresholds t and t+1 pin the flip point to the documented measure (nestingReduce, tooManyResults, hugeParam)",
   "design_ref":"DESIGN.md 3 C14","technique":"relational symbolic execution of go/ssa (two checker instances, one lazy input) + SMT, realisation + native replay over a threshold sweep",
   "note":TRUST+"; bounds as C01 (K=3/4, lists<=2); byte sizes are a symbolic Sizeof stub, so 'sizes quoted equal the platform size' is not covered; analyzer flag plumbing not covered"},
 "C01":{"category":"model_checking",
   "text":"for every hand-written checker found in /repo's current tree GSX builds the checker through its real constructor (symbolic parameter values) and symbolically executes (i) one visit of its visitor on a lazily initialised AST node and (ii) its whole file walker on a small lazily initialised file, over a lazily initialised types.Info / go/types object graph; every Go run-time panic reachable within the bound is a candidate whose structural model is realised as a type-correct Go program (declarations synthesised, go/types as oracle) and replayed through the real checker natively; only reproduced panics are reported",
   "design_ref":"DESIGN.md 3 C01",
   "technique":"generalised symbolic execution (lazy initialisation) of go/ssa + SMT, realisation of counterexamples as Go programs + native replay",
   "note":TRUST+"; bounds: depth K=3 (visit) / 2 (walk), lists <= 2 / 1, strings <= 8, path budget per checker (depth-first, seed-diversified; cut paths are listed in evidence as unexplored); go/ast well-formedness table generated from the go/ast sources; go/types accessors run for real over lazy objects, lazily-resolving go/types functions (Underlying of Named, Identical, Implements, Sizeof, ...) are memoised nondeterministic stubs; text of constant strings is a 2-entry menu; rule-based checkers (ruleguard engine), go/printer output and termination in general are outside"},
 "C18":{"category":"model_checking",
   "text":"GSX executes newRuleguardChecker/newErrorHandler/failOnParseError and the GroupFilter closure from SSA against nondeterministic models of filepath.Glob, os.ReadFile and ruleguard's Engine (a fault schedule: malformed / unmatched / 1-2 files per pattern; each file readable or not, loading fine, with an import fault or a DSL fault), for every failOn subset, the legacy flag, symbolic failOn tokens and symbolic group names/tags/enable/disable keys; the oracle is the statement transcribed; counterexamples are replayed by realising the schedule with real rule files and the real ruleguard loader",
   "design_ref":"DESIGN.md 3 C18",
   "technique":"symbolic execution of go/ssa with environment models + SMT (strings), fault-schedule enumeration by forking, native replay on a real file system",
   "note":TRUST+"; the real ruleguard loader's classification of faults is outside (modelled); bounds: 2 patterns x <=2+1 files, failOn <=2 tokens of <=6 bytes, 1 group with <=2 tags, <=2 enable keys + 1 disable key"},
 "C19":{"category":"model_checking",
   "text":"GSX executes, with the panic monitor on, (*program).loadProgram with a symbolic -go value (package loading stubbed), initCheckers with symbolic constructor failures, three consecutive analyzer passes (runAnalyzer/prepareGocritic/newGocritic/createCheckers) from the initial global state with a symbolic -go value and constructor outcome, and the ruleguard constructor under invalid failOn / unmatched patterns; asserted: never a panic, invalid configuration => error before any checker is created, constructor failure aborts initialisation as a whole, later passes neither crash nor analyse",
   "design_ref":"DESIGN.md 3 C19",
   "technique":"symbolic execution of go/ssa with panic monitor + SMT (strings), native replay",
   "note":TRUST+"; flag parsing itself (unparsable parameter values) and ill-typed target packages are outside this round; bounds: -go value <= 6 bytes, 3 passes"},
 "C15":{"category":"model_checking",
   "text":"GSX executes linter.ParseGoVersion, GoVersion.GreaterOrEqual and Context.SetGoVersion from SSA with the version string / components as solver variables: accepted strings are exactly (go)?<int>.<int> or empty (regular-language oracle), components are read numerically and in order, comparison is numeric lexicographic order with unset = newest; all assertions discharged unsat by cvc5/z3 within |version|<=8",
   "design_ref":"DESIGN.md 3 C15 (a)",
   "technique":"symbolic execution of go/ssa + SMT (strings, ints) bounded model checking, native replay",
   "note":TRUST+"; rule filters and the hand-over of the version to the rule engine are covered only as far as the evidence file lists harnesses"},
 "C06":{"category":"model_checking",
   "text":"GSX executes the three copies of the selection rule ((*program).initCheckers + bindDefaultEnabledList in cmd/go-critic and cmd/gocritic, analyzer.filterCheckersList/newGocritic) from SSA with symbolic tag sets, enable/disable keys and enableAll, against one executable statement of the algebra; constructor calls are observed through checkers registered with the real AddChecker API; empty selection must be an error in all three",
   "design_ref":"DESIGN.md 3 C06",
   "technique":"symbolic execution of go/ssa + SMT (strings) bounded model checking, native replay",
   "note":TRUST+"; bounds: <=2 enable and <=2 disable keys of <=5 bytes (analyzer quick: 1+1), <=2 symbolic tags on the symbolic checker plus one concrete checker; defaults compared under the repo's TestTags invariant"},
 "C16":{"category":"model_checking",
   "text":"GSX executes the real shortenLocation (both CLI copies) from SSA with loc/workDir/GOPATH/GOROOT as solver string variables; every path's assertion 'printed location resolves to the file' is discharged by cvc5 (unsat) within |loc|<=10, roots<=5; counterexamples are replayed natively through go test -overlay before being reported",
   "design_ref":"DESIGN.md 3 C16",
   "technique":"symbolic execution of go/ssa + SMT (strings) bounded model checking, native replay",
   "note":TRUST+"; bounds: strings as stated; exit status / filters parts: see evidence"},
}
checks=[]
for i in ids:
    if i in claimed:
        c=claimed[i]
        checks.append({"property_id":i,
          "quick_cmd":"/verif/bin/check %s --tier quick"%i,
          "thorough_cmd":"/verif/bin/check %s --tier thorough"%i,
          "evidence_file":"/verif/evidence/%s.json"%i,
          "replay_cmd_template":"/verif/bin/check %s --replay {path}"%i,
          "engine":"gsx",
          "level_claimed":{"category":c["category"],"text":c["text"],"design_ref":c["design_ref"]},
          "level_note":c["note"],
          "technique":c["technique"]})
na=[{"property_id":i,"reason":"check not built yet in this round (planned solver-based check: DESIGN.md section 3)"} for i in ids if i not in claimed]
m={"version":1,
 "setup_cmd":"cd /verif/gsx && GOFLAGS=-mod=mod GOPROXY=off GOSUMDB=off GOTOOLCHAIN=local go build -o /verif/bin/check ./cmd/check",
 "hooks":{"guard":"verif","enable":"no hooks: harnesses are overlay files (go/packages Overlay for the encoder, go test -overlay for replay); /repo is never modified by a check",
          "baseline_off_cmd":"cd /repo && go test -mod=mod -vet=off -count=1 -timeout 25m ./...","source_commits":[],"add_only":True},
 "engines":[{"name":"gsx","path":"/verif/gsx","serves_properties":sorted(claimed),"kind_free_text":"symbolic executor over go/ssa (fork of x/tools go/ssa/interp) emitting SMT-LIB2 to cvc5/z3; path exploration by re-execution; native replay of models"}],
 "checks":checks,
 "notes":"see DESIGN.md; known_findings.json lists fixed defects and known findings",
 "not_applicable":na}
json.dump(m,open('/verif/MANIFEST.json','w'),indent=1)
print("claimed",sorted(claimed),"na",len(na))
