package main

import (
	"go/token"
	"strconv"
	"go/types"

	"github.com/go-critic/go-critic/checkers"
	"github.com/go-critic/go-critic/gsxrt"
	"golang.org/x/tools/go/analysis"
)

// environment model of the stock single-checker driver: the analyzer's flags
// are set from the command line, then the analyzer runs once per package.
var (
	gsxEnable string
	gsxLimit  string
	gsxRunErr error
	gsxRan    bool
)

//gsx:stub golang.org/x/tools/go/analysis/singlechecker.Main = gsxStubSinglechecker
func gsxStubSinglechecker(a *analysis.Analyzer) {
	if err := a.Flags.Set("enable", gsxEnable); err != nil {
		panic(err)
	}
	if err := a.Flags.Set("disable", ""); err != nil {
		panic(err)
	}
	if gsxLimit != "" {
		if err := a.Flags.Set("@gsxInitParam.limit", gsxLimit); err != nil {
			panic(err)
		}
	}
	pass := &analysis.Pass{
		Analyzer:   a,
		Fset:       token.NewFileSet(),
		TypesInfo:  &types.Info{},
		TypesSizes: types.SizesFor("gc", "amd64"),
		Report:     func(analysis.Diagnostic) {},
	}
	_, gsxRunErr = a.Run(pass)
	gsxRan = true
}

// gsxC08OfferAnalysis: the analyzer binary, from process start, offers every
// rule group of the built-in rule data (as the CLI does): enabling a group by
// name builds the engine for exactly that group.
func gsxC08OfferAnalysis() {
	world := checkers.GSXWorld()
	key := gsxrt.StringN("enable", 9)
	gsxrt.Assume(gsxrt.Or(key == world[0], key == world[1]))
	gsxEnable = key
	gsxRan = false
	checkers.GSXResetLoads()
	exited := gsxrt.Exits(main)
	gsxrt.Reached("main ended")
	gsxrt.Assert(!exited && gsxRan, "offer: the analyzer binary did not run the analyzer")
	gsxrt.Assert(gsxRunErr == nil, "offer: the analyzer refuses a rule-based checker that the CLI offers (enabled by its name)")
	for _, w := range world {
		want := 0
		if w == key {
			want = 1
		}
		gsxrt.Assert(checkers.GSXLoadsFor(w) == want, "offer: enabling a rule group by name runs exactly that group's checker in the analyzer")
	}
}

// gsxC08ParamAnalysis: the same parameter, in the analyzer's flag dialect,
// reaches the constructor with the same numeric value.
func gsxC08ParamAnalysis() {
	val := gsxrt.StringN("limit", 3)
	gsxrt.Assume(gsxrt.Matches(`^[1-9][0-9]{0,2}$`, val))
	gsxEnable, gsxLimit = "gsxInitParam", val
	gsxRan = false
	checkers.GSXParamReset()
	exited := gsxrt.Exits(main)
	gsxrt.Reached("main ended")
	want, _ := strconv.Atoi(val)
	gsxrt.Assert(!exited && gsxRan && gsxRunErr == nil, "param: the analyzer refuses a numeric checker parameter")
	gsxrt.Assert(checkers.GSXParamSeen() == want, "param: the analyzer builds the checker with the parameter value given as its flag")
	gsxLimit = ""
}
