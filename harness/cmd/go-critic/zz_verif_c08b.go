package main

import (
	"go/ast"
	"go/parser"
	"go/types"
	"strings"

	"github.com/go-critic/go-critic/gsxrt"
	"github.com/go-critic/go-critic/linter"
	"golang.org/x/tools/go/packages"
)

// environment model of go/packages.Load with Tests=true for one import path
// "p": the plain package, and - depending on which test files exist - the
// test variant "p [p.test]" (all files of p plus its in-package tests), the
// external test package "p_test [p.test]" and the generated test main "p.test".
var gsxVariants struct{ inTests, extTests bool }

//gsx:stub golang.org/x/tools/go/packages.Load = gsxStubPackagesLoad
func gsxStubPackagesLoad(cfg *packages.Config, patterns ...string) ([]*packages.Package, error) {
	parse := func(name, src string) *ast.File {
		f, err := parser.ParseFile(cfg.Fset, name, src, parser.ParseComments)
		if err != nil {
			panic(err)
		}
		return f
	}
	mk := func(id, path, name string, files map[string]string, order []string) *packages.Package {
		pkg := &packages.Package{ID: id, PkgPath: path, Name: name, Types: types.NewPackage(path, name), TypesInfo: &types.Info{}}
		for _, fn := range order {
			pkg.GoFiles = append(pkg.GoFiles, fn)
			pkg.CompiledGoFiles = append(pkg.CompiledGoFiles, fn)
			pkg.Syntax = append(pkg.Syntax, parse(fn, files[fn]))
		}
		return pkg
	}
	src := map[string]string{"/w/p/a.go": "package p\n", "/w/p/a_test.go": "package p\n", "/w/p/x_test.go": "package p_test\n", "/w/p/testmain.go": "package main\n"}
	pkgs := []*packages.Package{mk("p", "p", "p", src, []string{"/w/p/a.go"})}
	if gsxVariants.inTests {
		pkgs = append(pkgs, mk("p [p.test]", "p", "p", src, []string{"/w/p/a.go", "/w/p/a_test.go"}))
	}
	if gsxVariants.extTests {
		pkgs = append(pkgs, mk("p_test [p.test]", "p_test", "p_test", src, []string{"/w/p/x_test.go"}))
	}
	if gsxVariants.inTests || gsxVariants.extTests {
		pkgs = append(pkgs, mk("p.test", "p.test", "main", src, []string{"/w/p/testmain.go"}))
	}
	return pkgs, nil
}

// gsxC08TestVariants: for a package with any combination of in-package and
// external tests, every source file the user wrote is analysed exactly once
// by the command (the test variant supersedes the plain package, the external
// test package is analysed next to it, generated test mains do not count).
func gsxC08TestVariants() {
	gsxrt.RealEnv("github.com/go-toolsmith/pkgload.LoadPackages")
	gsxVariants.inTests = gsxrt.Bool("in-package tests")
	gsxVariants.extTests = gsxrt.Bool("external tests")
	gsxrt.CaptureLog()
	info := gsxRegisterWarner("gsxWarnA")
	for _, f := range []string{"a.go", "a_test.go", "x_test.go", "testmain.go"} {
		gsxWarnPlan["gsxWarnA|"+f] = 1
	}
	p := &program{packages: []string{"p"}}
	p.infoList = []*linter.CheckerInfo{info}
	p.filters.enableAll = true
	p.concurrency = 1
	p.checkTests = true
	p.checkGenerated = true
	if err := p.loadProgram(); err != nil {
		panic(err)
	}
	if err := p.initCheckers(); err != nil {
		panic(err)
	}
	if err := p.runCheckers(); err != nil {
		panic(err)
	}
	gsxrt.Reached("analysed")
	count := map[string]int{}
	for _, l := range gsxrt.LogLines() {
		for _, f := range []string{"/w/p/a.go", "/w/p/a_test.go", "/w/p/x_test.go"} {
			if strings.HasPrefix(l, f+":") {
				count[f]++
			}
		}
	}
	want := func(b bool) int {
		if b {
			return 1
		}
		return 0
	}
	gsxrt.Assert(count["/w/p/a.go"] == 1, "variants: a non-test file of the package is not analysed exactly once")
	gsxrt.Assert(count["/w/p/a_test.go"] == want(gsxVariants.inTests), "variants: an in-package test file is not analysed exactly once")
	gsxrt.Assert(count["/w/p/x_test.go"] == want(gsxVariants.extTests), "variants: an external test file is not analysed exactly once")
	for k := range gsxWarnPlan {
		delete(gsxWarnPlan, k)
	}
}
