package main

import (
	"fmt"
	"go/ast"
	"go/parser"
	"go/token"
	"go/types"
	"strings"

	"github.com/go-critic/go-critic/gsxrt"
	"github.com/go-critic/go-critic/linter"
)

// gsxC04Native: native replay for C04 - the real checkFile with several
// checkers, maximal concurrency, repeated; run under the race detector.
func gsxC04Native() {
	fset := token.NewFileSet()
	f, err := parser.ParseFile(fset, "/w/a.go", "package p\n", parser.ParseComments)
	if err != nil {
		panic(err)
	}
	var infos []*linter.CheckerInfo
	for _, n := range []string{"gsxWarnA", "gsxWarnB", "gsxWarnC", "gsxWarnD"} {
		infos = append(infos, gsxRegisterWarner(n))
		gsxWarnPlan[n+"|a.go"] = 2
	}
	first := ""
	for round := 0; round < 40; round++ {
		gsxrt.CaptureLog()
		p := &program{fset: fset}
		p.ctx = linter.NewContext(fset, types.SizesFor("gc", "amd64"))
		p.infoList = infos
		p.filters.enableAll = true
		p.concurrency = 4
		if err := p.initCheckers(); err != nil {
			panic(err)
		}
		p.ctx.SetFileInfo("a.go", f)
		p.checkFile(f)
		out := strings.Join(gsxrt.LogLines(), "\n")
		if round == 0 {
			first = out
		} else if out != first {
			fmt.Println("GSX-ORDER-DIFF")
			fmt.Println(first)
			fmt.Println("---")
			fmt.Println(out)
			return
		}
	}
	_ = ast.File{}
}
