package main

import (
	"strings"

	"github.com/go-critic/go-critic/gsxrt"
)

// gsxC16ShortenLocation: for every location, working directory, GOPATH and
// GOROOT (in arbitrary relation, including one path occurring inside
// another) the shortened location resolves back to the original.
//
//gsx:bound strlen=12
func gsxC16ShortenLocation() {
	loc := gsxrt.StringN("loc", gsxrt.Bound("loclen", 10))
	wd := gsxrt.StringN("workDir", gsxrt.Bound("rootlen", 5))
	gopath := gsxrt.StringN("gopath", gsxrt.Bound("rootlen", 5))
	goroot := gsxrt.StringN("goroot", gsxrt.Bound("rootlen", 5))
	// what parseArgs establishes (addTrailingSlash): roots end in the separator;
	// the unit test also uses an empty working directory.
	gsxrt.Assume(wd == "" || strings.HasSuffix(wd, "/"))
	gsxrt.Assume(strings.HasSuffix(gopath, "/"))
	gsxrt.Assume(strings.HasSuffix(goroot, "/"))
	// token.Position.String() of a file loaded by go/packages: absolute path
	gsxrt.Assume(strings.HasPrefix(loc, "/"))
	gsxrt.Assume(wd == "" || strings.HasPrefix(wd, "/"))
	gsxrt.Assume(strings.HasPrefix(gopath, "/"))
	gsxrt.Assume(strings.HasPrefix(goroot, "/"))
	// os.Getwd, go/build and go/packages hand out clean paths: no empty segment
	gsxrt.Assume(!strings.Contains(loc, "//") && !strings.Contains(wd, "//"))
	gsxrt.Assume(!strings.Contains(gopath, "//") && !strings.Contains(goroot, "//"))

	p := &program{workDir: wd, gopath: gopath, goroot: goroot}
	out := p.shortenLocation(loc)
	gsxrt.Reached("shortened")

	// oracle: the printed location resolves to the real file
	resolved := out
	switch {
	case strings.HasPrefix(out, "./"):
		resolved = wd + out[len("./"):]
	case strings.HasPrefix(out, "$GOPATH/"):
		resolved = gopath + out[len("$GOPATH/"):]
	case strings.HasPrefix(out, "$GOROOT/"):
		resolved = goroot + out[len("$GOROOT/"):]
	}
	gsxrt.Assert(resolved == loc, "printed location does not resolve to the diagnostic's file")
}

// gsxC16RootInsidePath: the layout the property names explicitly - one root
// occurring again further down the path (a repository directory called like
// the GOPATH/GOROOT/working directory). The location is built as
// root ++ mid ++ root' ++ tail where root' is the root without its leading
// separator... i.e. the root's text re-appears; roots long enough for the
// "$GOPATH/" form to win (8 bytes).
func gsxC16RootInsidePath() {
	seg := gsxrt.StringN("seg", 7)
	gsxrt.Assume(gsxrt.Matches(`^[a-z]{7}$`, seg))
	root := "/" + seg + "/"
	mid := gsxrt.StringN("mid", 3)
	tail := gsxrt.StringN("tail", 3)
	gsxrt.Assume(gsxrt.Matches(`^[a-z]*$`, mid) && gsxrt.Matches(`^[a-z.]*$`, tail))
	loc := root + mid + root + tail
	other := "/" + gsxrt.StringN("other", 3) + "/"
	gsxrt.Assume(gsxrt.Matches(`^/[A-Z]*/$`, other))
	p := &program{}
	switch gsxrt.Choose("which", 3) {
	case 0:
		p.workDir, p.gopath, p.goroot = "", root, other
	case 1:
		p.workDir, p.gopath, p.goroot = "", other, root
	case 2:
		p.workDir, p.gopath, p.goroot = root, other, other
	}
	out := p.shortenLocation(loc)
	gsxrt.Reached("shortened")
	resolved := out
	switch {
	case strings.HasPrefix(out, "./"):
		resolved = p.workDir + out[len("./"):]
	case strings.HasPrefix(out, "$GOPATH/"):
		resolved = p.gopath + out[len("$GOPATH/"):]
	case strings.HasPrefix(out, "$GOROOT/"):
		resolved = p.goroot + out[len("$GOROOT/"):]
	}
	gsxrt.Assert(resolved == loc, "printed location does not resolve to the diagnostic's file (root occurs twice)")
}
