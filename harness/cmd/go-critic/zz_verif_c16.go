package main

import (
	"strings"

	"github.com/go-critic/go-critic/gsxrt"
)

// gsxC16ShortenLocation: for every location, working directory, GOPATH and
// GOROOT (in arbitrary relation, including one path occurring inside
// another) the shortened location resolves back to the original.
//
//gsx:bound strlen=12
func gsxC16ShortenLocation() {
	loc := gsxrt.StringN("loc", 10)
	wd := gsxrt.StringN("workDir", 5)
	gopath := gsxrt.StringN("gopath", 5)
	goroot := gsxrt.StringN("goroot", 5)
	// what parseArgs establishes (addTrailingSlash): roots end in the separator;
	// the unit test also uses an empty working directory.
	gsxrt.Assume(wd == "" || strings.HasSuffix(wd, "/"))
	gsxrt.Assume(strings.HasSuffix(gopath, "/"))
	gsxrt.Assume(strings.HasSuffix(goroot, "/"))
	// token.Position.String() of a file loaded by go/packages: absolute path
	gsxrt.Assume(strings.HasPrefix(loc, "/"))
	gsxrt.Assume(wd == "" || strings.HasPrefix(wd, "/"))
	gsxrt.Assume(strings.HasPrefix(gopath, "/"))
	gsxrt.Assume(strings.HasPrefix(goroot, "/"))
	// os.Getwd, go/build and go/packages hand out clean paths: no empty segment
	gsxrt.Assume(!strings.Contains(loc, "//") && !strings.Contains(wd, "//"))
	gsxrt.Assume(!strings.Contains(gopath, "//") && !strings.Contains(goroot, "//"))

	p := &program{workDir: wd, gopath: gopath, goroot: goroot}
	out := p.shortenLocation(loc)
	gsxrt.Reached("shortened")

	// oracle: the printed location resolves to the real file
	resolved := out
	switch {
	case strings.HasPrefix(out, "./"):
		resolved = wd + out[len("./"):]
	case strings.HasPrefix(out, "$GOPATH/"):
		resolved = gopath + out[len("$GOPATH/"):]
	case strings.HasPrefix(out, "$GOROOT/"):
		resolved = goroot + out[len("$GOROOT/"):]
	}
	gsxrt.Assert(resolved == loc, "printed location does not resolve to the diagnostic's file")
}
