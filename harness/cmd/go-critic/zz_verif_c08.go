package main

import (
	"context"
	"strconv"
	"strings"

	"github.com/cristalhq/acmd"
	"github.com/go-critic/go-critic/checkers"
	"github.com/go-critic/go-critic/gsxrt"
)

// environment model of the sub-command runner: `<binary> check <args>`
var (
	gsxCmds    []acmd.Command
	gsxArgs    []string
	gsxCmdName = "check"
)

//gsx:stub github.com/cristalhq/acmd.RunnerOf = gsxStubRunnerOf
func gsxStubRunnerOf(cmds []acmd.Command, cfg acmd.Config) *acmd.Runner {
	gsxCmds = cmds
	return &acmd.Runner{}
}

//gsx:stub (*github.com/cristalhq/acmd.Runner).Run = gsxStubRunnerRun
func gsxStubRunnerRun(r *acmd.Runner) error {
	for _, c := range gsxCmds {
		if c.Name == gsxCmdName {
			return c.ExecFunc(context.Background(), gsxArgs)
		}
	}
	return gsxErr("no check command")
}

// gsxC08OfferCLI: the real main of the command, from process start, offers
// every rule group of the built-in rule data as a checker: enabling a group by
// name builds the engine for exactly that group and the run does not stop
// with a fatal message.
func gsxC08OfferCLI() {
	world := checkers.GSXWorld()
	key := gsxrt.StringN("enable", 9)
	gsxrt.Assume(gsxrt.Or(key == world[0], key == world[1]))
	gsxArgs = []string{"-shorterErrLocation=false", "-enable", key, "-disable", "", "pkg"}
	checkers.GSXResetLoads()
	exited := gsxrt.Exits(main)
	gsxrt.Reached("main ended")
	gsxrt.Assert(!exited, "offer: the command refuses a rule-based checker enabled by its name")
	for _, w := range world {
		want := 0
		if w == key {
			want = 1
		}
		gsxrt.Assert(checkers.GSXLoadsFor(w) == want, "offer: enabling a rule group by name runs exactly that group's checker")
	}
}

// gsxC08ParamCLI: a checker parameter given on the command line reaches the
// checker's constructor with its numeric value (CLI dialect: -@checker.param value).
func gsxC08ParamCLI() {
	val := gsxrt.StringN("limit", 3)
	gsxrt.Assume(gsxrt.Matches(`^[1-9][0-9]{0,2}$`, val))
	gsxArgs = []string{"-shorterErrLocation=false", "-@gsxInitParam.limit", val, "-enable", "gsxInitParam", "-disable", "", "pkg"}
	checkers.GSXParamReset()
	exited := gsxrt.Exits(main)
	gsxrt.Reached("main ended")
	want, _ := strconv.Atoi(val)
	gsxrt.Assert(!exited, "param: the command refuses a numeric checker parameter")
	gsxrt.Assert(checkers.GSXParamSeen() == want, "param: the checker is built with the parameter value given on the command line")
}

// gsxC17DocList: the doc sub-command of the real main lists every rule group
// of the built-in rule data next to the hand-written checkers, each exactly once.
func gsxC17DocList() {
	world := checkers.GSXWorld()
	k := gsxrt.Choose("group", len(world))
	gsxCmdName, gsxArgs = "doc", nil
	exited := gsxrt.Exits(main)
	gsxCmdName = "check"
	gsxrt.Reached("main ended")
	gsxrt.Assert(!exited, "groups: the doc sub-command stops with a fatal message")
	n := 0
	for _, l := range gsxrt.OutLines() {
		if strings.HasPrefix(l, world[k]+" ") {
			n++
		}
	}
	gsxrt.Assert(n == 1, "groups: the doc sub-command does not list a rule group's checker exactly once")
}
