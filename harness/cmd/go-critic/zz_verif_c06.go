package main

import (
	"go/ast"
	"go/token"
	"go/types"

	"github.com/go-critic/go-critic/gsxrt"
	"github.com/go-critic/go-critic/linter"
)

type gsxNopWalker struct{}

func (gsxNopWalker) WalkFile(*ast.File) {}

var (
	gsxConstructed = map[string]bool{}
	gsxCtorFails   = map[string]bool{}
	gsxRegistered  = map[string]*linter.CheckerInfo{}
	gsxColl        = &linter.CheckerCollection{URL: "gsx"}
)

// gsxRegister registers (once per process) a harness checker through the
// real registration API and returns its info with the given tags.
func gsxRegister(name string, tags []string) *linter.CheckerInfo {
	gsxConstructed[name] = false
	if info, ok := gsxRegistered[name]; ok {
		// native replay runs several models in one process: the registry keeps
		// the first registration, only the tags change (under GSX every path
		// starts from the rolled-back registry and registers afresh)
		info.Tags = tags
		return info
	}
	info := &linter.CheckerInfo{
		Name:    name,
		Tags:    tags,
		Summary: "gsx harness checker",
		Before:  "x",
		After:   "y",
		Params: linter.CheckerParams{
			"limit": {Value: 7, Usage: "harness parameter"},
		},
	}
	gsxColl.AddChecker(info, func(ctx *linter.CheckerContext) (linter.FileWalker, error) {
		gsxConstructed[name] = true
		gsxrt.Event("ctor", name)
		if gsxCtorFails[name] {
			return nil, gsxErr("ctor failure")
		}
		return gsxNopWalker{}, nil
	})
	gsxRegistered[name] = info
	return info
}

type gsxErr string

func (e gsxErr) Error() string { return string(e) }

func gsxKeys(prefix string, max int) []string {
	// a list is either absent or has max keys: a key that matches nothing
	// (e.g. "") stands for every shorter list
	n := gsxrt.Choose(prefix+".len", 2) * max
	keys := make([]string, n)
	for i := range keys {
		keys[i] = gsxrt.StringN(prefix+gsxItoa(i), 5)
		// a flag value is split at commas: a key never contains one
		gsxrt.Assume(!gsxrt.Matches(",", keys[i]))
	}
	return keys
}

func gsxItoa(i int) string { return string(rune('0' + i)) }

func gsxTags(prefix string, max int) []string {
	n := gsxrt.Choose(prefix+".ntags", max+1)
	tags := make([]string, n)
	for i := range tags {
		tags[i] = gsxrt.StringN(prefix+".tag"+gsxItoa(i), 3)
		gsxrt.Assume(gsxrt.Matches(`^[a-z]+$`, tags[i])) // addChecker's validation: ^\w+$
		for j := 0; j < i; j++ {
			gsxrt.Assume(tags[i] != tags[j]) // duplicated tags are rejected at registration
		}
	}
	return tags
}

// gsxSelected is the documented algebra, written once as the oracle.
func gsxSelected(name string, tags, enable, disable []string, enableAll bool) bool {
	inNames := func(keys []string) bool {
		r := false
		for _, k := range keys {
			r = gsxrt.Or(r, k == name)
		}
		return r
	}
	inTags := func(keys []string) bool {
		r := false
		for _, k := range keys {
			for _, t := range tags {
				r = gsxrt.Or(r, k == "#"+t)
			}
		}
		return r
	}
	enabled := gsxrt.Or(enableAll, inNames(enable), inTags(enable))
	return gsxrt.And(enabled, !inNames(disable), !inTags(disable))
}

// gsxC06InitCheckers: a checker is constructed iff the algebra selects it; an
// empty selection is an error; an unselected checker is never constructed.
func gsxC06InitCheckers() {
	tagsA := gsxTags("A", 2)
	tagsB := []string{"style"}
	if gsxrt.Bound("symbolicB", 0) == 1 {
		tagsB = gsxTags("B", 1)
	}
	infoA := gsxRegister("gsxA", tagsA)
	infoB := gsxRegister("gsxB", tagsB)
	enable := gsxKeys("enable", 2)
	disable := gsxKeys("disable", 2)
	enableAll := gsxrt.Bool("enableAll")

	p := &program{}
	p.ctx = linter.NewContext(token.NewFileSet(), types.SizesFor("gc", "amd64"))
	p.infoList = []*linter.CheckerInfo{infoA, infoB}
	p.filters.enable = enable
	p.filters.disable = disable
	p.filters.enableAll = enableAll
	err := p.initCheckers()
	gsxrt.Reached("initCheckers returned")

	wantA := gsxSelected("gsxA", tagsA, enable, disable, enableAll)
	wantB := gsxSelected("gsxB", tagsB, enable, disable, enableAll)
	gsxrt.Assert(gsxConstructed["gsxA"] == wantA, "checker A constructed iff selected by the enable/disable/tag algebra")
	gsxrt.Assert(gsxConstructed["gsxB"] == wantB, "checker B constructed iff selected by the enable/disable/tag algebra")
	if gsxrt.Or(wantA, wantB) {
		gsxrt.Reached("non-empty selection")
		gsxrt.Assert(err == nil, "a non-empty selection initialises without error")
		n := 0
		if wantA {
			n++
		}
		if wantB {
			n++
		}
		gsxrt.Assert(len(p.checkers) == n, "exactly the selected checkers are kept")
		for _, c := range p.checkers {
			gsxrt.Assert(gsxConstructed[c.Info.Name], "every kept checker was constructed (diagnostics are attributed to selected checkers)")
		}
	} else {
		gsxrt.Reached("empty selection")
		gsxrt.Assert(err != nil, "an empty selection is an error")
	}
}

// gsxC06DefaultList: with no flags exactly the checkers without the
// experimental, opinionated, performance or security tag are enabled.
func gsxC06DefaultList() {
	// tag sets over the tag vocabulary (the real tags are longer than the 3-byte tags of gsxTags)
	nt := gsxrt.Choose("A.ntags", 4)
	tagsA := make([]string, nt)
	for i := range tagsA {
		tagsA[i] = gsxrt.StringN("A.tag"+gsxItoa(i), 12)
		gsxrt.Assume(gsxrt.Matches(`^(diagnostic|style|performance|experimental|opinionated|security)$`, tagsA[i]))
		for j := 0; j < i; j++ {
			gsxrt.Assume(tagsA[i] != tagsA[j])
		}
	}
	infoA := gsxRegister("gsxA", tagsA)
	infoB := gsxRegister("gsxB", []string{"diagnostic"})
	p := &program{}
	p.ctx = linter.NewContext(token.NewFileSet(), types.SizesFor("gc", "amd64"))
	p.infoList = []*linter.CheckerInfo{infoA, infoB}
	p.bindDefaultEnabledList()
	// what parseArgs does with the default of -enable / -disable when no flag is given:
	// strings.Split(strings.Join(defaultCheckers, ","), ",") and strings.Split("", ",")
	p.filters.enable = p.filters.defaultCheckers
	if len(p.filters.enable) == 0 {
		p.filters.enable = []string{""}
	}
	p.filters.disable = []string{""}
	err := p.initCheckers()
	gsxrt.Reached("defaults")
	heavy := false
	for _, t := range tagsA {
		heavy = gsxrt.Or(heavy, t == "experimental", t == "opinionated", t == "performance", t == "security")
	}
	_ = err
	gsxrt.Assert(gsxConstructed["gsxA"] == !heavy, "default selection = no experimental/opinionated/performance/security tag")
	gsxrt.Assert(gsxConstructed["gsxB"], "a plain diagnostic checker is enabled by default")
}
