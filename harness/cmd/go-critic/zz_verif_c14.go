package main

import (
	"flag"
	"go/token"
	"go/types"

	"github.com/go-critic/go-critic/gsxrt"
	"github.com/go-critic/go-critic/linter"
)

var gsxSeenLimit = -1
var gsxSeenFlag = false

func gsxRegisterParam(name string) *linter.CheckerInfo {
	if info, ok := gsxRegistered[name]; ok {
		return info
	}
	info := &linter.CheckerInfo{Name: name, Tags: []string{"style"}, Summary: "gsx harness checker", Before: "x", After: "y",
		Params: linter.CheckerParams{
			"limit": {Value: 7, Usage: "harness int parameter"},
			"flag":  {Value: false, Usage: "harness bool parameter"},
		}}
	gsxColl.AddChecker(info, func(ctx *linter.CheckerContext) (linter.FileWalker, error) {
		gsxSeenLimit = info.Params.Int("limit")
		gsxSeenFlag = info.Params.Bool("flag")
		return gsxNopWalker{}, nil
	})
	gsxRegistered[name] = info
	return info
}

// gsxC14Plumbing: a parameter value given on the command line (the cell a
// flag was bound to) is the value the checker's constructor sees; an
// integrator's direct override of the registered default likewise.
func gsxC14Plumbing() {
	reg := gsxRegisterParam("gsxParam")
	// the CLI works on the copies handed out by GetCheckersInfo
	var info *linter.CheckerInfo
	for _, x := range linter.GetCheckersInfo() {
		if x.Name == "gsxParam" {
			info = x
		}
	}
	gsxrt.Assert(info != nil && info != reg, "GetCheckersInfo hands out copies")
	p := &program{}
	p.flagSet = flag.NewFlagSet("go-critic", flag.ContinueOnError)
	p.infoList = []*linter.CheckerInfo{info}
	if err := p.bindCheckerParams(); err != nil {
		panic(err)
	}
	v := gsxrt.Int("limit")
	b := gsxrt.Bool("flag")
	// what flag parsing does with -@gsxParam.limit=v -@gsxParam.flag=b
	*p.checkerParams.ints["@gsxParam.limit"] = v
	*p.checkerParams.bools["@gsxParam.flag"] = b
	if err := p.assignCheckerParams(); err != nil {
		panic(err)
	}
	p.ctx = linter.NewContext(token.NewFileSet(), types.SizesFor("gc", "amd64"))
	p.filters.enableAll = true
	if err := p.initCheckers(); err != nil {
		panic(err)
	}
	gsxrt.Reached("constructed")
	gsxrt.Assert(gsxSeenLimit == v && gsxSeenFlag == b, "the constructor sees the value given on the command line")
	// integrator override of the registered default
	w := gsxrt.Int("override")
	info.Params["limit"].Value = w
	if _, err := linter.NewChecker(p.ctx, info); err != nil {
		panic(err)
	}
	gsxrt.Assert(gsxSeenLimit == w, "the constructor sees an integrator's override of the registered default")
	reg.Params["limit"].Value = 7
	reg.Params["flag"].Value = false
}
