package main

import (
	"go/token"
	"go/types"

	"github.com/go-critic/go-critic/gsxrt"
	"github.com/go-critic/go-critic/linter"
	"golang.org/x/tools/go/packages"
)

// environment model: loading packages succeeds with an empty package list
//
//gsx:stub github.com/go-toolsmith/pkgload.LoadPackages = gsxStubLoadPackages
func gsxStubLoadPackages(cfg *packages.Config, patterns []string) ([]*packages.Package, error) {
	return nil, nil
}

// gsxC19LoadProgram: an invalid -go value makes the "load program" step
// return an error (which the step runner turns into a fatal message); it
// never panics. A valid value is stored in the context.
func gsxC19LoadProgram() {
	ver := gsxrt.StringN("go", 6)
	p := &program{goVersion: ver}
	err := p.loadProgram()
	gsxrt.Reached("loadProgram returned")
	// reference grammar of accepted versions (see the C15 harness)
	valid := gsxrt.Matches(`^(go)?([+-]?[0-9]+\.[+-]?[0-9]+)?$`, ver)
	if !valid {
		gsxrt.Reached("invalid version")
		gsxrt.Assert(err != nil, "an invalid Go version stops the run with an error")
	} else {
		gsxrt.Reached("valid version")
		gsxrt.Assert(err == nil, "a valid Go version loads")
	}
}

// gsxC19CtorError: when the constructor of a selected checker fails, checker
// initialisation fails as a whole: the run never continues with a partially
// initialised checker set.
func gsxC19CtorError() {
	infoA := gsxRegister("gsxA", []string{"style"})
	infoB := gsxRegister("gsxB", []string{"style"})
	infoC := gsxRegister("gsxC", []string{"style"})
	gsxCtorFails["gsxA"] = gsxrt.Bool("A.fails")
	gsxCtorFails["gsxB"] = gsxrt.Bool("B.fails")
	gsxCtorFails["gsxC"] = gsxrt.Bool("C.fails")
	p := &program{}
	p.ctx = linter.NewContext(token.NewFileSet(), types.SizesFor("gc", "amd64"))
	p.infoList = []*linter.CheckerInfo{infoA, infoB, infoC}
	p.filters.enableAll = true
	err := p.initCheckers()
	gsxrt.Reached("initCheckers returned")
	anyFails := gsxrt.Or(gsxCtorFails["gsxA"], gsxCtorFails["gsxB"], gsxCtorFails["gsxC"])
	gsxrt.Assert((err != nil) == anyFails, "initialisation fails iff a selected checker's constructor fails")
	if err == nil {
		gsxrt.Assert(len(p.checkers) == 3, "all selected checkers are initialised")
	}
	gsxCtorFails["gsxA"], gsxCtorFails["gsxB"], gsxCtorFails["gsxC"] = false, false, false
}
