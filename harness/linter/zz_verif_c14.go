package linter

import (
	"go/token"
	"go/types"

	"github.com/go-critic/go-critic/gsxrt"
)

// gsxC14SizeOf: the size a checker is given for a type is the platform's size of
// THAT type, whatever was asked before - by the same checker or by another
// checker sharing the context. t1 and t2 are lazily initialised go/types types:
// their printed forms are independent symbolic strings (two distinct types may
// print alike: same-named local types, identical unnamed types) and their sizes
// independent symbolic integers.
func gsxC14SizeOf() {
	sizes := types.SizesFor("gc", "amd64")
	ctx := NewContext(token.NewFileSet(), sizes)
	ctx.SetPackageInfo(&types.Info{}, types.NewPackage("p", "p"))
	a := &CheckerContext{Context: ctx}
	b := a
	if gsxrt.Choose("second checker", 2) == 1 {
		b = &CheckerContext{Context: ctx}
	}
	var t1, t2 types.Type
	gsxrt.Lazy("t1", 2, &t1)
	gsxrt.Lazy("t2", 2, &t2)
	gsxrt.Assume(t1 != nil && t2 != nil)
	s1, ok1 := a.SizeOf(t1)
	if ok1 {
		gsxrt.Assert(s1 == sizes.Sizeof(t1), "size: SizeOf of a type is not the platform's size of that type")
	}
	s2, ok2 := b.SizeOf(t2)
	gsxrt.Reached("asked twice")
	if ok2 {
		gsxrt.Reached("sized")
		gsxrt.Assert(s2 == sizes.Sizeof(t2), "size: SizeOf of a type depends on the types sized before it")
	}
}

// gsxC05SizeOf: asking for the size of a type leaves the shared context as it was (the
// context is documented as read-only state shared by every checker, and C04's
// independence of schedules rests on that).
func gsxC05SizeOf() {
	sizes := types.SizesFor("gc", "amd64")
	ctx := NewContext(token.NewFileSet(), sizes)
	ctx.SetPackageInfo(&types.Info{}, types.NewPackage("p", "p"))
	a := &CheckerContext{Context: ctx}
	var t1 types.Type
	gsxrt.Lazy("t1", 2, &t1)
	gsxrt.Assume(t1 != nil)
	gsxrt.Protect("context", ctx)
	a.SizeOf(t1)
	gsxrt.Unprotect(ctx)
	gsxrt.Reached("sized")
}
