package linter

import (
	"strconv"
	"strings"

	"github.com/go-critic/go-critic/gsxrt"
)

// gsxC15ParseAccepts: the accepted version strings are exactly "", "go",
// "<int>.<int>" and "go<int>.<int>" (ints in strconv.Atoi's syntax: optional
// sign, decimal digits); everything else is rejected with an error.
func gsxC15ParseAccepts() {
	s := gsxrt.StringN("version", 8)
	v, err := ParseGoVersion(s)
	gsxrt.Reached("parsed")

	t := strings.TrimPrefix(s, "go")
	// reference grammar, written independently of the implementation
	// (ints in strconv.Atoi's syntax; up to 8 bytes cannot overflow)
	wellFormed := gsxrt.Matches(`^(go)?([+-]?[0-9]+\.[+-]?[0-9]+)?$`, s)
	if err == nil {
		gsxrt.Reached("accepted")
	} else {
		gsxrt.Reached("rejected")
	}
	gsxrt.Assert((err == nil) == wellFormed, "ParseGoVersion accepts exactly (go)?<int>.<int> and the empty version")
	if err != nil {
		gsxrt.Assert(v.Major == 0 && v.Minor == 0, "a rejected version leaves the zero GoVersion")
	}
	if t == "" {
		gsxrt.Assert(err == nil && v.Major == 0, "empty version means 'no version configured' (Major=0)")
	}
}

// gsxC15ParseValue: the text before the dot becomes Major and the text after
// it Minor, both read as decimal numbers (so 1.9 < 1.10).
func gsxC15ParseValue() {
	maj := gsxrt.StringN("major", 3)
	min := gsxrt.StringN("minor", 3)
	gsxrt.Assume(gsxrt.Matches(`^[0-9]+$`, maj) && gsxrt.Matches(`^[0-9]+$`, min))
	s := maj + "." + min
	if gsxrt.Bool("goPrefix") {
		s = "go" + s
	}
	v, err := ParseGoVersion(s)
	gsxrt.Reached("parsed")
	gsxrt.Assert(err == nil, "well-formed version is accepted")
	wantMaj, _ := strconv.Atoi(maj)
	wantMin, _ := strconv.Atoi(min)
	gsxrt.Assert(v.Major == wantMaj && v.Minor == wantMin, "major and minor are the decimal values of the two parts, in that order")
	// concrete anchors of the numeric reading
	v9, _ := ParseGoVersion("1.9")
	v10, _ := ParseGoVersion("go1.10")
	gsxrt.Assert(v10.GreaterOrEqual(v9) && !v9.GreaterOrEqual(v10), "1.10 is newer than 1.9")
}

// gsxC15Compare: GreaterOrEqual is the lexicographic numeric order on
// (major, minor), and an unset version (Major=0) behaves as the newest.
func gsxC15Compare() {
	a := GoVersion{Major: gsxrt.IntRange("a.major", 0, 1000), Minor: gsxrt.IntRange("a.minor", 0, 1000)}
	b := GoVersion{Major: gsxrt.IntRange("b.major", 1, 1000), Minor: gsxrt.IntRange("b.minor", 0, 1000)}
	got := a.GreaterOrEqual(b)
	gsxrt.Reached("compared")
	var want bool
	if a.Major == 0 {
		want = true // unset = newest: every feature is available
	} else {
		want = a.Major > b.Major || (a.Major == b.Major && a.Minor >= b.Minor)
	}
	gsxrt.Assert(got == want, "GreaterOrEqual is numeric (major, minor) order; unset version is newest")
}

// gsxC15SetGoVersion: SetGoVersion stores the parsed (major, minor) of a
// well-formed version string in the context, and "" / "go" leave it unset.
func gsxC15SetGoVersion() {
	maj := gsxrt.StringN("major", 2)
	min := gsxrt.StringN("minor", 2)
	gsxrt.Assume(gsxrt.Matches(`^[0-9]+$`, maj) && gsxrt.Matches(`^[0-9]+$`, min))
	s := maj + "." + min
	switch gsxrt.Choose("form", 4) {
	case 1:
		s = "go" + s
	case 2:
		s = ""
	case 3:
		s = "go"
	}
	var c Context
	c.SetGoVersion(s)
	gsxrt.Reached("set")
	if s == "" || s == "go" {
		gsxrt.Assert(c.GoVersion.Major == 0 && c.GoVersion.Minor == 0, "empty version leaves the version unset")
		gsxrt.Assert(c.GoVersion.GreaterOrEqual(GoVersion{Major: 1, Minor: gsxrt.IntRange("feature.minor", 0, 1000)}), "an unset version enables every feature")
		return
	}
	wantMaj, _ := strconv.Atoi(maj)
	wantMin, _ := strconv.Atoi(min)
	gsxrt.Assert(c.GoVersion.Major == wantMaj && c.GoVersion.Minor == wantMin, "SetGoVersion stores the parsed version")
}
