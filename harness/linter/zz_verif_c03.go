package linter

import (
	"go/ast"
	"go/token"
	"go/types"

	"github.com/go-critic/go-critic/gsxrt"
)

func gsxImportFile(prefix string, info *types.Info) *ast.File {
	f := &ast.File{Package: 1, Name: &ast.Ident{Name: "p", NamePos: 9}}
	n := gsxrt.Choose(prefix+".imports", 3)
	for i := 0; i < n; i++ {
		p := prefix + ".imp" + string(rune('0'+i))
		path := []string{"a/x", "b/y"}[gsxrt.Choose(p+".path", 2)]
		spec := &ast.ImportSpec{Path: &ast.BasicLit{Kind: token.STRING, Value: `"` + path + `"`, ValuePos: token.Pos(30 + 20*i)}}
		pkg := types.NewPackage(path, path[2:])
		if gsxrt.Choose(p+".renamed", 2) == 1 {
			name := gsxrt.StringN(p+".name", 3)
			gsxrt.Assume(gsxrt.Matches(`^[a-z]+$`, name))
			spec.Name = &ast.Ident{Name: name, NamePos: token.Pos(25 + 20*i)}
			info.Defs[spec.Name] = types.NewPkgName(spec.Name.NamePos, nil, name, pkg)
		} else {
			info.Implicits[spec] = types.NewPkgName(spec.Path.ValuePos, nil, pkg.Name(), pkg)
		}
		f.Imports = append(f.Imports, spec)
	}
	return f
}

func gsxSameTables(a, b *Context) bool {
	if len(a.PkgRenames) != len(b.PkgRenames) || len(a.PkgObjects) != len(b.PkgObjects) {
		return false
	}
	ok := true
	for k, v := range a.PkgRenames {
		w, present := b.PkgRenames[k]
		ok = gsxrt.And(ok, present, v == w)
	}
	for k, v := range a.PkgObjects {
		w, present := b.PkgObjects[k]
		ok = gsxrt.And(ok, present, v == w)
	}
	return ok
}

// gsxC03FileInfo: the per-file import tables a checker reads (imported
// package objects, local renamings) after SetFileInfo(x) are the same on a
// long-lived context that was set to another file y before as on a fresh
// context - for any import lists of y and x (0-2 imports each, renamed or not).
func gsxC03FileInfo() {
	info := &types.Info{Defs: map[*ast.Ident]types.Object{}, Implicits: map[ast.Node]types.Object{}}
	y := gsxImportFile("y", info)
	x := gsxImportFile("x", info)
	fset := token.NewFileSet()
	mk := func() *Context {
		c := NewContext(fset, types.SizesFor("gc", "amd64"))
		c.Require.PkgObjects = true
		c.Require.PkgRenames = true
		c.SetPackageInfo(info, types.NewPackage("p", "p"))
		return c
	}
	used := mk()
	used.SetFileInfo("y.go", y)
	used.SetFileInfo("x.go", x)
	fresh := mk()
	fresh.SetFileInfo("x.go", x)
	gsxrt.Reached("set")
	gsxrt.Assert(used.Filename == fresh.Filename, "history: the file name seen by checkers depends on the files set before")
	gsxrt.Assert(gsxSameTables(used, fresh), "history: the import tables of a file depend on the file analysed before it")
}
