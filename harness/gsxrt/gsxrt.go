// Package gsxrt is the harness run-time of the GSX symbolic executor. Under
// GSX every function here is intercepted by name; the bodies below are the
// native replay semantics: nondeterministic inputs are read from the JSON
// counterexample named by $VERIF_REPLAY, assertions print and record failures.
//
// This package is never written into /repo: it is injected as an overlay
// (go/packages Overlay for the encoder, `go test -overlay` for replay).
package gsxrt

import (
	"bytes"
	"encoding/json"
	"log"
	"strings"
	"fmt"
	"os"
	"regexp"
	"sort"
)

var (
	loaded  bool
	model   map[string]interface{}
	counts  = map[string]int{}
	Failed  []string
	Reach   = map[string]bool{}
	EventsL []string
)

func load() {
	if loaded {
		return
	}
	loaded = true
	model = map[string]interface{}{}
	if p := os.Getenv("VERIF_REPLAY"); p != "" {
		data, err := os.ReadFile(p)
		if err != nil {
			panic("gsxrt: " + err.Error())
		}
		var doc struct {
			Model map[string]interface{} `json:"model"`
		}
		if err := json.Unmarshal(data, &doc); err != nil {
			panic("gsxrt: " + err.Error())
		}
		model = doc.Model
	}
}

func key(name, suffix string) string {
	load()
	n := counts[name]
	counts[name] = n + 1
	if n > 0 {
		return fmt.Sprintf("%s#%d%s", name, n, suffix)
	}
	return name + suffix
}

// LoadModel (re)loads a counterexample file and resets all per-run state.
func LoadModel(path string) {
	loaded = true
	model = map[string]interface{}{}
	Reset()
	data, err := os.ReadFile(path)
	if err != nil {
		panic("gsxrt: " + err.Error())
	}
	var doc struct {
		Model map[string]interface{} `json:"model"`
	}
	if err := json.Unmarshal(data, &doc); err != nil {
		panic("gsxrt: " + err.Error())
	}
	model = doc.Model
}

// ReachedList returns the labels reached so far, sorted.
func ReachedList() []string {
	var out []string
	for k := range Reach {
		out = append(out, k)
	}
	sort.Strings(out)
	return out
}

// Reset forgets occurrence counters (for running several harnesses in one process).
func Reset() { counts = map[string]int{}; Failed = nil; Reach = map[string]bool{}; EventsL = nil }

func String(name string) string {
	if v, ok := model[key(name, "?s")].(string); ok {
		return v
	}
	return ""
}

func StringN(name string, maxLen int) string { return String(name) }

func num(k string) int64 {
	switch v := model[k].(type) {
	case float64:
		return int64(v)
	case string:
		var x int64
		fmt.Sscan(v, &x)
		return x
	}
	return 0
}

func Int(name string) int                  { return int(num(key(name, "?i"))) }
func Int64(name string) int64              { return num(key(name, "?i")) }
func IntRange(name string, lo, hi int) int { return int(num(key(name, "?i"))) }

func Bool(name string) bool {
	v, _ := model[key(name, "?b")].(bool)
	return v
}

// Choose is an n-way nondeterministic choice.
func Choose(name string, n int) int {
	c := int(num(key("choose:"+name, "?c")))
	if c < 0 || c >= n {
		return 0
	}
	return c
}

type pruned struct{}

// Assume ends the execution silently when b is false.
func Assume(b bool) {
	if !b {
		fmt.Println("GSX-ASSUME-FALSE")
		panic(pruned{})
	}
}

// Assert states the property.
func Assert(b bool, msg string) {
	if !b {
		fmt.Println("GSX-ASSERT-FAILED: " + msg)
		Failed = append(Failed, msg)
	}
}

func Reached(label string) { Reach[label] = true }

func Event(kind string, args ...interface{}) {
	EventsL = append(EventsL, fmt.Sprint(append([]interface{}{kind}, args...)...))
}

// Matches reports whether s matches the Go regular expression re (search
// semantics, like regexp.MatchString; anchor with ^ and $ for a full match).
// Under GSX this is a single regular-language membership constraint.
func Matches(re, s string) bool { return regexp.MustCompile(re).MatchString(s) }

// Or / And are non-short-circuit boolean connectives: under GSX they build
// one formula instead of forking the path.
func Or(bs ...bool) bool {
	r := false
	for _, b := range bs {
		r = r || b
	}
	return r
}

func And(bs ...bool) bool {
	r := true
	for _, b := range bs {
		r = r && b
	}
	return r
}

// Bound returns the exploration bound `name` of the current tier (def when
// unset). Natively it is read from the counterexample file.
func Bound(name string, def int) int {
	load()
	if v, ok := model["bound:"+name]; ok {
		if f, ok := v.(float64); ok {
			return int(f)
		}
	}
	return def
}

// Count returns how many of bs are true (without forking under GSX).
func Count(bs ...bool) int {
	n := 0
	for _, b := range bs {
		if b {
			n++
		}
	}
	return n
}

var logBuf bytes.Buffer

// CaptureLog redirects the standard logger into a buffer (natively); under
// GSX log calls are recorded as events.
func CaptureLog() {
	logBuf.Reset()
	log.SetFlags(0)
	log.SetOutput(&logBuf)
}

// LogLines returns the lines printed through the standard logger since CaptureLog.
func LogLines() []string {
	s := strings.TrimSuffix(logBuf.String(), "\n")
	if s == "" {
		return nil
	}
	return strings.Split(s, "\n")
}

// Lazy makes *ptr a lazily initialised (symbolic) value of its static type,
// explored to the given depth. Only meaningful under GSX; counterexamples of
// lazy harnesses are replayed as realised Go programs, not through this API.
func Lazy(name string, depth int, ptr interface{}) {
	panic("gsxrt.Lazy is only available under the symbolic executor")
}

// ProtectNew marks lazily created objects as read-only for the write monitor.
func ProtectNew(on bool) {}

// Field reads an unexported field (executor only).
func Field(x interface{}, name string) interface{} {
	panic("gsxrt.Field is only available under the symbolic executor")
}

// FocusOn restricts lazy AST node kinds to those the code behind v distinguishes (executor only).
func FocusOn(v interface{}) {}

// IsInputPos reports whether p is (syntactically) the position field of a
// node, token or comment of the lazily created input (executor only).
func IsInputPos(p interface{}) bool { return true }

// LastWarnArgs returns the arguments of the most recent diagnostic message (executor only).
func LastWarnArgs() []interface{} { return nil }

// TypeName returns the dynamic type of x as printed by go/types.
func TypeName(x interface{}) string { return fmt.Sprintf("%T", x) }

// Symbolic reports whether the harness runs under the symbolic executor.
func Symbolic() bool { return false }

// Run executes a harness natively, swallowing Assume prunes.
func Run(h func()) (prunedPath bool) {
	defer func() {
		if r := recover(); r != nil {
			if _, ok := r.(pruned); ok {
				prunedPath = true
				return
			}
			panic(r)
		}
	}()
	h()
	return false
}

// Exits runs f and reports whether it terminated the process (os.Exit,
// log.Fatal*). Only the symbolic executor can observe that; natively f just runs.
func Exits(f func()) bool { f(); return false }

// Protect makes the fields of the struct ptr points to write-protected under
// the executor's write monitor (no-op natively); Unprotect lifts it.
func Protect(name string, ptr interface{}) {}
func Unprotect(ptr interface{})            {}

// OutLines returns the lines printed to standard output so far (executor only).
func OutLines() []string { return nil }

// RealEnv switches the harness model of the named environment function off
// for the rest of the path: its real body runs (executor only).
func RealEnv(name string) {}
