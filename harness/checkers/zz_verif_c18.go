package checkers

import (
	"errors"
	"fmt"
	"go/ast"
	"io"
	"os"
	"path/filepath"
	"strings"

	"github.com/go-critic/go-critic/gsxrt"
	"github.com/go-critic/go-critic/linter"
	"github.com/quasilyte/go-ruleguard/ruleguard"
)

// ---- environment models (bound by the executor; natively the real functions run)

type gsxC18Env struct {
	globNames  map[string][]string // pattern -> names
	globBad    map[string]bool     // pattern -> ErrBadPattern
	readFails  map[string]bool
	emptyFile  map[string]bool
	loadResult map[string]int // 0 ok, 1 import fault, 2 dsl fault
	groups     []*ruleguard.GoRuleGroup
	// observations
	loads    []string
	accepted map[string]bool
	runs     int
}

var gsxEnv *gsxC18Env

//gsx:stub path/filepath.Glob = gsxStubGlob
func gsxStubGlob(pattern string) ([]string, error) {
	if gsxEnv.globBad[pattern] {
		return nil, filepath.ErrBadPattern
	}
	return gsxEnv.globNames[pattern], nil
}

//gsx:stub os.ReadFile = gsxStubReadFile
func gsxStubReadFile(name string) ([]byte, error) {
	if gsxEnv.readFails[name] {
		return nil, errors.New("open " + name + ": permission denied")
	}
	if gsxEnv.emptyFile[name] {
		return []byte{}, nil
	}
	return []byte("package gorules"), nil
}

//gsx:stub github.com/quasilyte/go-ruleguard/ruleguard.NewEngine = gsxStubNewEngine
func gsxStubNewEngine() *ruleguard.Engine { return &ruleguard.Engine{} }

//gsx:stub (*github.com/quasilyte/go-ruleguard/ruleguard.Engine).InferBuildContext = gsxStubInfer
func gsxStubInfer(e *ruleguard.Engine) {}

//gsx:stub (*github.com/quasilyte/go-ruleguard/ruleguard.Engine).Load = gsxStubLoad
func gsxStubLoad(e *ruleguard.Engine, ctx *ruleguard.LoadContext, filename string, r io.Reader) error {
	gsxEnv.loads = append(gsxEnv.loads, filename)
	switch gsxEnv.loadResult[filename] {
	case 1:
		return &gsxWrapErr{"import fault", &ruleguard.ImportError{}}
	case 2:
		return errors.New("dsl fault")
	}
	for _, g := range gsxEnv.groups {
		gsxEnv.accepted[g.Name] = ctx.GroupFilter(g)
	}
	return nil
}

//gsx:stub (*github.com/quasilyte/go-ruleguard/ruleguard.Engine).Run = gsxStubRun
func gsxStubRun(e *ruleguard.Engine, ctx *ruleguard.RunContext, f *ast.File) error {
	if gsxEnv != nil {
		gsxEnv.runs++
	}
	gsxRunSeen, gsxRunVersion = true, ctx.GoVersion
	gsxRunCtxSeen = *ctx
	for i := range gsxRunReports {
		ctx.Report(&gsxRunReports[i])
	}
	return nil
}

// the run context the engine model was handed last
var gsxRunCtxSeen ruleguard.RunContext

// a checker may own a runner state; the model needs none
//
//gsx:stub github.com/quasilyte/go-ruleguard/ruleguard.NewRunnerState = gsxStubNewRunnerState
func gsxStubNewRunnerState(e *ruleguard.Engine) *ruleguard.RunnerState { return nil }

// what the rule engine model reports during Run
var gsxRunReports []ruleguard.ReportData

type gsxWrapErr struct {
	msg string
	err error
}

func (e *gsxWrapErr) Error() string { return e.msg }
func (e *gsxWrapErr) Unwrap() error { return e.err }

func gsxC18Info(rules, failOn string, failOnError bool, enable, disable string) *linter.CheckerInfo {
	return &linter.CheckerInfo{
		Name: "ruleguard",
		Params: linter.CheckerParams{
			"rules":       {Value: rules},
			"debug":       {Value: ""},
			"failOnError": {Value: failOnError},
			"failOn":      {Value: failOn},
			"enable":      {Value: enable},
			"disable":     {Value: disable},
		},
	}
}

func gsxC18Ctx() *linter.CheckerContext {
	return &linter.CheckerContext{Context: &linter.Context{}}
}

// gsxC18Schedule sets up a fault schedule: pattern 0 is malformed / matches
// nothing / matches 1 or 2 files, pattern 1 matches nothing or 1 file; every
// file is readable or not, and loads fine, with an import fault or a DSL fault.
type gsxFileFault struct {
	empty bool // kind 3 realised as a file of zero bytes
	name  string
	kind  int // 0 ok, 1 unreadable, 2 import fault, 3 dsl fault, 4 a readable file of zero bytes (does not follow the DSL either)
}

func gsxC18Schedule(env *gsxC18Env, patterns []string, maxFiles []int, malformed bool) (files []gsxFileFault) {
	for i, pat := range patterns {
		n := gsxrt.Choose("glob."+pat, maxFiles[i]+2) - 1 // -1 malformed, 0 no match, k files
		if n == -1 {
			if !malformed {
				n = 0
			} else {
				env.globBad[pat] = true
			}
		}
		for k := 0; k < n; k++ {
			name := "f" + gsxDigit(i) + gsxDigit(k) + ".go"
			env.globNames[pat] = append(env.globNames[pat], name)
			ff := gsxFileFault{name: name, kind: gsxrt.Choose("fault."+name, 5)}
			env.readFails[name] = ff.kind == 1
			if ff.kind == 4 {
				env.emptyFile[name] = true
				ff.kind = 3 // for the policy an empty file is a DSL fault like any other
				ff.empty = true
			}
			switch ff.kind {
			case 1, 3:
				env.loadResult[name] = 2 // an unreadable file is loaded as empty text: not valid DSL
			case 2:
				env.loadResult[name] = 1
			}
			files = append(files, ff)
		}
		if n == 0 {
			break // every implementation stops at a pattern without match: keep the schedule short
		}
	}
	return files
}

// gsxC18Policy is the statement, transcribed: walk the schedule in order; the
// first unmatched pattern or listed fault decides.
func gsxC18Policy(env *gsxC18Env, patterns []string, files []gsxFileFault, hasAll, hasImport, hasDsl bool) (wantErr bool, wantLoads int, undetermined bool) {
	i := 0
	for _, pat := range patterns {
		if env.globBad[pat] || len(env.globNames[pat]) == 0 {
			return true, wantLoads, false
		}
		for range env.globNames[pat] {
			ff := files[i]
			i++
			if ff.kind == 1 {
				if hasAll {
					return true, wantLoads, false
				}
				if hasDsl || hasImport {
					// the statement does not say which class an unreadable file belongs to
					return false, 0, true
				}
			}
			wantLoads++
			if ff.kind == 2 && (hasAll || hasImport) {
				return true, wantLoads, false
			}
			if ff.kind == 3 && (hasAll || hasDsl) {
				return true, wantLoads, false
			}
		}
	}
	return false, wantLoads, false
}

// ---- native replay: the same schedule realised on the real file system and
// given to the real glob / reader / ruleguard loader.

const gsxRuleOK = "package gorules\n\nimport \"github.com/quasilyte/go-ruleguard/dsl\"\n\nfunc okGroup%s(m dsl.Matcher) {\n\tm.Match(`gsxNoSuchCall($x)`).Report(`x`)\n}\n"
const gsxRuleImportFault = "package gorules\n\nimport \"github.com/quasilyte/go-ruleguard/dsl\"\n\nfunc importFault%s(m dsl.Matcher) {\n\tm.Import(`no/such/gsxpkg`)\n\tm.Match(`gsxNoSuchCall($x)`).Where(m[\"x\"].Type.Is(`gsxpkg.T`)).Report(`x`)\n}\n"
const gsxRuleDslFault = "package gorules\n\nimport \"github.com/quasilyte/go-ruleguard/dsl\"\n\nfunc dslFault%s(m dsl.Matcher) {\n\tm.Match(`gsxNoSuchCall(`).Report(`x`)\n}\n"

// gsxMaterialise creates the rule files of the schedule in a fresh directory
// and returns the patterns to pass as the rules parameter.
func gsxMaterialise(env *gsxC18Env, patterns []string, files []gsxFileFault) []string {
	dir, err := os.MkdirTemp("", "gsx-c18-")
	if err != nil {
		panic(err)
	}
	gsxTempDirs = append(gsxTempDirs, dir)
	kinds := map[string]int{}
	for _, f := range files {
		kinds[f.name] = f.kind
		if f.empty {
			kinds[f.name] = 4
		}
	}
	out := make([]string, len(patterns))
	for i, pat := range patterns {
		switch {
		case env.globBad[pat]:
			out[i] = filepath.Join(dir, "[")
		case len(env.globNames[pat]) == 0:
			out[i] = filepath.Join(dir, "nomatch"+gsxDigit(i)+"*.go")
		default:
			out[i] = filepath.Join(dir, "f"+gsxDigit(i)+"*.go")
			for _, name := range env.globNames[pat] {
				path := filepath.Join(dir, name)
				id := strings.TrimSuffix(name, ".go")
				switch kinds[name] {
				case 0:
					os.WriteFile(path, []byte(fmt.Sprintf(gsxRuleOK, id)), 0o644)
				case 1:
					os.Mkdir(path, 0o755) // reading a directory fails for every user
				case 2:
					os.WriteFile(path, []byte(fmt.Sprintf(gsxRuleImportFault, id)), 0o644)
				case 3:
					os.WriteFile(path, []byte(fmt.Sprintf(gsxRuleDslFault, id)), 0o644)
				case 4:
					os.WriteFile(path, nil, 0o644)
				}
			}
		}
	}
	return out
}

var gsxTempDirs []string

func gsxCleanup() {
	for _, d := range gsxTempDirs {
		os.RemoveAll(d)
	}
	gsxTempDirs = nil
}

func gsxC18Env0() *gsxC18Env {
	env := &gsxC18Env{globNames: map[string][]string{}, globBad: map[string]bool{}, readFails: map[string]bool{},
		loadResult: map[string]int{}, accepted: map[string]bool{}, emptyFile: map[string]bool{}}
	gsxEnv = env
	return env
}

// gsxC18FailurePolicy: all fault schedules of two patterns (<= 2 + 1 files)
// against every failOn subset and the legacy flag.
func gsxC18FailurePolicy() {
	env := gsxC18Env0()
	patterns := []string{"p0.go", "p1*.go"}
	files := gsxC18Schedule(env, patterns, []int{2, 1}, true)
	menu := []struct {
		failOn        string
		legacy        bool
		all, imp, dsl bool
	}{
		{"", false, false, false, false},
		{"", true, true, false, false},
		{"dsl", false, false, false, true},
		{"import", true, false, true, false}, // an explicit failOn overrides the legacy flag
		{"all", false, true, false, false},
		{"dsl,import", false, false, true, true},
		{"import,,dsl", false, false, true, true}, // empty entries are ignored
	}
	m := menu[gsxrt.Choose("failOn", len(menu))]
	rules := patterns
	if !gsxrt.Symbolic() {
		rules = gsxMaterialise(env, patterns, files)
		defer gsxCleanup()
	}
	info := gsxC18Info(rules[0]+","+rules[1], m.failOn, m.legacy, "<all>", "")
	c, err := newRuleguardChecker(info, gsxC18Ctx())
	gsxrt.Reached("constructed")
	gsxrt.Assert(info.Params["failOn"].Value == m.failOn && info.Params["failOnError"].Value == m.legacy &&
		info.Params["enable"].Value == "<all>" && info.Params["disable"].Value == "" && info.Params["debug"].Value == "",
		"write: constructing the checker leaves the registered parameter values as they were")
	wantErr, wantLoads, undetermined := gsxC18Policy(env, patterns, files, m.all, m.imp, m.dsl)
	if undetermined {
		return
	}
	if wantErr {
		gsxrt.Reached("policy says fail")
		gsxrt.Assert(err != nil, "an unmatched or malformed pattern, or a fault whose class is listed in failOn, fails initialisation")
		gsxrt.Assert(c == nil, "no checker is returned when initialisation fails (nothing is analysed)")
	} else {
		gsxrt.Reached("policy says continue")
		gsxrt.Assert(err == nil, "a fault whose class is not listed never fails initialisation")
		if gsxrt.Symbolic() { // Load calls are observable only through the engine model
			gsxrt.Assert(len(env.loads) == wantLoads, "every remaining rule file is still offered to the engine after a skipped fault")
		}
	}
}

// gsxC18FailOnTokens: the failOn value is a comma-separated list over
// {dsl, import, all}; anything else is an error; the legacy boolean means
// "all" when failOn is empty. One rule file with an arbitrary fault.
func gsxC18FailOnTokens() {
	env := gsxC18Env0()
	patterns := []string{"p0.go"}
	files := gsxC18Schedule(env, patterns, []int{1}, false)
	failOn := gsxrt.StringN("failOn.0", 6)
	gsxrt.Assume(!gsxrt.Matches(",", failOn))
	if gsxrt.Choose("failOn.two", 2) == 1 {
		t := gsxrt.StringN("failOn.1", 6)
		gsxrt.Assume(!gsxrt.Matches(",", t))
		failOn = failOn + "," + t
	}
	legacy := gsxrt.Bool("failOnError")
	rules := patterns
	if !gsxrt.Symbolic() {
		rules = gsxMaterialise(env, patterns, files)
		defer gsxCleanup()
	}
	c, err := newRuleguardChecker(gsxC18Info(rules[0], failOn, legacy, "<all>", ""), gsxC18Ctx())
	gsxrt.Reached("constructed")
	validTokens := gsxrt.Matches(`^(dsl|import|all)?(,(dsl|import|all)?)?$`, failOn)
	if !validTokens {
		gsxrt.Reached("unknown failOn value")
		gsxrt.Assert(err != nil, "an unknown failOn value is always an error")
		return
	}
	hasAll := gsxrt.Matches(`(^|,)all(,|$)`, failOn)
	hasImport := gsxrt.Matches(`(^|,)import(,|$)`, failOn)
	hasDsl := gsxrt.Matches(`(^|,)dsl(,|$)`, failOn)
	if failOn == "" && legacy {
		hasAll = true
	}
	wantErr, _, undetermined := gsxC18Policy(env, patterns, files, hasAll, hasImport, hasDsl)
	if undetermined {
		return
	}
	gsxrt.Reached("valid failOn value")
	gsxrt.Assert((err != nil) == wantErr, "initialisation fails iff the pattern is unmatched or the fault class is listed in failOn")
	if err != nil {
		gsxrt.Assert(c == nil, "no checker is returned when initialisation fails")
	}
}

func gsxDigit(i int) string { return string(rune('0' + i)) }

// gsxC18GroupFilter: a rule group runs iff enabled (by name, tag or <all>)
// and not disabled by name or tag; experimental groups only when asked for.
func gsxC18GroupFilter() {
	env := &gsxC18Env{globNames: map[string][]string{"r.go": {"r.go"}}, globBad: map[string]bool{}, readFails: map[string]bool{},
		loadResult: map[string]int{}, accepted: map[string]bool{}, emptyFile: map[string]bool{}}
	gsxEnv = env
	name := gsxrt.StringN("group.name", 3)
	gsxrt.Assume(gsxrt.Matches(`^[a-z]+$`, name))
	var tags []string
	experimental := false
	for i := 0; i < 2; i++ {
		switch gsxrt.Choose("group.tag"+gsxDigit(i), 3) {
		case 1:
			t := gsxrt.StringN("group.tagtext"+gsxDigit(i), 3)
			gsxrt.Assume(gsxrt.Matches(`^[a-z]+$`, t))
			tags = append(tags, t)
		case 2:
			tags = append(tags, "experimental")
			experimental = true
		}
	}
	env.groups = []*ruleguard.GoRuleGroup{{Name: name, DocTags: tags}}
	key := func(n string) string {
		if gsxrt.Choose(n+".kind", 2) == 1 {
			return "#experimental"
		}
		k := gsxrt.StringN(n, 4)
		gsxrt.Assume(!gsxrt.Matches(`[, \t\r\n\v\f]`, k))
		return k
	}
	var enableKeys, disableKeys []string
	enable := "<all>"
	if gsxrt.Choose("enable.all", 2) == 1 {
		enableKeys = []string{key("enable0"), key("enable1")}
		enable = enableKeys[0] + "," + enableKeys[1]
		gsxrt.Assume(enable != "<all>")
	}
	disableKeys = []string{key("disable0")}
	disable := disableKeys[0]

	rulesParam := "r.go"
	if !gsxrt.Symbolic() {
		dir, derr := os.MkdirTemp("", "gsx-c18-")
		if derr != nil {
			panic(derr)
		}
		gsxTempDirs = append(gsxTempDirs, dir)
		defer gsxCleanup()
		src := "package gorules\n\nimport \"github.com/quasilyte/go-ruleguard/dsl\"\n\n"
		if len(tags) > 0 {
			src += "//doc:summary gsx\n//doc:tags " + strings.Join(tags, " ") + "\n"
		}
		src += "func " + name + "(m dsl.Matcher) {\n\tm.Match(`gsxNoSuchCall($x)`).Report(`x`)\n}\n"
		rulesParam = filepath.Join(dir, "r.go")
		os.WriteFile(rulesParam, []byte(src), 0o644)
	}
	c, err := newRuleguardChecker(gsxC18Info(rulesParam, "", false, enable, disable), gsxC18Ctx())
	gsxrt.Reached("constructed")
	gsxrt.Assert(err == nil, "valid configuration constructs")
	got := env.accepted[name]
	if !gsxrt.Symbolic() {
		got = false
		if c != nil && c.engine != nil {
			for _, g := range c.engine.LoadedGroups() {
				if g.Name == name {
					got = true
				}
			}
		}
	}

	in := func(keys []string, k string) bool {
		r := false
		for _, x := range keys {
			r = gsxrt.Or(r, x == k)
		}
		return r
	}
	tagIn := func(keys []string) bool {
		r := false
		for _, t := range tags {
			r = gsxrt.Or(r, in(keys, "#"+t))
		}
		return r
	}
	enabled := gsxrt.Or(enable == "<all>", in(enableKeys, name), tagIn(enableKeys))
	disabled := gsxrt.Or(in(disableKeys, name), tagIn(disableKeys))
	if !experimental {
		gsxrt.Reached("plain group")
		gsxrt.Assert(got == gsxrt.And(enabled, !disabled), "a group runs iff enabled by name/tag/<all> and not disabled by name/tag")
		return
	}
	gsxrt.Reached("experimental group")
	askedFor := gsxrt.Or(in(enableKeys, name), in(enableKeys, "#experimental"))
	if !askedFor {
		gsxrt.Assert(!got, "an experimental group never runs unless asked for")
	}
	if gsxrt.And(in(enableKeys, "#experimental"), !disabled) {
		gsxrt.Assert(got, "an experimental group runs when #experimental is enabled and nothing disables it")
	}
	if disabled {
		gsxrt.Assert(!got, "disable wins for experimental groups too")
	}
}

// gsxC18NoRules: without rules the checker is a no-op; after a constructor
// error nothing is analysed.
func gsxC18NoRules() {
	env := &gsxC18Env{globNames: map[string][]string{}, globBad: map[string]bool{}, readFails: map[string]bool{},
		loadResult: map[string]int{}, accepted: map[string]bool{}, emptyFile: map[string]bool{}}
	gsxEnv = env
	c, err := newRuleguardChecker(gsxC18Info("", gsxrt.StringN("failOn", 4), gsxrt.Bool("legacy"), "<all>", ""), gsxC18Ctx())
	gsxrt.Reached("constructed")
	gsxrt.Assert(err == nil && c != nil, "an empty rules parameter makes a no-op checker, whatever the other parameters are")
	c.WalkFile(&ast.File{})
	gsxrt.Assert(env.runs == 0 && len(env.loads) == 0, "the no-op checker loads and runs nothing")
}
