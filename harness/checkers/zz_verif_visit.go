package checkers

import (
	"go/ast"
	"go/token"
	"go/types"

	"github.com/go-critic/go-critic/checkers/internal/astwalk"
	"github.com/go-critic/go-critic/gsxrt"
	"github.com/go-critic/go-critic/linter"
)

const gsxWalkPkg = "*github.com/go-critic/go-critic/checkers/internal/astwalk."

// gsxNewChecker builds the named checker through its real constructor over a
// lazily initialised (symbolic) types.Info and package, with symbolic
// parameter values.
func gsxNewChecker(name string) (*linter.Checker, *linter.Context) {
	var info *linter.CheckerInfo
	for _, x := range linter.GetCheckersInfo() {
		if x.Name == name {
			info = x
		}
	}
	if info == nil {
		panic("gsx: no such checker: " + name)
	}
	for pname, p := range info.Params {
		switch p.Value.(type) {
		case int:
			p.Value = gsxrt.Int("param." + pname)
		case bool:
			p.Value = gsxrt.Bool("param." + pname)
		}
	}
	ctx := linter.NewContext(token.NewFileSet(), types.SizesFor("gc", "amd64"))
	gsxrt.ProtectNew(true)
	gsxrt.Lazy("info", 9, ctx.TypesInfo)
	gsxrt.Lazy("pkg", 1, &ctx.Pkg)
	c, err := linter.NewChecker(ctx, info)
	if err != nil {
		gsxrt.Assume(false)
	}
	return c, ctx
}

// gsxInput is one lazily initialised input for a checker's visitor.
type gsxInput struct {
	fn       *ast.FuncDecl
	expr     ast.Expr
	stmt     ast.Stmt
	blk      *ast.BlockStmt
	decl     *ast.FuncDecl
	id       *ast.Ident
	init     ast.Expr
	namekind int
	cg       *ast.CommentGroup
	file     *ast.File
	efile    *ast.File // the file announced through EnterFile before a visit
	prefix   string
}

func gsxWalkerKind(c *linter.Checker) string {
	return gsxrt.TypeName(gsxrt.Field(c, "fileWalker"))
}

func gsxFocus(c *linter.Checker) {
	fw := gsxrt.Field(c, "fileWalker")
	if v := gsxrt.Field(fw, "visitor"); v != nil {
		gsxrt.FocusOn(v)
	} else {
		gsxrt.FocusOn(fw)
	}
}

// gsxMakeInput creates the lazy input matching the checker's walker.
func gsxMakeInput(c *linter.Checker) *gsxInput { return gsxMakeInputNamed(c, "") }

// gsxMakeInputNamed: a second, independent input gets its own name prefix.
func gsxMakeInputNamed(c *linter.Checker, prefix string) *gsxInput {
	in := &gsxInput{prefix: prefix}
	k := gsxrt.Bound("K", 3)
	if prefix != "" {
		gsxrt.Lazy(prefix+"fn", 1, &in.fn)
		switch gsxWalkerKind(c) {
		case gsxWalkPkg + "exprWalker", gsxWalkPkg + "localExprWalker", gsxWalkPkg + "typeExprWalker":
			gsxrt.Lazy(prefix, k, &in.expr)
		case gsxWalkPkg + "stmtWalker":
			gsxrt.Lazy(prefix, k, &in.stmt)
		case gsxWalkPkg + "stmtListWalker":
			gsxrt.Lazy(prefix, k, &in.blk)
		case gsxWalkPkg + "funcDeclWalker":
			gsxrt.Lazy(prefix, k, &in.decl)
		case gsxWalkPkg + "localDefWalker":
			gsxrt.Lazy(prefix, k, &in.id)
			gsxrt.Lazy(prefix+"init", k, &in.init)
			in.namekind = gsxrt.IntRange(prefix+"namekind", 0, 2)
		case gsxWalkPkg + "commentWalker", gsxWalkPkg + "localCommentWalker", gsxWalkPkg + "docCommentWalker":
			gsxrt.Lazy(prefix, k, &in.cg)
		default:
			gsxrt.Lazy(prefix+"file", k, &in.file)
		}
		return in
	}
	gsxrt.Lazy("fn", 1, &in.fn)
	switch gsxWalkerKind(c) {
	case gsxWalkPkg + "exprWalker", gsxWalkPkg + "localExprWalker", gsxWalkPkg + "typeExprWalker":
		gsxrt.Lazy("x", k, &in.expr)
	case gsxWalkPkg + "stmtWalker":
		gsxrt.Lazy("x", k, &in.stmt)
	case gsxWalkPkg + "stmtListWalker":
		gsxrt.Lazy("x", k, &in.blk)
	case gsxWalkPkg + "funcDeclWalker":
		gsxrt.Lazy("x", k, &in.decl)
	case gsxWalkPkg + "localDefWalker":
		gsxrt.Lazy("x", k, &in.id)
		gsxrt.Lazy("init", k, &in.init)
		in.namekind = gsxrt.IntRange("namekind", 0, 2)
	case gsxWalkPkg + "commentWalker", gsxWalkPkg + "localCommentWalker", gsxWalkPkg + "docCommentWalker":
		gsxrt.Lazy("x", k, &in.cg)
	default:
		gsxrt.Lazy("file", k, &in.file)
	}
	return in
}

// gsxApply performs one visit of c's visitor on the input.
func gsxApply(c *linter.Checker, in *gsxInput) {
	// the context is shared by all checkers (and, in the CLI, by concurrent
	// goroutines): read-only while a checker runs
	if cc, ok := gsxrt.Field(c, "ctx").(linter.CheckerContext); ok && cc.Context != nil {
		// as the drivers do: the file is announced to the context (which resolves its
		// imports for the checkers that ask for them) before any checker runs
		if cc.Context.Require.PkgObjects || cc.Context.Require.PkgRenames {
			if in.efile == nil {
				gsxrt.Lazy(in.prefix+"efile", 2, &in.efile)
			}
			cc.Context.SetFileInfo("cand.go", in.efile)
		}
		gsxrt.Protect("context", cc.Context)
		defer gsxrt.Unprotect(cc.Context)
	}
	fw := gsxrt.Field(c, "fileWalker")
	// the walkers' protocol: EnterFile(file) comes first and may veto the file
	if v := gsxrt.Field(fw, "visitor"); v != nil {
		if ef, ok := v.(interface{ EnterFile(*ast.File) bool }); ok {
			if in.efile == nil {
				gsxrt.Lazy(in.prefix+"efile", 2, &in.efile)
			}
			if !ef.EnterFile(in.efile) {
				return
			}
		}
	}
	switch gsxrt.TypeName(fw) {
	case gsxWalkPkg + "exprWalker":
		v := gsxrt.Field(fw, "visitor").(astwalk.ExprVisitor)
		if v.EnterFunc(in.fn) {
			gsxrt.Reached("visit")
			v.VisitExpr(in.expr)
		}
	case gsxWalkPkg + "localExprWalker":
		v := gsxrt.Field(fw, "visitor").(astwalk.LocalExprVisitor)
		if v.EnterFunc(in.fn) {
			gsxrt.Reached("visit")
			v.VisitLocalExpr(in.expr)
		}
	case gsxWalkPkg + "stmtWalker":
		v := gsxrt.Field(fw, "visitor").(astwalk.StmtVisitor)
		if v.EnterFunc(in.fn) {
			gsxrt.Reached("visit")
			v.VisitStmt(in.stmt)
		}
	case gsxWalkPkg + "stmtListWalker":
		v := gsxrt.Field(fw, "visitor").(astwalk.StmtListVisitor)
		if v.EnterFunc(in.fn) {
			gsxrt.Reached("visit")
			v.VisitStmtList(in.blk, in.blk.List)
		}
	case gsxWalkPkg + "funcDeclWalker":
		v := gsxrt.Field(fw, "visitor").(astwalk.FuncDeclVisitor)
		if v.EnterFunc(in.decl) {
			gsxrt.Reached("visit")
			v.VisitFuncDecl(in.decl)
		}
	case gsxWalkPkg + "typeExprWalker":
		v := gsxrt.Field(fw, "visitor").(astwalk.TypeExprVisitor)
		if v.EnterFunc(in.fn) {
			gsxrt.Reached("visit")
			v.VisitTypeExpr(in.expr)
		}
	case gsxWalkPkg + "localDefWalker":
		v := gsxrt.Field(fw, "visitor").(astwalk.LocalDefVisitor)
		if v.EnterFunc(in.fn) {
			gsxrt.Reached("visit")
			v.VisitLocalDef(astwalk.Name{ID: in.id, Kind: astwalk.NameKind(in.namekind)}, in.init)
		}
	case gsxWalkPkg + "commentWalker":
		v := gsxrt.Field(fw, "visitor").(astwalk.CommentVisitor)
		gsxrt.Reached("visit")
		v.VisitComment(in.cg)
	case gsxWalkPkg + "localCommentWalker":
		v := gsxrt.Field(fw, "visitor").(astwalk.LocalCommentVisitor)
		if v.EnterFunc(in.fn) {
			gsxrt.Reached("visit")
			v.VisitLocalComment(in.cg)
		}
	case gsxWalkPkg + "docCommentWalker":
		v := gsxrt.Field(fw, "visitor").(astwalk.DocCommentVisitor)
		gsxrt.Reached("visit")
		v.VisitDocComment(in.cg)
	default:
		// checkers that implement FileWalker themselves: a whole (small) lazy file
		gsxrt.Reached("visit")
		c.Check(in.file)
	}
}

func gsxWarnings(c *linter.Checker) []linter.Warning {
	return gsxrt.Field(gsxrt.Field(c, "ctx"), "warnings").([]linter.Warning)
}

// gsxVisit drives one visit of the checker's visitor on a lazily initialised
// node: the walkers call the visitor once per node of the matching category,
// so one visit on an arbitrary node of bounded depth covers every program
// whose relevant neighbourhood fits the bound.
func gsxVisit(name string) {
	c, _ := gsxNewChecker(name)
	gsxFocus(c)
	in := gsxMakeInput(c)
	gsxApply(c, in)
	gsxCheckWarnings(c)
}

// gsxCheckWarnings states C07 for the diagnostics produced so far: a valid
// position taken from a token of the analysed file, a non-inverted fix
// range inside the file, a non-empty message.
func gsxCheckWarnings(c *linter.Checker) {
	for _, w := range gsxWarnings(c) {
		gsxrt.Reached("warning")
		gsxrt.Assert(w.Pos != token.NoPos, "pos: a diagnostic has no position")
		gsxrt.Assert(gsxrt.IsInputPos(w.Pos), "pos: a diagnostic position is not the start of a token of the analysed file")
		if w.Suggestion.Replacement != nil {
			gsxrt.Assert(w.Suggestion.From != token.NoPos && w.Suggestion.To != token.NoPos, "pos: a fix range has no position")
			gsxrt.Assert(w.Suggestion.From <= w.Suggestion.To, "pos: a fix range is inverted")
			gsxrt.Assert(gsxrt.IsInputPos(w.Suggestion.From), "pos: a fix range does not start at a token of the analysed file")
			gsxrt.Assert(gsxrt.IsInputPos(w.Suggestion.To), "pos: a fix range does not end at a token boundary of the analysed file")
		}
		gsxrt.Assert(w.Text != "", "pos: a diagnostic has an empty message")
	}
}

// gsxWalk drives the checker's whole file walker (EnterFile/EnterFunc and the
// traversal itself) over a small lazily initialised file.
func gsxWalk(name string) {
	c, ctx := gsxNewChecker(name)
	fw := gsxrt.Field(c, "fileWalker")
	if v := gsxrt.Field(fw, "visitor"); v != nil {
		gsxrt.FocusOn(v)
	} else {
		gsxrt.FocusOn(fw)
	}
	var f *ast.File
	gsxrt.Lazy("file", gsxrt.Bound("K", 2), &f)
	ctx.Filename = "cand.go"
	gsxrt.Reached("visit")
	gsxrt.Protect("context", ctx)
	c.Check(f)
	gsxrt.Unprotect(ctx)
	gsxCheckWarnings(c)
}
