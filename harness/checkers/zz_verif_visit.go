package checkers

import (
	"go/ast"
	"go/token"
	"go/types"

	"github.com/go-critic/go-critic/checkers/internal/astwalk"
	"github.com/go-critic/go-critic/gsxrt"
	"github.com/go-critic/go-critic/linter"
)

const gsxWalkPkg = "*github.com/go-critic/go-critic/checkers/internal/astwalk."

// gsxNewChecker builds the named checker through its real constructor over a
// lazily initialised (symbolic) types.Info and package, with symbolic
// parameter values.
func gsxNewChecker(name string) (*linter.Checker, *linter.Context) {
	var info *linter.CheckerInfo
	for _, x := range linter.GetCheckersInfo() {
		if x.Name == name {
			info = x
		}
	}
	if info == nil {
		panic("gsx: no such checker: " + name)
	}
	for pname, p := range info.Params {
		switch p.Value.(type) {
		case int:
			p.Value = gsxrt.Int("param." + pname)
		case bool:
			p.Value = gsxrt.Bool("param." + pname)
		}
	}
	ctx := linter.NewContext(token.NewFileSet(), types.SizesFor("gc", "amd64"))
	gsxrt.ProtectNew(true)
	gsxrt.Lazy("info", 9, ctx.TypesInfo)
	gsxrt.Lazy("pkg", 1, &ctx.Pkg)
	c, err := linter.NewChecker(ctx, info)
	if err != nil {
		gsxrt.Assume(false)
	}
	return c, ctx
}

// gsxVisit drives one visit of the checker's visitor on a lazily initialised
// node: the walkers call the visitor once per node of the matching category,
// so one visit on an arbitrary node of bounded depth covers every program
// whose relevant neighbourhood fits the bound.
func gsxVisit(name string) {
	c, _ := gsxNewChecker(name)
	fw := gsxrt.Field(c, "fileWalker")
	if v := gsxrt.Field(fw, "visitor"); v != nil {
		gsxrt.FocusOn(v)
	} else {
		gsxrt.FocusOn(fw)
	}
	var fn *ast.FuncDecl
	gsxrt.Lazy("fn", 1, &fn)
	k := gsxrt.Bound("K", 3)
	switch gsxrt.TypeName(fw) {
	case gsxWalkPkg + "exprWalker":
		v := gsxrt.Field(fw, "visitor").(astwalk.ExprVisitor)
		if v.EnterFunc(fn) {
			var x ast.Expr
			gsxrt.Lazy("x", k, &x)
			gsxrt.Reached("visit")
			v.VisitExpr(x)
		}
	case gsxWalkPkg + "localExprWalker":
		v := gsxrt.Field(fw, "visitor").(astwalk.LocalExprVisitor)
		if v.EnterFunc(fn) {
			var x ast.Expr
			gsxrt.Lazy("x", k, &x)
			gsxrt.Reached("visit")
			v.VisitLocalExpr(x)
		}
	case gsxWalkPkg + "stmtWalker":
		v := gsxrt.Field(fw, "visitor").(astwalk.StmtVisitor)
		if v.EnterFunc(fn) {
			var x ast.Stmt
			gsxrt.Lazy("x", k, &x)
			gsxrt.Reached("visit")
			v.VisitStmt(x)
		}
	case gsxWalkPkg + "stmtListWalker":
		v := gsxrt.Field(fw, "visitor").(astwalk.StmtListVisitor)
		if v.EnterFunc(fn) {
			var blk *ast.BlockStmt
			gsxrt.Lazy("x", k, &blk)
			gsxrt.Reached("visit")
			v.VisitStmtList(blk, blk.List)
		}
	case gsxWalkPkg + "funcDeclWalker":
		v := gsxrt.Field(fw, "visitor").(astwalk.FuncDeclVisitor)
		var x *ast.FuncDecl
		gsxrt.Lazy("x", k, &x)
		if v.EnterFunc(x) {
			gsxrt.Reached("visit")
			v.VisitFuncDecl(x)
		}
	case gsxWalkPkg + "typeExprWalker":
		v := gsxrt.Field(fw, "visitor").(astwalk.TypeExprVisitor)
		if v.EnterFunc(fn) {
			var x ast.Expr
			gsxrt.Lazy("x", k, &x)
			gsxrt.Reached("visit")
			v.VisitTypeExpr(x)
		}
	case gsxWalkPkg + "localDefWalker":
		v := gsxrt.Field(fw, "visitor").(astwalk.LocalDefVisitor)
		if v.EnterFunc(fn) {
			var id *ast.Ident
			gsxrt.Lazy("x", k, &id)
			var init ast.Expr
			gsxrt.Lazy("init", k, &init)
			gsxrt.Reached("visit")
			v.VisitLocalDef(astwalk.Name{ID: id, Kind: astwalk.NameKind(gsxrt.IntRange("namekind", 0, 2))}, init)
		}
	case gsxWalkPkg + "commentWalker":
		v := gsxrt.Field(fw, "visitor").(astwalk.CommentVisitor)
		var cg *ast.CommentGroup
		gsxrt.Lazy("x", k, &cg)
		gsxrt.Reached("visit")
		v.VisitComment(cg)
	case gsxWalkPkg + "localCommentWalker":
		v := gsxrt.Field(fw, "visitor").(astwalk.LocalCommentVisitor)
		if v.EnterFunc(fn) {
			var cg *ast.CommentGroup
			gsxrt.Lazy("x", k, &cg)
			gsxrt.Reached("visit")
			v.VisitLocalComment(cg)
		}
	case gsxWalkPkg + "docCommentWalker":
		v := gsxrt.Field(fw, "visitor").(astwalk.DocCommentVisitor)
		var cg *ast.CommentGroup
		gsxrt.Lazy("x", k, &cg)
		gsxrt.Reached("visit")
		v.VisitDocComment(cg)
	default:
		// checkers that implement FileWalker themselves: a whole (small) lazy file
		var f *ast.File
		gsxrt.Lazy("file", k, &f)
		gsxrt.Reached("visit")
		c.Check(f)
	}
	gsxCheckWarnings(c)
}

// gsxCheckWarnings states C07 for the diagnostics produced so far: a valid
// position taken from a token of the analysed file, a non-inverted fix
// range inside the file, a non-empty message.
func gsxCheckWarnings(c *linter.Checker) {
	ws := gsxrt.Field(gsxrt.Field(c, "ctx"), "warnings").([]linter.Warning)
	for _, w := range ws {
		gsxrt.Reached("warning")
		gsxrt.Assert(w.Pos != token.NoPos, "pos: a diagnostic has no position")
		gsxrt.Assert(gsxrt.IsInputPos(w.Pos), "pos: a diagnostic position is not the start of a token of the analysed file")
		if w.Suggestion.Replacement != nil {
			gsxrt.Assert(w.Suggestion.From != token.NoPos && w.Suggestion.To != token.NoPos, "pos: a fix range has no position")
			gsxrt.Assert(w.Suggestion.From <= w.Suggestion.To, "pos: a fix range is inverted")
			gsxrt.Assert(gsxrt.IsInputPos(w.Suggestion.From), "pos: a fix range does not start at a token of the analysed file")
			gsxrt.Assert(gsxrt.IsInputPos(w.Suggestion.To), "pos: a fix range does not end at a token boundary of the analysed file")
		}
		gsxrt.Assert(w.Text != "", "pos: a diagnostic has an empty message")
	}
}

// gsxWalk drives the checker's whole file walker (EnterFile/EnterFunc and the
// traversal itself) over a small lazily initialised file.
func gsxWalk(name string) {
	c, ctx := gsxNewChecker(name)
	fw := gsxrt.Field(c, "fileWalker")
	if v := gsxrt.Field(fw, "visitor"); v != nil {
		gsxrt.FocusOn(v)
	} else {
		gsxrt.FocusOn(fw)
	}
	var f *ast.File
	gsxrt.Lazy("file", gsxrt.Bound("K", 2), &f)
	ctx.Filename = "cand.go"
	gsxrt.Reached("visit")
	c.Check(f)
	gsxCheckWarnings(c)
}
