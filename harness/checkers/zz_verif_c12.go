package checkers

import (
	"go/ast"
	"go/constant"
	"go/token"
	"go/types"

	"github.com/go-critic/go-critic/gsxrt"
	"github.com/go-critic/go-critic/linter"
)

// gsxC12BadCond: when badCond says a condition is "always false", the
// condition is false in every execution - including executions in which an
// operand is a call whose result changes from one evaluation to the next.
//
// Shape: (X op1 A) && (X op2 B), X an identifier or a call next(), A and B
// integer constants with symbolic values, op1/op2 symbolic comparison operators.
func gsxC12BadCond() {
	info := gsxInfo("badCond")
	ctx := linter.NewContext(token.NewFileSet(), types.SizesFor("gc", "amd64"))
	ctx.TypesInfo.Types = map[ast.Expr]types.TypeAndValue{}
	ctx.TypesInfo.Uses = map[*ast.Ident]types.Object{}
	ctx.TypesInfo.Defs = map[*ast.Ident]types.Object{}
	c, err := linter.NewChecker(ctx, info)
	if err != nil {
		panic(err)
	}
	intT := types.Typ[types.Int]
	impure := gsxrt.Choose("operand", 2) == 1
	mkX := func() ast.Expr {
		var e ast.Expr
		if impure {
			e = &ast.CallExpr{Fun: &ast.Ident{Name: "next"}}
		} else {
			e = &ast.Ident{Name: "x"}
		}
		ctx.TypesInfo.Types[e] = types.TypeAndValue{Type: intT}
		return e
	}
	a := gsxrt.IntRange("a", -8, 8)
	b := gsxrt.IntRange("b", -8, 8)
	litA := &ast.BasicLit{Kind: token.INT, Value: "A"}
	litB := &ast.BasicLit{Kind: token.INT, Value: "B"}
	ctx.TypesInfo.Types[litA] = types.TypeAndValue{Type: intT, Value: constant.MakeInt64(int64(a))}
	ctx.TypesInfo.Types[litB] = types.TypeAndValue{Type: intT, Value: constant.MakeInt64(int64(b))}
	op1 := token.Token(gsxrt.IntRange("op1", int(token.EQL), int(token.GEQ)))
	op2 := token.Token(gsxrt.IntRange("op2", int(token.EQL), int(token.GEQ)))
	isCmp := func(op token.Token) bool {
		return gsxrt.Or(op == token.EQL, op == token.NEQ, op == token.LSS, op == token.LEQ, op == token.GTR, op == token.GEQ)
	}
	gsxrt.Assume(isCmp(op1) && isCmp(op2))
	lhs := &ast.BinaryExpr{X: mkX(), Op: op1, Y: litA}
	rhs := &ast.BinaryExpr{X: mkX(), Op: op2, Y: litB}
	cond := &ast.BinaryExpr{X: lhs, Op: token.LAND, Y: rhs}
	for _, e := range []ast.Expr{lhs, rhs, cond} {
		ctx.TypesInfo.Types[e] = types.TypeAndValue{Type: types.Typ[types.Bool]}
	}
	stmt := &ast.IfStmt{Cond: cond, Body: &ast.BlockStmt{}}

	fnv := gsxrt.Field(gsxrt.Field(c, "fileWalker"), "visitor").(interface{ VisitFuncDecl(*ast.FuncDecl) })
	fnv.VisitFuncDecl(&ast.FuncDecl{Name: &ast.Ident{Name: "f"}, Type: &ast.FuncType{Params: &ast.FieldList{}}, Body: &ast.BlockStmt{List: []ast.Stmt{stmt}}})
	ws := gsxWarnings(c)
	if len(ws) == 0 {
		return
	}
	gsxrt.Reached("reported")
	if !gsxrt.Matches("always false", ws[0].Text) {
		return
	}
	gsxrt.Reached("always false")
	// run-time meaning: every evaluation of an impure operand yields its own value
	x1 := gsxrt.IntRange("eval1", -16, 16)
	x2 := x1
	if impure {
		x2 = gsxrt.IntRange("eval2", -16, 16)
	}
	cmpv := func(op token.Token, l, r int) bool {
		return gsxrt.Or(
			gsxrt.And(op == token.EQL, l == r), gsxrt.And(op == token.NEQ, l != r),
			gsxrt.And(op == token.LSS, l < r), gsxrt.And(op == token.LEQ, l <= r),
			gsxrt.And(op == token.GTR, l > r), gsxrt.And(op == token.GEQ, l >= r))
	}
	value := gsxrt.And(cmpv(op1, x1, a), cmpv(op2, x2, b))
	gsxrt.Assert(!value, "claim: a condition reported as always false is true in some execution")
}
