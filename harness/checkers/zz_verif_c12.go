package checkers

import (
	"go/ast"
	"go/constant"
	"go/token"
	"go/types"

	"github.com/go-critic/go-critic/gsxrt"
	"github.com/go-critic/go-critic/linter"
)

// gsxC12BadCond: when badCond says a condition is "always false", the
// condition is false in every execution - including executions in which an
// operand is a call whose result changes from one evaluation to the next.
//
// Shape: (X op1 A) && (X op2 B), X an identifier or a call next(), A and B
// integer constants with symbolic values, op1/op2 symbolic comparison operators.
func gsxC12BadCond() {
	info := gsxInfo("badCond")
	ctx := linter.NewContext(token.NewFileSet(), types.SizesFor("gc", "amd64"))
	ctx.TypesInfo.Types = map[ast.Expr]types.TypeAndValue{}
	ctx.TypesInfo.Uses = map[*ast.Ident]types.Object{}
	ctx.TypesInfo.Defs = map[*ast.Ident]types.Object{}
	c, err := linter.NewChecker(ctx, info)
	if err != nil {
		panic(err)
	}
	intT := types.Typ[types.Int]
	impure := gsxrt.Choose("operand", 2) == 1
	mkX := func() ast.Expr {
		var e ast.Expr
		if impure {
			e = &ast.CallExpr{Fun: &ast.Ident{Name: "next"}}
		} else {
			e = &ast.Ident{Name: "x"}
		}
		ctx.TypesInfo.Types[e] = types.TypeAndValue{Type: intT}
		return e
	}
	a := gsxrt.IntRange("a", -8, 8)
	b := gsxrt.IntRange("b", -8, 8)
	litA := &ast.BasicLit{Kind: token.INT, Value: "A"}
	litB := &ast.BasicLit{Kind: token.INT, Value: "B"}
	ctx.TypesInfo.Types[litA] = types.TypeAndValue{Type: intT, Value: constant.MakeInt64(int64(a))}
	ctx.TypesInfo.Types[litB] = types.TypeAndValue{Type: intT, Value: constant.MakeInt64(int64(b))}
	op1 := token.Token(gsxrt.IntRange("op1", int(token.EQL), int(token.GEQ)))
	op2 := token.Token(gsxrt.IntRange("op2", int(token.EQL), int(token.GEQ)))
	isCmp := func(op token.Token) bool {
		return gsxrt.Or(op == token.EQL, op == token.NEQ, op == token.LSS, op == token.LEQ, op == token.GTR, op == token.GEQ)
	}
	gsxrt.Assume(isCmp(op1) && isCmp(op2))
	lhs := &ast.BinaryExpr{X: mkX(), Op: op1, Y: litA}
	rhs := &ast.BinaryExpr{X: mkX(), Op: op2, Y: litB}
	cond := &ast.BinaryExpr{X: lhs, Op: token.LAND, Y: rhs}
	for _, e := range []ast.Expr{lhs, rhs, cond} {
		ctx.TypesInfo.Types[e] = types.TypeAndValue{Type: types.Typ[types.Bool]}
	}
	stmt := &ast.IfStmt{Cond: cond, Body: &ast.BlockStmt{}}

	fnv := gsxrt.Field(gsxrt.Field(c, "fileWalker"), "visitor").(interface{ VisitFuncDecl(*ast.FuncDecl) })
	fnv.VisitFuncDecl(&ast.FuncDecl{Name: &ast.Ident{Name: "f"}, Type: &ast.FuncType{Params: &ast.FieldList{}}, Body: &ast.BlockStmt{List: []ast.Stmt{stmt}}})
	ws := gsxWarnings(c)
	if len(ws) == 0 {
		return
	}
	gsxrt.Reached("reported")
	if !gsxrt.Matches("always false", ws[0].Text) {
		return
	}
	gsxrt.Reached("always false")
	// run-time meaning: every evaluation of an impure operand yields its own value
	x1 := gsxrt.IntRange("eval1", -16, 16)
	x2 := x1
	if impure {
		x2 = gsxrt.IntRange("eval2", -16, 16)
	}
	cmpv := func(op token.Token, l, r int) bool {
		return gsxrt.Or(
			gsxrt.And(op == token.EQL, l == r), gsxrt.And(op == token.NEQ, l != r),
			gsxrt.And(op == token.LSS, l < r), gsxrt.And(op == token.LEQ, l <= r),
			gsxrt.And(op == token.GTR, l > r), gsxrt.And(op == token.GEQ, l >= r))
	}
	value := gsxrt.And(cmpv(op1, x1, a), cmpv(op2, x2, b))
	gsxrt.Assert(!value, "claim: a condition reported as always false is true in some execution")
}

// gsxPureExpr: evaluating e twice gives the same value and has no effect -
// identifiers, literals, and operators over such; a call is only allowed when
// it is a conversion; a channel receive never is.
func gsxPureExpr(info *types.Info, e ast.Expr) bool {
	switch e := e.(type) {
	case nil:
		return true
	case *ast.Ident, *ast.BasicLit:
		return true
	case *ast.ParenExpr:
		return gsxPureExpr(info, e.X)
	case *ast.StarExpr:
		return gsxPureExpr(info, e.X)
	case *ast.SelectorExpr:
		return gsxPureExpr(info, e.X)
	case *ast.UnaryExpr:
		return e.Op != token.ARROW && gsxPureExpr(info, e.X)
	case *ast.BinaryExpr:
		return gsxPureExpr(info, e.X) && gsxPureExpr(info, e.Y)
	case *ast.IndexExpr:
		return gsxPureExpr(info, e.X) && gsxPureExpr(info, e.Index)
	case *ast.SliceExpr:
		return gsxPureExpr(info, e.X) && gsxPureExpr(info, e.Low) && gsxPureExpr(info, e.High) && gsxPureExpr(info, e.Max)
	case *ast.TypeAssertExpr:
		return gsxPureExpr(info, e.X)
	case *ast.KeyValueExpr:
		return gsxPureExpr(info, e.Key) && gsxPureExpr(info, e.Value)
	case *ast.CompositeLit:
		for _, x := range e.Elts {
			if !gsxPureExpr(info, x) {
				return false
			}
		}
		return true
	case *ast.CallExpr:
		if tv, ok := info.Types[e.Fun]; !ok || !tv.IsType() {
			return false
		}
		for _, x := range e.Args {
			if !gsxPureExpr(info, x) {
				return false
			}
		}
		return true
	}
	return false
}

// gsxC12DupSubExpr: when dupSubExpr reports "identical LHS and RHS", the two
// operands really denote the same value. Well-typed templates `e op e` with a
// symbolic operator and an operand drawn from pure forms (x, x+1, int(x), p.f,
// a[i]) and impure ones (a call f(), a receive <-ch, a sum containing a call).
func gsxC12DupSubExpr() {
	c, ctx := gsxNewChecker("dupSubExpr")
	info := ctx.TypesInfo
	info.Types = map[ast.Expr]types.TypeAndValue{}
	info.Uses = map[*ast.Ident]types.Object{}
	info.Defs = map[*ast.Ident]types.Object{}
	tint := types.Typ[types.Int]
	typed := func(e ast.Expr, t types.Type) ast.Expr { info.Types[e] = types.TypeAndValue{Type: t}; return e }
	kind := gsxrt.Choose("operand", 8)
	mk := func() ast.Expr {
		x := func() ast.Expr { return typed(&ast.Ident{Name: "x"}, tint) }
		switch kind {
		case 0:
			return x()
		case 1:
			return typed(&ast.BinaryExpr{X: x(), Op: token.ADD, Y: typed(&ast.BasicLit{Kind: token.INT, Value: "1"}, tint)}, tint)
		case 2:
			conv := &ast.Ident{Name: "int"}
			info.Uses[conv] = types.Universe.Lookup("int") // a type name: the call is a conversion
			return typed(&ast.CallExpr{Fun: conv, Args: []ast.Expr{x()}}, tint)
		case 3:
			return typed(&ast.SelectorExpr{X: typed(&ast.Ident{Name: "p"}, tint), Sel: &ast.Ident{Name: "f"}}, tint)
		case 4:
			return typed(&ast.IndexExpr{X: typed(&ast.Ident{Name: "a"}, types.NewSlice(tint)), Index: x()}, tint)
		case 5:
			return typed(&ast.CallExpr{Fun: typed(&ast.Ident{Name: "f"}, types.NewSignatureType(nil, nil, nil, nil, types.NewTuple(types.NewVar(0, nil, "", tint)), false))}, tint)
		case 6:
			return typed(&ast.UnaryExpr{Op: token.ARROW, X: typed(&ast.Ident{Name: "ch"}, types.NewChan(types.SendRecv, tint))}, tint)
		default:
			call := typed(&ast.CallExpr{Fun: typed(&ast.Ident{Name: "f"}, types.NewSignatureType(nil, nil, nil, nil, types.NewTuple(types.NewVar(0, nil, "", tint)), false))}, tint)
			return typed(&ast.BinaryExpr{X: x(), Op: token.ADD, Y: call}, tint)
		}
	}
	op := token.Token(gsxrt.IntRange("op", int(token.ADD), int(token.GEQ)))
	// operators defined on two ints
	gsxrt.Assume(gsxrt.Or(op == token.OR, op == token.AND, op == token.XOR, op == token.AND_NOT, op == token.REM, op == token.QUO, op == token.SUB, op == token.ADD, op == token.MUL,
		op == token.LSS, op == token.GTR, op == token.EQL, op == token.NEQ, op == token.LEQ, op == token.GEQ))
	root := &ast.BinaryExpr{X: mk(), Op: op, Y: mk()}
	info.Types[root] = types.TypeAndValue{Type: tint}
	v := gsxrt.Field(gsxrt.Field(c, "fileWalker"), "visitor").(interface{ VisitExpr(ast.Expr) })
	v.VisitExpr(root)
	gsxrt.Reached("visited")
	if len(gsxWarnings(c)) == 0 {
		return
	}
	gsxrt.Reached("reported")
	gsxrt.Assert(kind <= 4, "claim: operands reported as identical contain a call or a channel receive (two evaluations need not give the same value)")
}

// gsxC12NilValReturn: when nilValReturn reports "returned expr is always nil"
// for `if e == N { return e }`, then e really is nil at the return: e is a
// pure expression (a second evaluation gives the same value) and N is the
// predeclared nil, not a user declaration that shares its spelling.
func gsxC12NilValReturn() {
	c, ctx := gsxNewChecker("nilValReturn")
	info := ctx.TypesInfo
	info.Types = map[ast.Expr]types.TypeAndValue{}
	info.Uses = map[*ast.Ident]types.Object{}
	info.Defs = map[*ast.Ident]types.Object{}
	ptr := types.NewPointer(types.Typ[types.Int])
	typed := func(e ast.Expr, t types.Type) ast.Expr { info.Types[e] = types.TypeAndValue{Type: t}; return e }
	kind := gsxrt.Choose("operand", 4)
	mk := func() ast.Expr {
		switch kind {
		case 0:
			return typed(&ast.Ident{Name: "x"}, ptr)
		case 1:
			return typed(&ast.SelectorExpr{X: typed(&ast.Ident{Name: "p"}, ptr), Sel: &ast.Ident{Name: "next"}}, ptr)
		case 2:
			return typed(&ast.CallExpr{Fun: typed(&ast.Ident{Name: "f"}, types.NewSignatureType(nil, nil, nil, nil, types.NewTuple(types.NewVar(0, nil, "", ptr)), false))}, ptr)
		default:
			return typed(&ast.UnaryExpr{Op: token.ARROW, X: typed(&ast.Ident{Name: "ch"}, types.NewChan(types.SendRecv, ptr))}, ptr)
		}
	}
	nilIdent := &ast.Ident{Name: "nil"}
	userNil := gsxrt.Bool("nil is a user variable")
	if userNil {
		info.Uses[nilIdent] = types.NewVar(0, nil, "nil", ptr)
	} else {
		info.Uses[nilIdent] = types.Universe.Lookup("nil")
	}
	typed(nilIdent, ptr)
	op := token.Token(gsxrt.IntRange("op", int(token.EQL), int(token.NEQ)))
	gsxrt.Assume(gsxrt.Or(op == token.EQL, op == token.NEQ))
	cond := typed(&ast.BinaryExpr{X: mk(), Op: op, Y: nilIdent}, types.Typ[types.Bool])
	stmt := &ast.IfStmt{If: 10, Cond: cond, Body: &ast.BlockStmt{List: []ast.Stmt{&ast.ReturnStmt{Return: 30, Results: []ast.Expr{mk()}}}}}
	v := gsxrt.Field(gsxrt.Field(c, "fileWalker"), "visitor").(interface{ VisitStmt(ast.Stmt) })
	v.VisitStmt(stmt)
	gsxrt.Reached("visited")
	if len(gsxWarnings(c)) == 0 {
		return
	}
	gsxrt.Reached("reported")
	gsxrt.Assert(op == token.EQL, "claim: 'always nil' is reported for a condition that is not an equality with nil")
	gsxrt.Assert(kind <= 1, "claim: 'always nil' is reported for an operand with a call or a channel receive (the returned evaluation is another one)")
	gsxrt.Assert(!userNil, "claim: 'always nil' is reported although nil denotes a user declaration here, not the predeclared nil")
}

// gsxC12CaseOrder: "case T must go before the I case" claims that the T clause can never
// be reached where it stands. With Go's type-switch semantics (an interface case matches a
// non-nil value whose dynamic type implements it, `case nil` matches the nil interface
// value, a concrete case matches exactly that dynamic type) the clause is unreachable iff T
// is a type (not nil) that implements I. The same long-lived checker visits two type
// switches that share the interface case; the case types t1, t2 are lazily initialised
// go/types types (distinct objects whose printed forms are independent symbolic strings;
// a basic type's kind is symbolic, so the untyped nil of `case nil` is among them), and
// types.Implements is a memoised nondeterministic fact per (type, interface).
func gsxC12CaseOrder() {
	c, ctx := gsxNewChecker("caseOrder")
	info := ctx.TypesInfo
	info.Types = map[ast.Expr]types.TypeAndValue{}
	var ti, t1, t2 types.Type
	gsxrt.Lazy("ti", 2, &ti)
	gsxrt.Lazy("t1", 2, &t1)
	gsxrt.Lazy("t2", 2, &t2)
	gsxrt.Assume(ti != nil && t1 != nil && t2 != nil)
	iface, ok := ti.Underlying().(*types.Interface)
	gsxrt.Assume(ok)
	pos := token.Pos(10)
	next := func() token.Pos { pos += 10; return pos }
	mk := func(t types.Type) (*ast.TypeSwitchStmt, *ast.CaseClause) {
		xi := &ast.Ident{Name: "I", NamePos: next()}
		xt := &ast.Ident{Name: "T", NamePos: next()}
		info.Types[xi] = types.TypeAndValue{Type: ti}
		info.Types[xt] = types.TypeAndValue{Type: t}
		second := &ast.CaseClause{Case: next(), List: []ast.Expr{xt}}
		return &ast.TypeSwitchStmt{Switch: next(), Assign: &ast.ExprStmt{X: &ast.TypeAssertExpr{X: &ast.Ident{Name: "v", NamePos: next()}}},
			Body: &ast.BlockStmt{List: []ast.Stmt{&ast.CaseClause{Case: next(), List: []ast.Expr{xi}}, second}}}, second
	}
	isNil := func(t types.Type) bool {
		b, ok := t.(*types.Basic)
		return ok && b.Kind() == types.UntypedNil
	}
	v := gsxrt.Field(gsxrt.Field(c, "fileWalker"), "visitor").(interface{ VisitStmt(ast.Stmt) })
	s1, _ := mk(t1)
	v.VisitStmt(s1)
	n1 := len(gsxWarnings(c))
	want1 := !isNil(t1) && types.Implements(t1, iface)
	gsxrt.Reached("first switch")
	if n1 > 0 {
		gsxrt.Reached("reported")
	}
	gsxrt.Assert((n1 > 0) == want1 || n1 == 0, "claim: a type-switch case is reported as unreachable (must go before an interface case) although it can be reached where it stands")
	s2, _ := mk(t2)
	v.VisitStmt(s2)
	n2 := len(gsxWarnings(c)) - n1
	want2 := !isNil(t2) && types.Implements(t2, iface)
	gsxrt.Reached("second switch")
	gsxrt.Assert((n2 > 0) == want2 || n2 == 0, "claim: a type-switch case is reported as unreachable (must go before an interface case) although it can be reached where it stands (second switch of the same checker)")
}
