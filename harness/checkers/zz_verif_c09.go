package checkers

import (
	"go/ast"
	"go/token"
	"go/types"

	"github.com/go-critic/go-critic/gsxrt"
	"github.com/go-critic/go-critic/linter"
	"github.com/quasilyte/go-ruleguard/ruleguard"
)

func gsxCheckerByName(ctx *linter.Context, name string) *linter.Checker {
	for _, info := range linter.GetCheckersInfo() {
		if info.Name == name {
			c, err := linter.NewChecker(ctx, info)
			if err != nil {
				panic(err)
			}
			return c
		}
	}
	panic("no checker " + name)
}

func gsxCommentFile(text string) (*ast.File, *ast.Comment) {
	c := &ast.Comment{Slash: 20, Text: text}
	return &ast.File{Package: 1, Name: &ast.Ident{Name: "p", NamePos: 9},
		Comments: []*ast.CommentGroup{{List: []*ast.Comment{c}}}}, c
}

// gsxC09CommentFix: the machine-applicable fix of commentFormatting, for
// every //-comment text: the fix range is exactly the comment, the
// replacement is still one //-comment that differs from the original only by
// the inserted space, and re-analysing the fixed comment reports nothing.
func gsxC09CommentFix() {
	text := gsxrt.StringN("text", 10)
	gsxrt.Assume(gsxrt.Matches(`^//[\t -~]*$`, text))
	// case split on the length (fixed-length strings are far easier for the solver)
	n := 2 + gsxrt.Choose("len", gsxrt.Bound("strlen", 8)-1)
	gsxrt.Assume(len(text) == n)
	fset := token.NewFileSet()
	fset.AddFile("/w/a.go", -1, 200)
	ctx := linter.NewContext(fset, types.SizesFor("gc", "amd64"))
	ctx.SetPackageInfo(&types.Info{}, nil)
	chk := gsxCheckerByName(ctx, "commentFormatting")
	f, c := gsxCommentFile(text)
	ctx.SetFileInfo("a.go", f)
	ws := chk.Check(f)
	gsxrt.Reached("checked")
	if len(ws) == 0 {
		return
	}
	gsxrt.Reached("reported")
	gsxrt.Assert(len(ws) == 1, "suggest: one comment is reported once")
	w := ws[0]
	gsxrt.Assert(w.HasQuickFix(), "suggest: the comment-formatting diagnostic carries its fix")
	gsxrt.Assert(w.Pos == c.Pos() && w.Suggestion.From == c.Pos() && w.Suggestion.To == c.End(), "suggest: the fix range is exactly the reported comment")
	repl := string(w.Suggestion.Replacement)
	gsxrt.Assert(gsxrt.Matches(`^//[\t -~]*$`, repl), "suggest: the replacement is still a single //-comment")
	gsxrt.Assert(repl == "// "+text[2:], "suggest: the fix only inserts a space after //")
	// applying the fix and analysing again
	f2, _ := gsxCommentFile(repl)
	ctx.SetFileInfo("a.go", f2)
	ws2 := chk.Check(f2)
	gsxrt.Reached("re-analysed")
	gsxrt.Assert(len(ws2) == 0, "suggest: after applying the fix the comment is reported again")
}

// gsxC09RuleFix: whatever the rule engine reports (message, node position,
// optional suggestion with range and replacement) reaches the diagnostics
// unchanged: one diagnostic per report at the node's position with the
// report's message, carrying the suggestion's range and bytes as its fix, or
// no fix when the report has none.
func gsxC09RuleFix() {
	n := gsxrt.Choose("reports", 2) + 1
	gsxRunReports = nil
	for i := 0; i < n; i++ {
		p := "r" + gsxDigit(i)
		rd := ruleguard.ReportData{Node: &ast.Ident{Name: "x", NamePos: token.Pos(gsxrt.IntRange(p+".pos", 1, 900))}, Message: gsxrt.StringN(p+".msg", 4)}
		switch gsxrt.Choose(p+".fix", 3) {
		case 1:
			rd.Suggestion = &ruleguard.Suggestion{From: token.Pos(gsxrt.IntRange(p+".from", 1, 900)), To: token.Pos(gsxrt.IntRange(p+".to", 1, 900)),
				Replacement: []byte(gsxrt.StringN(p+".repl", 3))}
		case 2:
			rd.Suggestion = &ruleguard.Suggestion{From: token.Pos(gsxrt.IntRange(p+".from", 1, 900)), To: token.Pos(gsxrt.IntRange(p+".to", 1, 900)),
				Replacement: []byte{}}
		}
		gsxRunReports = append(gsxRunReports, rd)
	}
	if err := InitEmbeddedRules(); err != nil {
		panic(err)
	}
	fset := token.NewFileSet()
	fset.AddFile("/w/a.go", -1, 1000)
	ctx := linter.NewContext(fset, types.SizesFor("gc", "amd64"))
	ctx.SetPackageInfo(&types.Info{}, nil)
	chk := gsxCheckerByName(ctx, gsxIRGroups[0].Name)
	f := &ast.File{Package: 1, Name: &ast.Ident{Name: "p", NamePos: 9}}
	ctx.SetFileInfo("a.go", f)
	ws := chk.Check(f)
	gsxrt.Reached("checked")
	reports := gsxRunReports
	gsxRunReports = nil
	gsxrt.Assert(len(ws) == n, "suggest: one diagnostic per report of the rule engine")
	if len(ws) != n {
		return
	}
	same := func(w linter.Warning, r ruleguard.ReportData) bool {
		if !gsxrt.And(w.Pos == r.Node.Pos(), w.Text == r.Message) {
			return false
		}
		if r.Suggestion == nil {
			return !w.HasQuickFix()
		}
		return gsxrt.And(w.HasQuickFix(), w.Suggestion.From == r.Suggestion.From, w.Suggestion.To == r.Suggestion.To,
			string(w.Suggestion.Replacement) == string(r.Suggestion.Replacement))
	}
	if n == 1 {
		gsxrt.Assert(same(ws[0], reports[0]), "suggest: a rule's report (position, message, suggestion) reaches the diagnostic unchanged")
		return
	}
	straight := same(ws[0], reports[0]) && same(ws[1], reports[1])
	swapped := same(ws[0], reports[1]) && same(ws[1], reports[0])
	gsxrt.Assert(straight || swapped, "suggest: the rule engine's reports (position, message, suggestion) reach the diagnostics unchanged")
}

// gsxC02RuleOrder: two runs of a rule-based checker over the same file, in
// which the rule engine reports the same things in the same order, yield the
// same diagnostic sequence - whatever order Go's maps iterate in. Reports may
// share their message text (a rule without interpolation firing twice).
func gsxC02RuleOrder() {
	same := gsxrt.Bool("same message")
	m0 := gsxrt.StringN("msg0", 3)
	m1 := m0
	if !same {
		m1 = gsxrt.StringN("msg1", 3)
	}
	p0 := token.Pos(gsxrt.IntRange("pos0", 1, 400))
	p1 := token.Pos(gsxrt.IntRange("pos1", 401, 900))
	gsxRunReports = []ruleguard.ReportData{
		{Node: &ast.Ident{Name: "x", NamePos: p0}, Message: m0},
		{Node: &ast.Ident{Name: "x", NamePos: p1}, Message: m1},
	}
	if err := InitEmbeddedRules(); err != nil {
		panic(err)
	}
	fset := token.NewFileSet()
	fset.AddFile("/w/a.go", -1, 1000)
	ctx := linter.NewContext(fset, types.SizesFor("gc", "amd64"))
	ctx.SetPackageInfo(&types.Info{}, nil)
	chk := gsxCheckerByName(ctx, gsxIRGroups[0].Name)
	f := &ast.File{Package: 1, Name: &ast.Ident{Name: "p", NamePos: 9}}
	ctx.SetFileInfo("a.go", f)
	first := append([]linter.Warning(nil), chk.Check(f)...)
	second := chk.Check(f)
	gsxRunReports = nil
	gsxrt.Reached("ran twice")
	gsxrt.Assert(len(first) == len(second), "repeat: two runs over the same file report a different number of diagnostics")
	if len(first) != len(second) {
		return
	}
	for i := range first {
		gsxrt.Assert(gsxrt.And(first[i].Pos == second[i].Pos, first[i].Text == second[i].Text), "repeat: two runs over the same file report the rule engine's findings in a different order")
	}
}

// gsxC09ParamCombine: the function type paramTypeCombine suggests denotes the same
// signature as the one it replaces - the same parameter names in the same order, each
// with the same type and the same variadic-ness. The parameter list is a typed template:
// 2-3 fields of 1-2 names, each field's type expression chosen among int, string, []int
// and (last field only) ...int, with the types go/types records for them (`...int` is
// recorded as []int).
func gsxC09ParamCombine() {
	info := gsxInfo("paramTypeCombine")
	fset := token.NewFileSet()
	fset.AddFile("f.go", -1, 1000)
	ctx := linter.NewContext(fset, types.SizesFor("gc", "amd64"))
	ctx.TypesInfo.Types = map[ast.Expr]types.TypeAndValue{}
	ctx.TypesInfo.Defs = map[*ast.Ident]types.Object{}
	ctx.TypesInfo.Uses = map[*ast.Ident]types.Object{}
	c, err := linter.NewChecker(ctx, info)
	if err != nil {
		panic(err)
	}
	tint := types.Typ[types.Int]
	pos := token.Pos(20)
	next := func() token.Pos { pos += 4; return pos }
	typed := func(e ast.Expr, t types.Type) ast.Expr {
		ctx.TypesInfo.Types[e] = types.TypeAndValue{Type: t}
		return e
	}
	mkType := func(kind int) ast.Expr {
		switch kind {
		case 0:
			return typed(&ast.Ident{Name: "int", NamePos: next()}, tint)
		case 1:
			return typed(&ast.Ident{Name: "string", NamePos: next()}, types.Typ[types.String])
		case 2:
			return typed(&ast.ArrayType{Lbrack: next(), Elt: typed(&ast.Ident{Name: "int", NamePos: next()}, tint)}, types.NewSlice(tint))
		default:
			return typed(&ast.Ellipsis{Ellipsis: next(), Elt: typed(&ast.Ident{Name: "int", NamePos: next()}, tint)}, types.NewSlice(tint))
		}
	}
	nfields := 2 + gsxrt.Choose("fields", 2)
	params := &ast.FieldList{Opening: next()}
	letter := 0
	for i := 0; i < nfields; i++ {
		p := "field" + string(rune('0'+i))
		kind := gsxrt.Choose(p+".type", 4)
		nn := 1 + gsxrt.Choose(p+".names", 2)
		gsxrt.Assume(kind != 3 || (i == nfields-1 && nn == 1))
		f := &ast.Field{}
		for k := 0; k < nn; k++ {
			f.Names = append(f.Names, &ast.Ident{Name: string(rune('a' + letter)), NamePos: next()})
			letter++
		}
		f.Type = mkType(kind)
		params.List = append(params.List, f)
	}
	params.Closing = next()
	decl := &ast.FuncDecl{Name: &ast.Ident{Name: "gsxF", NamePos: 10}, Type: &ast.FuncType{Func: 5, Params: params}, Body: &ast.BlockStmt{Lbrace: next(), Rbrace: next()}}
	v := gsxrt.Field(gsxrt.Field(c, "fileWalker"), "visitor").(interface{ VisitFuncDecl(*ast.FuncDecl) })
	v.VisitFuncDecl(decl)
	gsxrt.Reached("visited")
	args := gsxrt.LastWarnArgs()
	if len(args) != 2 {
		return
	}
	gsxrt.Reached("suggested")
	sugg, ok := args[1].(*ast.FuncType)
	if !ok {
		return
	}
	// flatten: one entry per parameter name: (name, kind of type expression)
	flat := func(fl *ast.FieldList) (names []string, kinds []int) {
		for _, f := range fl.List {
			k := 0
			switch t := f.Type.(type) {
			case *ast.Ident:
				if t.Name == "string" {
					k = 1
				}
			case *ast.ArrayType:
				k = 2
			case *ast.Ellipsis:
				k = 3
			}
			for _, n := range f.Names {
				names = append(names, n.Name)
				kinds = append(kinds, k)
			}
		}
		return
	}
	n1, k1 := flat(decl.Type.Params)
	n2, k2 := flat(sugg.Params)
	same := len(n1) == len(n2)
	if same {
		for i := range n1 {
			same = gsxrt.And(same, n1[i] == n2[i], k1[i] == k2[i])
		}
	}
	gsxrt.Assert(same, "suggest: the suggested function type is not the signature it replaces (a parameter changes its type or its variadic-ness)")
}
