package checkers

import (
	"go/ast"

	"github.com/go-critic/go-critic/gsxrt"
	"github.com/go-critic/go-critic/linter"
)

func gsxSameWarnings(a, b []linter.Warning, msg string) {
	gsxrt.Assert(len(a) == len(b), msg)
	if len(a) == len(b) {
		for i := range a {
			gsxrt.Assert(a[i].Pos == b[i].Pos, msg)
		}
	}
}

func gsxCopyWarnings(ws []linter.Warning) []linter.Warning {
	return append([]linter.Warning(nil), ws...)
}

// gsxFreshTwin builds a second, fresh context over the same type information
// and package, and a fresh instance of the same checker on it.
func gsxFreshTwin(name string, ctx *linter.Context) (*linter.Checker, *linter.Context) {
	ctx2 := linter.NewContext(ctx.FileSet, ctx.SizesInfo)
	ctx2.TypesInfo = ctx.TypesInfo
	ctx2.Pkg = ctx.Pkg
	ctx2.GoVersion = ctx.GoVersion
	c2, err := linter.NewChecker(ctx2, gsxInfo(name))
	if err != nil {
		gsxrt.Assume(false)
	}
	return c2, ctx2
}

// gsxHistVisit (C03): the diagnostics for an input do not depend on what the
// long-lived checker instance visited before: instance A visits an arbitrary
// other input y (one step of history from the initial state) and then x;
// a fresh instance B visits x only.
func gsxHistVisit(name string) {
	long, ctx := gsxNewChecker(name)
	fresh, _ := gsxFreshTwin(name, ctx)
	gsxFocus(long)
	x := gsxMakeInput(long)
	y := gsxMakeInputNamed(long, "y")
	gsxApply(long, y)
	before := len(gsxWarnings(long))
	gsxApply(long, x)
	gsxApply(fresh, x)
	gsxrt.Reached("compared")
	wl := gsxWarnings(long)[before:]
	gsxSameWarnings(gsxWarnings(fresh), wl, "history: the diagnostics of a visit depend on what the checker instance visited before")
}

// gsxHistWalk (C03): the same through the public protocol the CLI uses for a
// whole run: SetFileInfo + Check for file y, then for file x, against a fresh
// checker and context for x alone.
func gsxHistWalk(name string) {
	long, ctx := gsxNewChecker(name)
	fresh, ctx2 := gsxFreshTwin(name, ctx)
	gsxFocus(long)
	k := gsxrt.Bound("K", 2)
	var fx, fy *ast.File
	gsxrt.Lazy("file", k, &fx)
	gsxrt.Lazy("yfile", k, &fy)
	ctx.SetFileInfo("y.go", fy)
	long.Check(fy)
	ctx.SetFileInfo("x.go", fx)
	wl := gsxCopyWarnings(long.Check(fx))
	ctx2.SetFileInfo("x.go", fx)
	wf := gsxCopyWarnings(fresh.Check(fx))
	gsxrt.Reached("compared")
	gsxSameWarnings(wf, wl, "history: the diagnostics of a file depend on the files analysed before it")
}

// gsxLocal (C13): diagnostics are local to a declaration: checking the file
// [d1, d2] gives the diagnostics of [d1] followed by those of [d2].
func gsxLocal(name string) {
	c, ctx := gsxNewChecker(name)
	gsxFocus(c)
	k := gsxrt.Bound("K", 2)
	var d1, d2 *ast.FuncDecl
	gsxrt.Lazy("d1", k, &d1)
	gsxrt.Lazy("d2", k, &d2)
	// declaration order in the file follows source order
	gsxrt.Assume(d1.End() <= d2.Pos())
	pkgName := &ast.Ident{Name: "cand"}
	f1 := &ast.File{Name: pkgName, Decls: []ast.Decl{d1}}
	f2 := &ast.File{Name: pkgName, Decls: []ast.Decl{d2}}
	f12 := &ast.File{Name: pkgName, Decls: []ast.Decl{d1, d2}}
	// checkers that walk comments get one comment group inside each declaration
	switch gsxWalkerKind(c) {
	case gsxWalkPkg + "commentWalker", gsxWalkPkg + "localCommentWalker", gsxWalkPkg + "docCommentWalker":
		var c1, c2 *ast.CommentGroup
		gsxrt.Lazy("c1", k, &c1)
		gsxrt.Lazy("c2", k, &c2)
		gsxrt.Assume(d1.Pos() < c1.Pos() && c1.End() <= d1.End())
		gsxrt.Assume(d2.Pos() < c2.Pos() && c2.End() <= d2.End())
		f1.Comments = []*ast.CommentGroup{c1}
		f2.Comments = []*ast.CommentGroup{c2}
		f12.Comments = []*ast.CommentGroup{c1, c2}
	}
	ctx.SetFileInfo("x.go", f1)
	w1 := gsxCopyWarnings(c.Check(f1))
	ctx.SetFileInfo("x.go", f2)
	w2 := gsxCopyWarnings(c.Check(f2))
	ctx.SetFileInfo("x.go", f12)
	w12 := gsxCopyWarnings(c.Check(f12))
	gsxrt.Reached("compared")
	gsxSameWarnings(append(w1, w2...), w12, "local: the diagnostics of a file are not the concatenation of the diagnostics of its declarations")
}

// gsxRepeat (C02): two executions on the same input, each with its own
// (adversarial) map iteration order, produce the same diagnostics in the same order.
func gsxRepeat(name string) {
	c, ctx := gsxNewChecker(name)
	gsxFocus(c)
	k := gsxrt.Bound("K", 2)
	var f *ast.File
	gsxrt.Lazy("file", k, &f)
	ctx.SetFileInfo("x.go", f)
	w1 := gsxCopyWarnings(c.Check(f))
	ctx.SetFileInfo("x.go", f)
	w2 := gsxCopyWarnings(c.Check(f))
	gsxrt.Reached("compared")
	gsxSameWarnings(w1, w2, "repeat: two executions on the same input report different diagnostics or a different order")
}
