package checkers

import (
	"go/ast"
	"go/token"
	"go/types"

	"github.com/go-critic/go-critic/gsxrt"
	"github.com/go-critic/go-critic/linter"
	"github.com/quasilyte/go-ruleguard/ruleguard"
	"github.com/quasilyte/go-ruleguard/ruleguard/ir"
)

// environment model of the rule engine for the embedded rules
var (
	gsxIRGroups   []ruleguard.GoRuleGroup // what LoadedGroups reports after LoadFromIR
	gsxIRAccepted map[string]bool         // group name -> accepted by the GroupFilter of the latest LoadFromIR
	gsxIRFiltered bool
	gsxRunVersion ruleguard.GoVersion
	gsxRunSeen    bool
)

//gsx:stub (*github.com/quasilyte/go-ruleguard/ruleguard.Engine).LoadFromIR = gsxStubLoadFromIR
func gsxStubLoadFromIR(e *ruleguard.Engine, ctx *ruleguard.LoadContext, filename string, f *ir.File) error {
	gsxIRFiltered = ctx.GroupFilter != nil
	gsxIRAccepted = map[string]bool{}
	if ctx.GroupFilter != nil {
		only := ""
		n := 0
		for i := range gsxIRGroups {
			g := gsxIRGroups[i]
			gsxIRAccepted[g.Name] = ctx.GroupFilter(&g)
			if gsxIRAccepted[g.Name] {
				only = g.Name
				n++
			}
		}
		if n == 1 {
			gsxIRLoadsFor[only]++
		}
	}
	return nil
}

// the rule data built into the binary exists before any package is
// initialised; its model (two rule groups) therefore exists at package
// initialisation too. Harnesses that want other groups replace it.
var (
	gsxIRLoadsFor = map[string]int{} // group name -> engines loaded for exactly that group
	gsxWorld      = []string{"gsxworld0", "gsxworld1"}
)

func init() {
	for _, name := range gsxWorld {
		gsxIRGroups = append(gsxIRGroups, ruleguard.GoRuleGroup{Name: name, DocSummary: "s", DocBefore: "b", DocAfter: "a", DocTags: []string{"style"}})
	}
}

// a checker with an integer parameter that exists from process start (so that
// every front end binds a flag for it); its constructor records the value it was built with.
var gsxParamSeen = -1

func init() {
	info := &linter.CheckerInfo{Name: "gsxInitParam", Tags: []string{"style", "experimental"}, Summary: "gsx harness checker", Before: "x", After: "y",
		Params: linter.CheckerParams{"limit": {Value: 7, Usage: "harness parameter"}}}
	collection.AddChecker(info, func(ctx *linter.CheckerContext) (linter.FileWalker, error) {
		gsxParamSeen = info.Params.Int("limit")
		return gsxParamWalker{}, nil
	})
}

type gsxParamWalker struct{}

func (gsxParamWalker) WalkFile(*ast.File) {}

// GSXParamSeen returns the parameter value the harness checker was last built with (-1: never built).
func GSXParamSeen() int { return gsxParamSeen }

// GSXParamReset forgets earlier constructions.
func GSXParamReset() { gsxParamSeen = -1 }

// GSXWorld returns the names of the rule groups in the built-in rule data model.
func GSXWorld() []string { return gsxWorld }

// GSXResetLoads forgets which rule engines were created so far.
func GSXResetLoads() {
	for k := range gsxIRLoadsFor {
		delete(gsxIRLoadsFor, k)
	}
}

// GSXLoadsFor reports how many engines restricted to exactly the named group were loaded.
func GSXLoadsFor(name string) int { return gsxIRLoadsFor[name] }

//gsx:stub (*github.com/quasilyte/go-ruleguard/ruleguard.Engine).LoadedGroups = gsxStubLoadedGroups
func gsxStubLoadedGroups(e *ruleguard.Engine) []ruleguard.GoRuleGroup {
	return append([]ruleguard.GoRuleGroup(nil), gsxIRGroups...)
}

// gsxDocSnippet: documentation snippets quote Go code: for the first group's before/after
// text a few concrete texts with escapes, quotes and format verbs stand next to the
// solver-chosen ones.
func gsxDocSnippet(name string) string {
	if name == "g0.before" || name == "g0.after" {
		switch gsxrt.Choose(name+".menu", 3) {
		case 1:
			return `w.WriteRune('\n')`
		case 2:
			return "x\\ty %s"
		}
	}
	return gsxDocText(name)
}

func gsxDocText(name string) string {
	s := gsxrt.StringN(name, 3)
	gsxrt.Assume(gsxrt.Matches(`^[a-z]*$`, s))
	return s
}

func gsxMakeGroups() {
	n := gsxrt.Choose("groups", 2) + 1
	gsxIRGroups = nil
	for i := 0; i < n; i++ {
		p := "g" + gsxDigit(i)
		// names are concrete: registration sorts and looks up ~70 checker names
		name := "gsxrule" + gsxDigit(i)
		g := ruleguard.GoRuleGroup{Name: name, DocSummary: gsxDocText(p + ".summary"), DocBefore: gsxDocSnippet(p + ".before"),
			DocAfter: gsxDocSnippet(p + ".after"), DocNote: gsxDocText(p + ".note"), DocTags: []string{"style"}}
		if gsxrt.Choose(p+".experimental", 2) == 1 {
			g.DocTags = []string{"style", "experimental"}
		}
		gsxIRGroups = append(gsxIRGroups, g)
	}
}

// gsxC17Groups: every rule group becomes exactly one registered checker
// carrying the group's name, tags, summary, before/after and note, marked as
// embedded, whose engine is restricted to exactly that group.
func gsxC17Groups() {
	gsxMakeGroups()
	before := len(linter.GetCheckersInfo())
	if err := InitEmbeddedRules(); err != nil {
		panic(err)
	}
	gsxrt.Reached("initialised")
	infos := linter.GetCheckersInfo()
	gsxrt.Assert(len(infos) == before+len(gsxIRGroups), "groups: exactly one checker is registered per rule group")
	ctx := linter.NewContext(token.NewFileSet(), types.SizesFor("gc", "amd64"))
	for _, g := range gsxIRGroups {
		var info *linter.CheckerInfo
		for _, x := range infos {
			if x.Name == g.Name {
				info = x
			}
		}
		gsxrt.Assert(info != nil, "groups: a rule group has no checker of its name")
		if info == nil {
			continue
		}
		gsxrt.Assert(info.Summary == g.DocSummary && info.Before == g.DocBefore && info.After == g.DocAfter && info.Note == g.DocNote,
			"groups: a checker's summary/before/after/note differ from its rule group's")
		gsxrt.Assert(len(info.Tags) == len(g.DocTags) && info.Tags[0] == g.DocTags[0] && info.Tags[len(info.Tags)-1] == g.DocTags[len(g.DocTags)-1],
			"groups: a checker's tags differ from its rule group's")
		gsxrt.Assert(info.EmbeddedRuleguard, "groups: a rule-based checker is not marked as embedded")
		if _, err := linter.NewChecker(ctx, info); err != nil {
			panic(err)
		}
		gsxrt.Assert(gsxIRFiltered, "groups: a rule-based checker loads the rules without a group filter")
		for _, other := range gsxIRGroups {
			gsxrt.Assert(gsxIRAccepted[other.Name] == (other.Name == g.Name), "groups: a rule-based checker's engine is not restricted to its own group")
		}
	}
}

// gsxC15RunVersion: the configured Go version reaches the rule engine for
// embedded and for user rules (otherwise a rule's GoVersion() filter is void).
func gsxC15RunVersion() {
	gsxMakeGroups()
	if err := InitEmbeddedRules(); err != nil {
		panic(err)
	}
	ctx := linter.NewContext(token.NewFileSet(), types.SizesFor("gc", "amd64"))
	// the version in force when the checkers are created ...
	ctx.GoVersion = linter.GoVersion{Major: gsxrt.IntRange("major0", 0, 2), Minor: gsxrt.IntRange("minor0", 0, 40)}
	var info *linter.CheckerInfo
	for _, x := range linter.GetCheckersInfo() {
		if x.Name == gsxIRGroups[0].Name {
			info = x
		}
	}
	c, err := linter.NewChecker(ctx, info)
	if err != nil {
		panic(err)
	}
	// ... may be re-targeted by the integrating application before a run:
	// the version configured when the file is analysed is the one that counts
	ctx.GoVersion = linter.GoVersion{Major: gsxrt.IntRange("major", 0, 2), Minor: gsxrt.IntRange("minor", 0, 40)}
	f := &ast.File{Name: &ast.Ident{Name: "p"}, Package: 1}
	gsxRunSeen = false
	c.Check(f)
	gsxrt.Reached("embedded run")
	gsxrt.Assert(gsxRunSeen && gsxRunVersion.Major == ctx.GoVersion.Major && gsxRunVersion.Minor == ctx.GoVersion.Minor,
		"version: the embedded rule checker does not hand the configured Go version to the rule engine")

	// the dynamic (user rules) checker
	env := gsxC18Env0()
	env.globNames["r.go"] = []string{"r.go"}
	ctx.GoVersion = linter.GoVersion{Major: gsxrt.IntRange("major0", 0, 2), Minor: gsxrt.IntRange("minor0", 0, 40)}
	rc, err := newRuleguardChecker(gsxC18Info("r.go", "", false, "<all>", ""), &linter.CheckerContext{Context: ctx})
	if err != nil || rc == nil {
		panic("ruleguard checker not constructed")
	}
	ctx.GoVersion = linter.GoVersion{Major: gsxrt.IntRange("major", 0, 2), Minor: gsxrt.IntRange("minor", 0, 40)}
	gsxRunSeen = false
	rc.WalkFile(f)
	gsxrt.Reached("dynamic run")
	gsxrt.Assert(gsxRunSeen && gsxRunVersion.Major == ctx.GoVersion.Major && gsxRunVersion.Minor == ctx.GoVersion.Minor,
		"version: the user-rules checker does not hand the configured Go version to the rule engine")
}

// gsxC03RuleRunContext: what a rule-backed checker tells the engine about the
// world (package, type information, sizes, file set, Go version) is the world of the
// file being analysed - also when the same long-lived checker analysed files of
// other packages before (0-2 earlier packages, each with its own package object,
// type information and configured version).
func gsxC03RuleRunContext() {
	gsxMakeGroups()
	if err := InitEmbeddedRules(); err != nil {
		panic(err)
	}
	ctx := linter.NewContext(token.NewFileSet(), types.SizesFor("gc", "amd64"))
	var info *linter.CheckerInfo
	for _, x := range linter.GetCheckersInfo() {
		if x.Name == gsxIRGroups[0].Name {
			info = x
		}
	}
	embedded, err := linter.NewChecker(ctx, info)
	if err != nil {
		panic(err)
	}
	env := gsxC18Env0()
	env.globNames["r.go"] = []string{"r.go"}
	dynamic, err := newRuleguardChecker(gsxC18Info("r.go", "", false, "<all>", ""), &linter.CheckerContext{Context: ctx})
	if err != nil || dynamic == nil {
		panic("ruleguard checker not constructed")
	}
	useDynamic := gsxrt.Choose("checker", 2) == 1
	history := gsxrt.Choose("earlier packages", 3)
	for k := 0; k <= history; k++ {
		pkg := types.NewPackage("p"+string(rune('0'+k)), "p")
		ctx.SetPackageInfo(&types.Info{Types: map[ast.Expr]types.TypeAndValue{}}, pkg)
		ctx.GoVersion = linter.GoVersion{Major: 1, Minor: gsxrt.IntRange("minor"+string(rune('0'+k)), 0, 40)}
		f := &ast.File{Name: &ast.Ident{Name: "p"}, Package: 1}
		ctx.SetFileInfo("f.go", f)
		gsxRunSeen = false
		if useDynamic {
			dynamic.WalkFile(f)
		} else {
			embedded.Check(f)
		}
		gsxrt.Assert(gsxRunSeen, "history: the rule engine was not run on a file")
		if k == history {
			gsxrt.Reached("last file")
			seen := gsxRunCtxSeen
			gsxrt.Assert(seen.Pkg == ctx.Pkg, "history: a rule-backed checker hands the engine the package of an earlier file")
			gsxrt.Assert(seen.Types == ctx.TypesInfo && seen.Sizes == ctx.SizesInfo && seen.Fset == ctx.FileSet, "history: a rule-backed checker hands the engine stale type information")
			gsxrt.Assert(seen.GoVersion.Major == ctx.GoVersion.Major && seen.GoVersion.Minor == ctx.GoVersion.Minor, "history: a rule-backed checker hands the engine the Go version of an earlier file")
		}
	}
}
