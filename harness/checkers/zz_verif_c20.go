package checkers

import (
	"go/ast"
	"go/token"
	"go/types"

	"github.com/go-critic/go-critic/gsxrt"
)

type gsxSubject struct {
	builtin string // the builtin function the checker is about, or
	pkg     string // the import path of the standard package it is about
	spelled string // how the callee / qualifier is spelled
}

var gsxSubjects = map[string]gsxSubject{
	"appendAssign":   {builtin: "append", spelled: "append"},
	"appendCombine":  {builtin: "append", spelled: "append"},
	"newDeref":       {builtin: "new", spelled: "new"},
	"rangeAppendAll": {builtin: "append", spelled: "append"},
	"badRegexp":      {pkg: "regexp", spelled: "regexp"},
	"regexpPattern":  {pkg: "regexp", spelled: "regexp"},
	"regexpSimplify": {pkg: "regexp", spelled: "regexp"},
	"sortSlice":      {pkg: "sort", spelled: "sort"},
	"filepathJoin":   {pkg: "path/filepath", spelled: "filepath"},
	"flagName":       {pkg: "flag", spelled: "flag"},
}

// gsxCallees returns the identifiers spelled like the checker's subject at
// the places the checker looks at (callee of a call / qualifier of a selector call).
func gsxCallees(in *gsxInput, sub gsxSubject) []*ast.Ident {
	var out []*ast.Ident
	fromCall := func(e ast.Expr) {
		call, ok := e.(*ast.CallExpr)
		if !ok {
			return
		}
		switch f := call.Fun.(type) {
		case *ast.Ident:
			if sub.builtin != "" && f.Name == sub.spelled {
				out = append(out, f)
			}
		case *ast.SelectorExpr:
			if id, ok := f.X.(*ast.Ident); ok && sub.pkg != "" && id.Name == sub.spelled {
				out = append(out, id)
			}
		}
	}
	var fromStmt func(s ast.Stmt)
	fromStmt = func(s ast.Stmt) {
		switch s := s.(type) {
		case *ast.AssignStmt:
			for _, r := range s.Rhs {
				fromCall(r)
			}
		case *ast.ExprStmt:
			fromCall(s.X)
		case *ast.RangeStmt:
			if s.Body != nil {
				for _, b := range s.Body.List {
					fromStmt(b)
				}
			}
		}
	}
	switch {
	case in.expr != nil:
		fromCall(in.expr)
		if st, ok := in.expr.(*ast.StarExpr); ok {
			fromCall(st.X)
		}
	case in.stmt != nil:
		fromStmt(in.stmt)
	case in.blk != nil:
		for _, s := range in.blk.List {
			fromStmt(s)
		}
	}
	return out
}

// gsxAPI (C20): when a checker whose subject is a builtin or a standard
// package reports, the identifier it matched by spelling resolves to that
// very builtin / package - not to a user declaration of the same name.
func gsxAPI(name string) {
	sub, ok := gsxSubjects[name]
	if !ok {
		return
	}
	c, ctx := gsxNewChecker(name)
	gsxFocus(c)
	in := gsxMakeInput(c)
	gsxApply(c, in)
	if len(gsxWarnings(c)) == 0 {
		return
	}
	gsxrt.Reached("reported")
	ids := gsxCallees(in, sub)
	if len(ids) == 0 {
		return
	}
	for _, id := range ids {
		// what go/types resolves the identifier to (an identifier is a use or a definition, never both)
		obj := ctx.TypesInfo.ObjectOf(id)
		gsxrt.Assume(obj != nil) // go/types records every identifier
		gsxrt.Reached("resolved")
		if sub.builtin != "" {
			b, isBuiltin := obj.(*types.Builtin)
			gsxrt.Assert(isBuiltin && b.Name() == sub.builtin, "api: a diagnostic about a builtin is issued for a user declaration that merely shares its name")
		} else {
			p, isPkg := obj.(*types.PkgName)
			gsxrt.Assert(isPkg && p.Imported().Path() == sub.pkg, "api: a diagnostic about a standard package is issued for a user declaration that merely shares its name")
		}
	}
}

// gsxC20ExitAfterDefer: exitAfterDefer's "X will exit" is about log.Fatal*,
// and os.Exit of the standard library: when it reports for `Q.F(...)` after a
// defer, Q resolves to the imported package log / os - not to a variable,
// field or user package that merely has that name.
func gsxC20ExitAfterDefer() {
	c, ctx := gsxNewChecker("exitAfterDefer")
	info := ctx.TypesInfo
	info.Types = map[ast.Expr]types.TypeAndValue{}
	info.Uses = map[*ast.Ident]types.Object{}
	info.Defs = map[*ast.Ident]types.Object{}
	names := []struct{ q, f, path string }{{"log", "Fatal", "log"}, {"log", "Fatalf", "log"}, {"log", "Fatalln", "log"}, {"os", "Exit", "os"}}
	pick := names[gsxrt.Choose("callee", len(names))]
	q := &ast.Ident{Name: pick.q, NamePos: 60}
	kind := gsxrt.Choose("qualifier is", 4)
	var qual ast.Expr = q
	switch kind {
	case 3: // a field of that name: a.log.Fatal(...), the qualifier is not an identifier at all
		recv := &ast.Ident{Name: "a", NamePos: 58}
		holder := types.NewVar(0, nil, "a", types.NewNamed(types.NewTypeName(0, nil, "app", nil), types.NewStruct(nil, nil), nil))
		info.Uses[recv] = holder
		q.NamePos = 60
		sel := &ast.SelectorExpr{X: recv, Sel: q}
		info.Types[sel] = types.TypeAndValue{Type: types.NewNamed(types.NewTypeName(0, nil, "logger", nil), types.NewStruct(nil, nil), nil)}
		qual = sel
	}
	switch kind {
	case 0: // the standard package
		info.Uses[q] = types.NewPkgName(0, nil, pick.q, types.NewPackage(pick.path, pick.q))
	case 1: // another package imported under that name
		info.Uses[q] = types.NewPkgName(0, nil, pick.q, types.NewPackage("example.com/my/"+pick.q, pick.q))
	default: // a local variable with such a method
		info.Uses[q] = types.NewVar(0, nil, pick.q, types.NewNamed(types.NewTypeName(0, nil, "logger", nil), types.NewStruct(nil, nil), nil))
	}
	call := &ast.CallExpr{Fun: &ast.SelectorExpr{X: qual, Sel: &ast.Ident{Name: pick.f, NamePos: 64}}, Lparen: 70, Rparen: 72}
	deferred := &ast.DeferStmt{Defer: 40, Call: &ast.CallExpr{Fun: &ast.Ident{Name: "println", NamePos: 46}, Lparen: 53, Rparen: 54}}
	fn := &ast.FuncDecl{Name: &ast.Ident{Name: "f", NamePos: 25}, Type: &ast.FuncType{Func: 20, Params: &ast.FieldList{Opening: 26, Closing: 27}},
		Body: &ast.BlockStmt{Lbrace: 30, List: []ast.Stmt{deferred, &ast.ExprStmt{X: call}}, Rbrace: 80}}
	// the file around it: it may or may not import log and os (a checker that looks the
	// packages up per file gets its EnterFile step first, as the walkers do)
	file := &ast.File{Package: 1, Name: &ast.Ident{Name: "p", NamePos: 9}, Decls: []ast.Decl{fn}}
	info.Implicits = map[ast.Node]types.Object{}
	for i, p := range []string{"log", "os"} {
		imported := gsxrt.Choose("file imports "+p, 2) == 1
		if kind == 0 && p == pick.path {
			imported = true
			gsxrt.Assume(gsxrt.Choose("file imports "+p, 2) == 1)
		}
		if imported {
			spec := &ast.ImportSpec{Path: &ast.BasicLit{Kind: token.STRING, Value: `"` + p + `"`, ValuePos: token.Pos(12 + 3*i)}}
			file.Imports = append(file.Imports, spec)
			obj := types.NewPkgName(spec.Path.ValuePos, nil, p, types.NewPackage(p, p))
			if kind == 0 && p == pick.path {
				obj = info.Uses[q].(*types.PkgName)
			}
			info.Implicits[spec] = obj
		}
	}
	visitor := gsxrt.Field(gsxrt.Field(c, "fileWalker"), "visitor")
	if ef, ok := visitor.(interface{ EnterFile(*ast.File) bool }); ok {
		ef.EnterFile(file)
	}
	v := visitor.(interface{ VisitFuncDecl(*ast.FuncDecl) })
	v.VisitFuncDecl(fn)
	gsxrt.Reached("visited")
	if len(gsxWarnings(c)) == 0 {
		return
	}
	gsxrt.Reached("reported")
	gsxrt.Assert(kind == 0, "api: a diagnostic about a standard package is issued for a user declaration that merely shares its name")
}

// gsxC20RangeAppendAll: rangeAppendAll's "append all data while range it" is
// about the builtin append: when it reports for `out = A(out, xs...)` inside
// `for range xs`, A resolves to the predeclared append.
func gsxC20RangeAppendAll() {
	c, ctx := gsxNewChecker("rangeAppendAll")
	info := ctx.TypesInfo
	info.Types = map[ast.Expr]types.TypeAndValue{}
	info.Uses = map[*ast.Ident]types.Object{}
	info.Defs = map[*ast.Ident]types.Object{}
	ints := types.NewSlice(types.Typ[types.Int])
	xsObj := types.NewVar(0, nil, "xs", ints)
	outObj := types.NewVar(0, nil, "out", ints)
	use := func(name string, obj types.Object, pos int) *ast.Ident {
		id := &ast.Ident{Name: name, NamePos: token.Pos(pos)}
		info.Uses[id] = obj
		info.Types[id] = types.TypeAndValue{Type: ints}
		return id
	}
	callee := &ast.Ident{Name: "append", NamePos: 50}
	user := gsxrt.Bool("append is a user function")
	if user {
		info.Uses[callee] = types.NewFunc(0, nil, "append", types.NewSignatureType(nil, nil, nil, types.NewTuple(types.NewVar(0, nil, "a", ints), types.NewVar(0, nil, "b", ints)), types.NewTuple(types.NewVar(0, nil, "", ints)), true))
	} else {
		info.Uses[callee] = types.Universe.Lookup("append")
	}
	call := &ast.CallExpr{Fun: callee, Lparen: 56, Args: []ast.Expr{use("out", outObj, 57), use("xs", xsObj, 62)}, Ellipsis: 64, Rparen: 67}
	assign := &ast.AssignStmt{Lhs: []ast.Expr{use("out", outObj, 44)}, TokPos: 48, Tok: token.ASSIGN, Rhs: []ast.Expr{call}}
	stmt := &ast.RangeStmt{For: 30, Tok: token.ILLEGAL, X: use("xs", xsObj, 40), Body: &ast.BlockStmt{Lbrace: 43, List: []ast.Stmt{assign}, Rbrace: 70}}
	v := gsxrt.Field(gsxrt.Field(c, "fileWalker"), "visitor").(interface{ VisitStmt(ast.Stmt) })
	v.VisitStmt(stmt)
	gsxrt.Reached("visited")
	if len(gsxWarnings(c)) == 0 {
		return
	}
	gsxrt.Reached("reported")
	gsxrt.Assert(!user, "api: a diagnostic about a builtin is issued for a user declaration that merely shares its name")
}
