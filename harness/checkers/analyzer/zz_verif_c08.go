package analyzer

import (
	"go/ast"
	"go/token"
	"go/types"

	"github.com/go-critic/go-critic/gsxrt"
	"github.com/go-critic/go-critic/linter"
	"golang.org/x/tools/go/analysis"
)

type gsxFwdWalker struct{ ctx *linter.CheckerContext }

var gsxFwdPlan []linter.Warning

func (w *gsxFwdWalker) WalkFile(f *ast.File) {
	for _, p := range gsxFwdPlan {
		if p.Suggestion.Replacement != nil {
			w.ctx.WarnFixableWithPos(p.Pos, p.Suggestion, "%s", p.Text)
		} else {
			w.ctx.WarnWithPos(p.Pos, "%s", p.Text)
		}
	}
}

var gsxFwdInfo *linter.CheckerInfo

func gsxRegisterFwd() *linter.CheckerInfo {
	if gsxFwdInfo != nil {
		return gsxFwdInfo
	}
	info := &linter.CheckerInfo{Name: "gsxFwd", Tags: []string{"style"}, Summary: "gsx harness checker", Before: "x", After: "y"}
	gsxColl.AddChecker(info, func(ctx *linter.CheckerContext) (linter.FileWalker, error) {
		return &gsxFwdWalker{ctx: ctx}, nil
	})
	gsxFwdInfo = info
	return info
}

// gsxC08Forward: every warning a checker returns for a file of the pass is
// reported exactly once, in order, at the warning's position, as
// "<checker>: <text>" (the line the CLI prints after the location), and its
// quick fix is forwarded unchanged as the only suggested edit; a warning
// without a quick fix carries no suggested fix.
func gsxC08Forward() {
	globalGocritic = nil
	globalInitErrorReported = false
	DisableCache = gsxrt.Bool("disableCache")
	registeredCheckers = []*linter.CheckerInfo{gsxRegisterFwd()}
	flagGoVersion = ""
	flagEnable = "gsxFwd"
	flagDisable = ""
	flagEnableAll = false
	flagDebugInit = false

	n := gsxrt.Choose("warnings", 3)
	gsxFwdPlan = nil
	for i := 0; i < n; i++ {
		p := "w" + gsxItoa(i)
		w := linter.Warning{Pos: token.Pos(gsxrt.IntRange(p+".pos", 1, 900)), Text: gsxrt.StringN(p+".text", 6)}
		switch gsxrt.Choose(p+".fix", 3) {
		case 1:
			w.Suggestion = linter.QuickFix{From: token.Pos(gsxrt.IntRange(p+".from", 1, 900)), To: token.Pos(gsxrt.IntRange(p+".to", 1, 900)),
				Replacement: []byte(gsxrt.StringN(p+".repl", 4))}
		case 2:
			// a fix that deletes its range: empty, non-nil replacement
			w.Suggestion = linter.QuickFix{From: token.Pos(gsxrt.IntRange(p+".from", 1, 900)), To: token.Pos(gsxrt.IntRange(p+".to", 1, 900)),
				Replacement: []byte{}}
		}
		gsxFwdPlan = append(gsxFwdPlan, w)
	}

	fset := token.NewFileSet()
	nfiles := gsxrt.Choose("files", 2) + 1
	var files []*ast.File
	for i := 0; i < nfiles; i++ {
		tf := fset.AddFile("/w/f"+gsxItoa(i)+".go", -1, 400)
		files = append(files, &ast.File{Package: tf.Pos(0), Name: &ast.Ident{Name: "p", NamePos: tf.Pos(8)}})
	}
	var diags []analysis.Diagnostic
	pass := &analysis.Pass{
		Analyzer:   Analyzer,
		Fset:       fset,
		Files:      files,
		TypesInfo:  &types.Info{},
		TypesSizes: types.SizesFor("gc", "amd64"),
		Report:     func(d analysis.Diagnostic) { diags = append(diags, d) },
	}
	_, err := runAnalyzer(pass)
	gsxrt.Reached("pass returned")
	gsxrt.Assert(err == nil, "forward: a valid configuration analyses the package")
	gsxrt.Assert(len(diags) == nfiles*n, "forward: every warning of every file is reported exactly once")
	if len(diags) != nfiles*n {
		return
	}
	for i, d := range diags {
		w := gsxFwdPlan[i%n]
		gsxrt.Assert(d.Pos == w.Pos, "forward: a diagnostic is reported at the warning's position")
		gsxrt.Assert(d.Message == "gsxFwd: "+w.Text, "forward: the message is '<checker>: <text>' as the CLI prints it")
		if w.Suggestion.Replacement == nil {
			gsxrt.Assert(len(d.SuggestedFixes) == 0, "forward: a warning without a quick fix carries no suggested fix")
			continue
		}
		gsxrt.Reached("fix forwarded")
		ok := len(d.SuggestedFixes) == 1 && len(d.SuggestedFixes[0].TextEdits) == 1
		gsxrt.Assert(ok, "forward: a quick fix becomes exactly one suggested fix with one edit")
		if ok {
			e := d.SuggestedFixes[0].TextEdits[0]
			gsxrt.Assert(e.Pos == w.Suggestion.From && e.End == w.Suggestion.To, "forward: the edit range is the quick fix's range")
			gsxrt.Assert(string(e.NewText) == string(w.Suggestion.Replacement), "forward: the edit text is the quick fix's replacement")
		}
	}
}
