package analyzer

import (
	"go/token"
	"go/types"
	"sync"

	"github.com/go-critic/go-critic/linter"
	"golang.org/x/tools/go/analysis"
)

// gsxC04Native: native replay for C04 - concurrent analyzer passes sharing
// the cached configuration; run under the race detector.
func gsxC04Native() {
	for round := 0; round < 20; round++ {
		globalGocriticMu.Lock()
		globalGocritic = nil
		globalInitErrorReported = false
		globalGocriticMu.Unlock()
		registeredCheckers = []*linter.CheckerInfo{gsxRegisterQuiet("gsxQ")}
		flagGoVersion, flagEnable, flagDisable, flagEnableAll, flagDebugInit = "", "#style", "", false, false
		var wg sync.WaitGroup
		for k := 0; k < 4; k++ {
			wg.Add(1)
			go func() {
				defer wg.Done()
				pass := &analysis.Pass{Analyzer: Analyzer, Fset: token.NewFileSet(), TypesInfo: &types.Info{}, TypesSizes: types.SizesFor("gc", "amd64"),
					Report: func(analysis.Diagnostic) {}}
				runAnalyzer(pass)
			}()
		}
		wg.Wait()
	}
}

// gsxRegisterQuiet registers a harness checker whose constructor touches no
// shared harness state (the replay must not introduce races of its own).
func gsxRegisterQuiet(name string) *linter.CheckerInfo {
	if info, ok := gsxRegistered[name]; ok {
		return info
	}
	info := &linter.CheckerInfo{Name: name, Tags: []string{"style"}, Summary: "gsx harness checker", Before: "x", After: "y"}
	gsxColl.AddChecker(info, func(ctx *linter.CheckerContext) (linter.FileWalker, error) { return gsxNopWalker{}, nil })
	gsxRegistered[name] = info
	return info
}
