package analyzer

import (
	"go/ast"
	"go/parser"
	"go/token"
	"go/types"
	"sync"

	"github.com/go-critic/go-critic/linter"
	"golang.org/x/tools/go/analysis"
)

// gsxC04Native: native replay for C04 - concurrent analyzer passes sharing
// the cached configuration; run under the race detector.
func gsxC04Native() {
	for round := 0; round < 20; round++ {
		globalGocriticMu.Lock()
		globalGocritic = nil
		globalInitErrorReported = false
		globalGocriticMu.Unlock()
		registeredCheckers = []*linter.CheckerInfo{gsxRegisterQuiet("gsxQ")}
		flagGoVersion, flagEnable, flagDisable, flagEnableAll, flagDebugInit = "", "#style", "", false, false
		var wg sync.WaitGroup
		// as under a real driver: one file set for all passes, one package (one file) per pass
		fset := token.NewFileSet()
		for k := 0; k < 4; k++ {
			f, err := parser.ParseFile(fset, "/w/p"+string(rune('0'+k))+"/a.go", "package p\n\nfunc f() {}\n", parser.ParseComments)
			if err != nil {
				panic(err)
			}
			pkg := types.NewPackage("p"+string(rune('0'+k)), "p")
			wg.Add(1)
			go func() {
				defer wg.Done()
				pass := &analysis.Pass{Analyzer: Analyzer, Fset: fset, Files: []*ast.File{f}, Pkg: pkg, TypesInfo: &types.Info{}, TypesSizes: types.SizesFor("gc", "amd64"),
					Report: func(analysis.Diagnostic) {}}
				runAnalyzer(pass)
			}()
		}
		wg.Wait()
	}
}

// gsxRegisterQuiet registers a harness checker whose constructor touches no
// shared harness state (the replay must not introduce races of its own).
func gsxRegisterQuiet(name string) *linter.CheckerInfo {
	if info, ok := gsxRegistered[name]; ok {
		return info
	}
	info := &linter.CheckerInfo{Name: name, Tags: []string{"style"}, Summary: "gsx harness checker", Before: "x", After: "y"}
	gsxColl.AddChecker(info, func(ctx *linter.CheckerContext) (linter.FileWalker, error) { return gsxNopWalker{}, nil })
	gsxRegistered[name] = info
	return info
}
