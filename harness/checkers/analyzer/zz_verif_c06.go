package analyzer

import (
	"github.com/go-critic/go-critic/gsxrt"
	"github.com/go-critic/go-critic/linter"
)

func gsxItoa(i int) string { return string(rune('0' + i)) }

func gsxTags(prefix string, max int) []string { return gsxTagsN(prefix, max, 3) }

func gsxTagsN(prefix string, max, strlen int) []string {
	n := gsxrt.Choose(prefix+".ntags", max+1)
	tags := make([]string, n)
	for i := range tags {
		tags[i] = gsxrt.StringN(prefix+".tag"+gsxItoa(i), strlen)
		gsxrt.Assume(gsxrt.Matches(`^[a-z]+$`, tags[i]))
		for j := 0; j < i; j++ {
			gsxrt.Assume(tags[i] != tags[j])
		}
	}
	return tags
}

func gsxKeys(prefix string, max int) []string {
	n := gsxrt.Choose(prefix+".len", 2) * max
	keys := make([]string, n)
	for i := range keys {
		keys[i] = gsxrt.StringN(prefix+gsxItoa(i), 5)
		// the flag value is split at commas and each key is trimmed: keys
		// expressible in both flag dialects contain neither
		gsxrt.Assume(!gsxrt.Matches(`[, \t\r\n\v\f]`, keys[i]))
	}
	return keys
}

func gsxJoin(keys []string) string {
	s := ""
	for i, k := range keys {
		if i > 0 {
			s += ","
		}
		s += k
	}
	return s
}

func gsxSelected(name string, tags, enable, disable []string, enableAll bool) bool {
	inNames := func(keys []string) bool {
		r := false
		for _, k := range keys {
			r = gsxrt.Or(r, k == name)
		}
		return r
	}
	inTags := func(keys []string) bool {
		r := false
		for _, k := range keys {
			for _, t := range tags {
				r = gsxrt.Or(r, k == "#"+t)
			}
		}
		return r
	}
	enabled := gsxrt.Or(enableAll, inNames(enable), inTags(enable))
	return gsxrt.And(enabled, !inNames(disable), !inTags(disable))
}

func gsxHas(list []*linter.CheckerInfo, info *linter.CheckerInfo) bool {
	for _, x := range list {
		if x == info {
			return true
		}
	}
	return false
}

// gsxC06Filter: the analyzer's copy of the selection rule agrees with the
// documented algebra (keys without commas and whitespace: expressible in both dialects).
func gsxC06Filter() {
	tagsA := gsxTags("A", 2)
	infoA := &linter.CheckerInfo{Name: "gsxA", Tags: tagsA}
	infoB := &linter.CheckerInfo{Name: "gsxB", Tags: []string{"style"}}
	nkeys := gsxrt.Bound("keys", 1)
	enable := gsxKeys("enable", nkeys)
	disable := gsxKeys("disable", nkeys)
	flagEnable = gsxJoin(enable)
	flagDisable = gsxJoin(disable)
	flagEnableAll = gsxrt.Bool("enableAll")
	flagDebugInit = false
	got := filterCheckersList([]*linter.CheckerInfo{infoA, infoB})
	gsxrt.Reached("filtered")
	wantA := gsxSelected("gsxA", tagsA, enable, disable, flagEnableAll)
	wantB := gsxSelected("gsxB", infoB.Tags, enable, disable, flagEnableAll)
	gsxrt.Assert(gsxHas(got, infoA) == wantA, "analyzer selects checker A iff the enable/disable/tag algebra does")
	gsxrt.Assert(gsxHas(got, infoB) == wantB, "analyzer selects checker B iff the enable/disable/tag algebra does")
}

// gsxC06EmptySelection: an empty selection is an error in the analyzer too.
func gsxC06EmptySelection() {
	infoA := &linter.CheckerInfo{Name: "gsxA", Tags: gsxTags("A", 1)}
	registeredCheckers = []*linter.CheckerInfo{infoA}
	enable := gsxKeys("enable", 1)
	disable := gsxKeys("disable", 1)
	flagEnable = gsxJoin(enable)
	flagDisable = gsxJoin(disable)
	flagEnableAll = gsxrt.Bool("enableAll")
	flagGoVersion = ""
	flagDebugInit = false
	critic, err := newGocritic()
	gsxrt.Reached("newGocritic returned")
	want := gsxSelected("gsxA", infoA.Tags, enable, disable, flagEnableAll)
	if want {
		gsxrt.Reached("selected")
		gsxrt.Assert(err == nil && critic != nil && len(critic.infoList) == 1, "a selected checker is kept")
	} else {
		gsxrt.Reached("empty selection")
		gsxrt.Assert(err != nil, "an empty selection is an error (analyzer)")
	}
}

// gsxC06Defaults: with no flags the analyzer runs exactly the checkers
// without the experimental, opinionated, performance or security tag - for
// every tag set allowed by the repository's own TestTags invariant (exactly
// one of diagnostic/style/performance, optionally experimental/opinionated).
func gsxC06Defaults() {
	tagsA := gsxTagsN("A", 3, 12)
	cats := 0
	for _, t := range tagsA {
		gsxrt.Assume(gsxrt.Matches(`^(diagnostic|style|performance|experimental|opinionated|security)$`, t))
		cats += gsxrt.Count(t == "diagnostic", t == "style", t == "performance")
	}
	gsxrt.Assume(cats == 1)
	infoA := &linter.CheckerInfo{Name: "gsxA", Tags: tagsA}
	// flag defaults as declared in analyzer.go's init (read from the real flag set)
	flagEnable = Analyzer.Flags.Lookup("enable").DefValue
	flagDisable = Analyzer.Flags.Lookup("disable").DefValue
	flagEnableAll = false
	flagDebugInit = false
	got := filterCheckersList([]*linter.CheckerInfo{infoA})
	gsxrt.Reached("defaults")
	heavy, security := false, false
	for _, t := range tagsA {
		heavy = gsxrt.Or(heavy, t == "experimental", t == "opinionated", t == "performance")
		security = gsxrt.Or(security, t == "security")
	}
	if security && !heavy {
		gsxrt.Reached("security tag")
		gsxrt.Assert(!gsxHas(got, infoA), "a checker tagged security runs by default under the analyzer (the command leaves it out)")
		return
	}
	gsxrt.Assert(gsxHas(got, infoA) == !heavy, "analyzer default selection = no experimental/opinionated/performance/security tag")
}
