package analyzer

import (
	"go/token"
	"go/types"

	"github.com/go-critic/go-critic/checkers"
	"github.com/go-critic/go-critic/gsxrt"
	"github.com/go-critic/go-critic/linter"
	"golang.org/x/tools/go/analysis"
)

// gsxC14AnalyzerParam: a parameter value given through the analyzer's flag is the value
// the checker is built with - in every pass of a process that re-creates its checkers
// (two passes with independent, solver-chosen flag values; the harness checker's
// constructor records what it read).
func gsxC14AnalyzerParam() {
	var info *linter.CheckerInfo
	for _, x := range registeredCheckers {
		if x.Name == "gsxInitParam" {
			info = x
		}
	}
	if info == nil {
		panic("gsx: harness checker not registered")
	}
	cell := intParams[checkerParamName(info, "limit")]
	if cell == nil {
		panic("gsx: no flag for the harness checker's parameter")
	}
	registeredCheckers = []*linter.CheckerInfo{info}
	globalGocritic = nil
	globalInitErrorReported = false
	DisableCache = true
	flagGoVersion = ""
	flagEnable = "gsxInitParam"
	flagDisable = ""
	flagEnableAll = false
	flagDebugInit = false
	fset := token.NewFileSet()
	for i, name := range []string{"flag in pass 1", "flag in pass 2"} {
		v := gsxrt.IntRange(name, 0, 1<<20)
		*cell = v
		checkers.GSXParamReset()
		pass := &analysis.Pass{Analyzer: Analyzer, Fset: fset, TypesInfo: &types.Info{}, TypesSizes: types.SizesFor("gc", "amd64"), Report: func(analysis.Diagnostic) {}}
		_, err := runAnalyzer(pass)
		gsxrt.Assert(err == nil, "a valid configuration analyses every package")
		if i == 1 {
			gsxrt.Reached("second pass")
		}
		gsxrt.Assert(checkers.GSXParamSeen() == v, "the checker is built with the parameter value given through the analyzer flag")
	}
	DisableCache = false
}
