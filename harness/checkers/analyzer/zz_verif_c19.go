package analyzer

import (
	"go/ast"
	"go/token"
	"go/types"

	"github.com/go-critic/go-critic/gsxrt"
	"github.com/go-critic/go-critic/linter"
	"golang.org/x/tools/go/analysis"
)

type gsxNopWalker struct{}

func (gsxNopWalker) WalkFile(*ast.File) {}

type gsxErr string

func (e gsxErr) Error() string { return string(e) }

var (
	gsxRegistered = map[string]*linter.CheckerInfo{}
	gsxCtorCalls  int
	gsxCtorFails  bool
	gsxColl       = &linter.CheckerCollection{URL: "gsx"}
)

func gsxRegister(name string) *linter.CheckerInfo {
	if info, ok := gsxRegistered[name]; ok {
		return info
	}
	info := &linter.CheckerInfo{Name: name, Tags: []string{"style"}, Summary: "gsx harness checker", Before: "x", After: "y"}
	gsxColl.AddChecker(info, func(ctx *linter.CheckerContext) (linter.FileWalker, error) {
		gsxCtorCalls++
		if gsxCtorFails {
			return nil, gsxErr("ctor failure")
		}
		return gsxNopWalker{}, nil
	})
	gsxRegistered[name] = info
	return info
}

// gsxC19AnalyzerPasses: the analyzer is entered once per package. With an
// invalid configuration the first pass returns an initialisation error, and
// every later pass neither panics nor analyses anything; with a valid
// configuration every pass succeeds - for any number of packages (3 here:
// first entry, re-entry after the latch was set, one more).
func gsxC19AnalyzerPasses() {
	globalGocritic = nil
	globalInitErrorReported = false
	DisableCache = false
	gsxCtorCalls = 0
	gsxCtorFails = gsxrt.Bool("ctor.fails")
	registeredCheckers = []*linter.CheckerInfo{gsxRegister("gsxA")}
	flagGoVersion = gsxrt.StringN("go", 5)
	flagEnable = "#style"
	flagDisable = ""
	flagEnableAll = false
	flagDebugInit = false

	_, cfgErr := linter.ParseGoVersion(flagGoVersion)
	reports := 0
	fset := token.NewFileSet()
	for i := 0; i < 3; i++ {
		pass := &analysis.Pass{
			Analyzer:   Analyzer,
			Fset:       fset,
			Files:      nil,
			TypesInfo:  &types.Info{},
			TypesSizes: types.SizesFor("gc", "amd64"),
			Report:     func(analysis.Diagnostic) { reports++ },
		}
		before := gsxCtorCalls
		_, err := runAnalyzer(pass)
		gsxrt.Reached("pass returned")
		if cfgErr != nil {
			gsxrt.Reached("invalid configuration")
			if i == 0 {
				gsxrt.Assert(err != nil, "an invalid Go version is reported as an initialisation error by the first pass")
			}
			gsxrt.Assert(gsxCtorCalls == before, "no checker is created under an invalid configuration")
		} else if gsxCtorFails {
			gsxrt.Assert(err != nil, "a failing checker constructor is reported by every pass")
		} else {
			gsxrt.Reached("valid configuration")
			gsxrt.Assert(err == nil, "a valid configuration analyses every package")
			gsxrt.Assert(gsxCtorCalls == before+1, "each pass builds its own checker instances")
		}
	}
	gsxCtorFails = false
}
