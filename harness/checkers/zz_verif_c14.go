package checkers

import (
	"go/ast"
	"go/types"

	"github.com/go-critic/go-critic/gsxrt"
	"github.com/go-critic/go-critic/linter"
)

func gsxInfo(name string) *linter.CheckerInfo {
	for _, x := range linter.GetCheckersInfo() {
		if x.Name == name {
			return x
		}
	}
	panic("gsx: no such checker: " + name)
}

// gsxC14Fields: every real constructor stores the value of the documented
// parameter key in the field the checker later compares against.
func gsxC14Fields() {
	ints := []struct{ checker, param, field string }{
		{"commentedOutCode", "minLength", "minLength"},
		{"hugeParam", "sizeThreshold", "sizeThreshold"},
		{"ifElseChain", "minThreshold", "minThreshold"},
		{"nestingReduce", "bodyWidth", "bodyWidth"},
		{"rangeExprCopy", "sizeThreshold", "sizeThreshold"},
		{"rangeValCopy", "sizeThreshold", "sizeThreshold"},
		{"tooManyResultsChecker", "maxResults", "maxParams"},
	}
	for _, e := range ints {
		c, _ := gsxNewChecker(e.checker)
		want := gsxInfo(e.checker).Params[e.param].Value.(int)
		v := gsxrt.Field(gsxrt.Field(c, "fileWalker"), "visitor")
		got := gsxrt.Field(v, e.field)
		switch g := got.(type) {
		case int:
			gsxrt.Assert(g == want, "the checker uses the configured value of its int parameter")
		case int64:
			gsxrt.Assert(g == int64(want), "the checker uses the configured value of its int parameter")
		default:
			gsxrt.Assert(false, "parameter field not found: "+e.checker+"."+e.field)
		}
	}
	bools := []struct{ checker, param, field string }{
		{"captLocal", "paramsOnly", "paramsOnly"},
		{"elseif", "skipBalanced", "skipBalanced"},
		{"rangeExprCopy", "skipTestFuncs", "skipTestFuncs"},
		{"rangeValCopy", "skipTestFuncs", "skipTestFuncs"},
		{"truncateCmp", "skipArchDependent", "skipArchDependent"},
		{"underef", "skipRecvDeref", "skipRecvDeref"},
		{"unnamedResult", "checkExported", "checkExported"},
	}
	for _, e := range bools {
		c, _ := gsxNewChecker(e.checker)
		want := gsxInfo(e.checker).Params[e.param].Value.(bool)
		v := gsxrt.Field(gsxrt.Field(c, "fileWalker"), "visitor")
		got, ok := gsxrt.Field(v, e.field).(bool)
		gsxrt.Assert(ok && got == want, "the checker uses the configured value of its bool parameter")
	}
	gsxrt.Reached("fields")
}

// gsxC14Monotone: a stricter (lower) threshold never removes diagnostics, a
// relaxed one never adds any - the same input is visited by two instances of
// the checker that differ only in the threshold.
func gsxC14Monotone(name, param string) {
	info := gsxInfo(name)
	t1 := gsxrt.IntRange("t1", 0, 1<<20)
	t2 := gsxrt.IntRange("t2", 0, 1<<20)
	gsxrt.Assume(t1 <= t2)
	c1, ctx := gsxNewChecker(name)
	_ = c1
	info.Params[param].Value = t1
	strict, err := linter.NewChecker(ctx, info)
	if err != nil {
		gsxrt.Assume(false)
	}
	info.Params[param].Value = t2
	relaxed, err := linter.NewChecker(ctx, info)
	if err != nil {
		gsxrt.Assume(false)
	}
	gsxFocus(strict)
	in := gsxMakeInput(strict)
	gsxApply(strict, in)
	gsxApply(relaxed, in)
	n1, n2 := len(gsxWarnings(strict)), len(gsxWarnings(relaxed))
	if n1 > 0 {
		gsxrt.Reached("strict warns")
	}
	gsxrt.Assert(n2 <= n1, "threshold: relaxing the threshold adds a diagnostic / a stricter threshold removes one")
}

func gsxC14Monotone_hugeParam()        { gsxC14Monotone("hugeParam", "sizeThreshold") }
func gsxC14Monotone_rangeValCopy()     { gsxC14Monotone("rangeValCopy", "sizeThreshold") }
func gsxC14Monotone_rangeExprCopy()    { gsxC14Monotone("rangeExprCopy", "sizeThreshold") }
func gsxC14Monotone_tooManyResults()   { gsxC14Monotone("tooManyResultsChecker", "maxResults") }
func gsxC14Monotone_nestingReduce()    { gsxC14Monotone("nestingReduce", "bodyWidth") }
func gsxC14Monotone_ifElseChain()      { gsxC14Monotone("ifElseChain", "minThreshold") }
func gsxC14Monotone_commentedOutCode() { gsxC14Monotone("commentedOutCode", "minLength") }

// gsxC14Boundary: with the thresholds t and t+1 on the same input, a
// diagnostic that is present at t and gone at t+1 pins the construct's measure:
// it must be the one the parameter's documentation states.
func gsxC14Boundary(name, param string, measure func(in *gsxInput, ctx *linter.Context) (m int64, known bool)) {
	info := gsxInfo(name)
	t := gsxrt.IntRange("t", 0, 1<<20)
	_, ctx := gsxNewChecker(name)
	info.Params[param].Value = t
	at, err := linter.NewChecker(ctx, info)
	if err != nil {
		gsxrt.Assume(false)
	}
	info.Params[param].Value = t + 1
	above, err := linter.NewChecker(ctx, info)
	if err != nil {
		gsxrt.Assume(false)
	}
	gsxFocus(at)
	in := gsxMakeInput(at)
	gsxApply(at, in)
	gsxApply(above, in)
	n1, n2 := len(gsxWarnings(at)), len(gsxWarnings(above))
	if n1 == 1 && n2 == 0 {
		gsxrt.Reached("flip")
		if m, known := measure(in, ctx); known {
			gsxrt.Reached("measured flip")
			gsxrt.Assert(m == int64(t), "boundary: the diagnostic appears / disappears one step away from the documented boundary")
		}
	}
}

// nestingReduce.bodyWidth: "min number of statements inside a branch to trigger a warning"
func gsxC14Boundary_nestingReduce() {
	gsxC14Boundary("nestingReduce", "bodyWidth", func(in *gsxInput, ctx *linter.Context) (int64, bool) {
		var body []ast.Stmt
		switch s := in.stmt.(type) {
		case *ast.ForStmt:
			body = s.Body.List
		case *ast.RangeStmt:
			body = s.Body.List
		default:
			return 0, false
		}
		if len(body) != 1 {
			return 0, false
		}
		ifs, ok := body[0].(*ast.IfStmt)
		if !ok {
			return 0, false
		}
		return int64(len(ifs.Body.List)), true // reported at bodyWidth == number of statements, not at +1
	})
}

// tooManyResults.maxResults: "maximum number of results" - t results are fine, t+1 are reported
func gsxC14Boundary_tooManyResults() {
	gsxC14Boundary("tooManyResultsChecker", "maxResults", func(in *gsxInput, ctx *linter.Context) (int64, bool) {
		sig, ok := ctx.TypesInfo.TypeOf(in.decl.Name).(*types.Signature)
		if !ok {
			return 0, false
		}
		return int64(sig.Results().Len()) - 1, true
	})
}

// hugeParam.sizeThreshold: "size in bytes that makes the warning trigger"
func gsxC14Boundary_hugeParam() {
	gsxC14Boundary("hugeParam", "sizeThreshold", func(in *gsxInput, ctx *linter.Context) (int64, bool) {
		// exactly one diagnostic: find the single parameter name and its size
		var ids []*ast.Ident
		if in.decl.Recv != nil {
			for _, p := range in.decl.Recv.List {
				ids = append(ids, p.Names...)
			}
		}
		for _, p := range in.decl.Type.Params.List {
			ids = append(ids, p.Names...)
		}
		if len(ids) != 1 {
			return 0, false
		}
		typ := ctx.TypesInfo.TypeOf(ids[0])
		if typ == nil {
			return 0, false
		}
		return ctx.SizesInfo.Sizeof(typ), true
	})
}
