package checkers

import (
	"go/ast"
	"go/token"
	"go/types"
	"strconv"

	"github.com/go-critic/go-critic/gsxrt"
	"github.com/go-critic/go-critic/linter"
)

// ---- ExprSem: a small evaluator for Go boolean / numeric expressions over
// symbolic operators, literal texts and operand values. Executed by GSX it
// turns "input and suggestion denote the same value for all inputs" into
// solver queries over operators x literal spellings x operand types x values.

type gsxVals struct {
	x, y  int  // values of the operands x, y (for float operands: in half units)
	float bool // operands are float64: numbers are counted in halves, so that 0.5 exists
	// the impure operand f(): the k-th evaluation returns fvals[k]; calls counts evaluations
	fvals  []int
	calls  int
	impure bool // the expression contains f()
}

// next: the value of the next evaluation of f() (a fresh symbolic value per evaluation,
// shared by the original and the suggestion through the index).
func (env *gsxVals) next() int {
	k := env.calls
	env.calls++
	if k < len(env.fvals) {
		return env.fvals[k]
	}
	gsxrt.Assume(false) // more evaluations than the harness provides values for
	return 0
}

// gsxLit: the value of an integer literal by Go's literal grammar
// (decimal, octal with a leading 0, or hexadecimal 0x..); ok=false for texts outside it.
func gsxLit(s string) (v int, ok bool) {
	if !gsxrt.Matches(`^(0|[1-9][0-9]{0,2}|0[0-7]{1,2}|0x[0-9a-f])$`, s) {
		return 0, false
	}
	if len(s) > 2 && s[1] == 'x' {
		for i := 2; i < len(s); i++ {
			d := int(s[i] - '0')
			if s[i] >= 'a' {
				d = int(s[i]-'a') + 10
			}
			v = v*16 + d
		}
		return v, true
	}
	base := 10
	if len(s) > 1 && s[0] == '0' {
		base = 8
	}
	for i := 0; i < len(s); i++ {
		v = v*base + int(s[i]-'0')
	}
	return v, true
}

func gsxNum(e ast.Expr, env *gsxVals) int {
	unit := 1
	if env.float {
		unit = 2
	}
	switch e := e.(type) {
	case *ast.ParenExpr:
		return gsxNum(e.X, env)
	case *ast.Ident:
		if e.Name == "x" {
			return env.x
		}
		return env.y
	case *ast.CallExpr:
		return env.next()
	case *ast.BasicLit:
		v, ok := gsxLit(e.Value)
		gsxrt.Assume(ok)
		return v * unit
	case *ast.BinaryExpr:
		l, r := gsxNum(e.X, env), gsxNum(e.Y, env)
		gsxrt.Assume(e.Op == token.ADD || e.Op == token.SUB)
		if e.Op == token.ADD {
			return l + r
		}
		return l - r
	}
	gsxrt.Assume(false)
	return 0
}

func gsxBool(e ast.Expr, env *gsxVals) bool {
	switch e := e.(type) {
	case *ast.ParenExpr:
		return gsxBool(e.X, env)
	case *ast.UnaryExpr:
		gsxrt.Assume(e.Op == token.NOT)
		return !gsxBool(e.X, env)
	case *ast.BinaryExpr:
		if gsxrt.Or(e.Op == token.LAND, e.Op == token.LOR) {
			if !env.impure {
				l, r := gsxBool(e.X, env), gsxBool(e.Y, env)
				return gsxrt.Or(gsxrt.And(e.Op == token.LAND, l, r), gsxrt.And(e.Op == token.LOR, gsxrt.Or(l, r)))
			}
			// with an impure operand the right side runs only if the left one does not decide
			l := gsxBool(e.X, env)
			if e.Op == token.LAND {
				if !l {
					return false
				}
				return gsxBool(e.Y, env)
			}
			if l {
				return true
			}
			return gsxBool(e.Y, env)
		}
		l, r := gsxNum(e.X, env), gsxNum(e.Y, env)
		return gsxrt.Or(
			gsxrt.And(e.Op == token.EQL, l == r), gsxrt.And(e.Op == token.NEQ, l != r),
			gsxrt.And(e.Op == token.LSS, l < r), gsxrt.And(e.Op == token.LEQ, l <= r),
			gsxrt.And(e.Op == token.GTR, l > r), gsxrt.And(e.Op == token.GEQ, l >= r))
	}
	gsxrt.Assume(false)
	return false
}

// ---- well-typed expression templates with symbolic content

type gsxGen struct {
	info   *types.Info
	num    types.Type
	n      int
	impure bool // offer the call f() as an operand
	used   bool // f() was used
	// namesake: the impure operand is a call of a user-declared len / cap
	namesake bool
}

func (g *gsxGen) name(s string) string { g.n++; return s + strconv.Itoa(g.n) }

func (g *gsxGen) typed(e ast.Expr, t types.Type) ast.Expr {
	g.info.Types[e] = types.TypeAndValue{Type: t}
	return e
}

func (g *gsxGen) numExpr(depth int) ast.Expr {
	switch gsxrt.Choose(g.name("num"), 2+depth) {
	case 0:
		nvars := 2
		if g.impure {
			nvars = 3
		}
		pick := gsxrt.Choose(g.name("var"), nvars)
		if g.namesake && pick == 0 {
			pick = 2 // operands: len(x) / cap(x), y, literals
		}
		switch pick {
		case 0:
			return g.typed(&ast.Ident{Name: "x"}, g.num)
		case 2:
			// a call of a function with side effects: f()
			g.used = true
			// the callee: f(), or a user-declared function that shares the spelling of a
			// builtin and is called like it - len(x), cap(x) (Uses says: a func, not the builtin)
			if g.namesake {
				id := &ast.Ident{Name: []string{"len", "cap"}[gsxrt.Choose("callee", 2)]}
				g.info.Uses[id] = types.NewFunc(token.NoPos, nil, id.Name, types.NewSignatureType(nil, nil, nil, types.NewTuple(types.NewVar(token.NoPos, nil, "v", g.num)), types.NewTuple(types.NewVar(token.NoPos, nil, "", g.num)), false))
				return g.typed(&ast.CallExpr{Fun: id, Args: []ast.Expr{g.typed(&ast.Ident{Name: "x"}, g.num)}}, g.num)
			}
			return g.typed(&ast.CallExpr{Fun: &ast.Ident{Name: "f"}}, g.num)
		}
		return g.typed(&ast.Ident{Name: "y"}, g.num)
	case 1:
		lit := &ast.BasicLit{Kind: token.INT, Value: gsxrt.StringN(g.name("lit"), 3)}
		_, ok := gsxLit(lit.Value)
		gsxrt.Assume(ok)
		return g.typed(lit, g.num)
	default:
		op := token.Token(gsxrt.IntRange(g.name("arith"), int(token.ADD), int(token.SUB)))
		one := &ast.BasicLit{Kind: token.INT, Value: gsxrt.StringN(g.name("lit"), 2)}
		_, ok := gsxLit(one.Value)
		gsxrt.Assume(ok)
		g.typed(one, g.num)
		return g.typed(&ast.BinaryExpr{X: g.numExpr(0), Op: op, Y: one}, g.num)
	}
}

func (g *gsxGen) cmp() ast.Expr {
	op := token.Token(gsxrt.IntRange(g.name("cmp"), int(token.EQL), int(token.GEQ)))
	gsxrt.Assume(gsxrt.Or(op == token.EQL, op == token.NEQ, op == token.LSS, op == token.LEQ, op == token.GTR, op == token.GEQ))
	return g.typed(&ast.BinaryExpr{X: g.numExpr(1), Op: op, Y: g.numExpr(1)}, types.Typ[types.Bool])
}

func (g *gsxGen) boolExpr(depth int) ast.Expr {
	if depth == 0 {
		return g.cmp()
	}
	switch gsxrt.Choose(g.name("bool"), 3) {
	case 0:
		return g.cmp()
	case 1:
		inner := g.boolExpr(depth - 1)
		return g.typed(&ast.UnaryExpr{Op: token.NOT, X: g.typed(&ast.ParenExpr{X: inner}, types.Typ[types.Bool])}, types.Typ[types.Bool])
	default:
		op := token.Token(gsxrt.IntRange(g.name("logic"), int(token.LAND), int(token.LOR)))
		return g.typed(&ast.BinaryExpr{X: g.boolExpr(depth - 1), Op: op, Y: g.boolExpr(depth - 1)}, types.Typ[types.Bool])
	}
}

// gsxC10BoolSimplify: whenever boolExprSimplify proposes `B` for `A`, A and B
// have the same value for all values of the operands - for every operator
// combination, every literal spelling (decimal and octal) and int as well as
// float64 operands.
func gsxC10BoolSimplify() { gsxC10Bool(gsxrt.Choose("operandType", 4)) }

// one entry per operand type, so that each gets its own exploration budget
// (the model keeps the choice under the same name for the replay)
func gsxC10BoolSimplifyInt() {
	gsxrt.Assume(gsxrt.Choose("operandType", 4) == 0)
	gsxC10Bool(0)
}
func gsxC10BoolSimplifyFloat() {
	gsxrt.Assume(gsxrt.Choose("operandType", 4) == 1)
	gsxC10Bool(1)
}
func gsxC10BoolSimplifyNamedFloat() {
	gsxrt.Assume(gsxrt.Choose("operandType", 4) == 2)
	gsxC10Bool(2)
}

// gsxC10BoolSimplifyImpure: int operands, one of which may be the call f()
// (a fresh value and an observable side effect per evaluation): the suggestion
// has the same value AND evaluates f() the same number of times, in the same
// order (left to right, short-circuit included).
func gsxC10BoolSimplifyImpure() {
	gsxrt.Assume(gsxrt.Choose("operandType", 4) == 3)
	gsxC10Bool(3)
}

// gsxC10BoolSimplifyNamesake: as the impure harness, but the impure operand is a call of
// a user-declared function named like a builtin (len(x), cap(x)): a purity test that
// recognises the builtin by spelling would fold two evaluations into one.
func gsxC10BoolSimplifyNamesake() {
	gsxrt.Assume(gsxrt.Choose("operandType", 5) == 4)
	gsxC10Bool(4)
}

func gsxC10Bool(operandType int) {
	info := gsxInfo("boolExprSimplify")
	ctx := linter.NewContext(token.NewFileSet(), types.SizesFor("gc", "amd64"))
	ctx.TypesInfo.Types = map[ast.Expr]types.TypeAndValue{}
	ctx.TypesInfo.Uses = map[*ast.Ident]types.Object{}
	ctx.TypesInfo.Defs = map[*ast.Ident]types.Object{}
	c, err := linter.NewChecker(ctx, info)
	if err != nil {
		panic(err)
	}
	g := &gsxGen{info: ctx.TypesInfo, num: types.Typ[types.Int]}
	env := &gsxVals{x: gsxrt.IntRange("x", -64, 64), y: gsxrt.IntRange("y", -64, 64)}
	switch operandType {
	case 3:
		g.impure = true
	case 4:
		g.impure, g.namesake = true, true
	case 1:
		g.num, env.float = types.Typ[types.Float64], true
	case 2:
		// a defined type whose underlying type is float64 (type gsxFloat float64)
		g.num, env.float = types.NewNamed(types.NewTypeName(token.NoPos, nil, "gsxFloat", nil), types.Typ[types.Float64], nil), true
	}
	root := g.boolExpr(gsxrt.Bound("depth", 1))
	v := gsxrt.Field(gsxrt.Field(c, "fileWalker"), "visitor").(interface{ VisitExpr(ast.Expr) })
	v.VisitExpr(root)
	args := gsxrt.LastWarnArgs()
	if len(args) != 2 {
		return
	}
	gsxrt.Reached("simplified")
	sugg := args[1].(ast.Expr)
	cat := "int operands, single comparison"
	if _, isLogic := root.(*ast.BinaryExpr); isLogic && gsxrt.Or(root.(*ast.BinaryExpr).Op == token.LAND, root.(*ast.BinaryExpr).Op == token.LOR) {
		cat = "int operands, combined comparisons"
	}
	if env.float {
		cat = "float64 operands"
	}
	if g.impure {
		if !g.used {
			return // covered by the pure entries
		}
		fv := []int{gsxrt.IntRange("f0", -64, 64), gsxrt.IntRange("f1", -64, 64), gsxrt.IntRange("f2", -64, 64), gsxrt.IntRange("f3", -64, 64)}
		e1 := &gsxVals{x: env.x, y: env.y, fvals: fv, impure: true}
		e2 := &gsxVals{x: env.x, y: env.y, fvals: fv, impure: true}
		v1, v2 := gsxBool(root, e1), gsxBool(sugg, e2)
		gsxrt.Reached("impure simplified")
		gsxrt.Assert(v1 == v2 && e1.calls == e2.calls, "simplify: [impure operand] the suggested expression does not evaluate f() as often / in the same order as the original, or has another value")
		return
	}
	gsxrt.Assert(gsxBool(root, env) == gsxBool(sugg, env), "simplify: ["+cat+"] the suggested expression does not have the value of the original for all operand values")
}
